//! C19 — diagnostics are located, renderable and routed only through the Logger.
//!
//! Spaces: error locations over C01's failing inputs (token soup in 22 contexts, built-ins x
//! argument tuples, value positions, the error corpus, errors raised inside imported files and
//! inside callables defined in imported files); @error x value universe x placements;
//! @debug/@warn delivery over SassCore programs (loops, mixins, functions, content blocks,
//! imported files) x quiet x unicode against the reference interpreter; process silence.

use super::c01;
use crate::core::*;
use crate::gen::builtins::*;
use crate::gen::core::*;
use crate::gen::corpus;
use crate::models::interp::{count_ids, Ev, Interp};
use serde_json::json;
use std::collections::BTreeMap;

/// Location oracle: the named file is one of the supplied files, the text grass holds for it is the
/// supplied text, begin/end lie inside it, and both renderings start with `Error: <message>`.
pub fn judge_location(e: &ErrInfo, files: &BTreeMap<String, String>) -> Option<String> {
    if e.kind != "parse" {
        return Some(format!("a compile error was reported as kind {:?} without a location: {:?}", e.kind, e.rendered));
    }
    let text = match files.get(&e.file).or_else(|| files.get(&normalize(std::path::Path::new(&e.file)))) {
        Some(t) => t,
        None => return Some(format!("the error names file {:?}, which is not one of the files of this compilation {:?}", e.file, files.keys().collect::<Vec<_>>())),
    };
    if e.source_digest != digest_str(text) {
        return Some(format!("the text attached to the error's file {:?} is not the text of that file", e.file));
    }
    let lines: Vec<&str> = text.split('\n').collect();
    for (what, (l, c)) in [("begin", e.begin), ("end", e.end)] {
        if l >= lines.len() {
            return Some(format!("{} line {} is past the end of {:?} ({} lines)", what, l + 1, e.file, lines.len()));
        }
        let width = lines[l].chars().count();
        // a location may sit on the line terminator (one past the last character)
        if c > width + 1 {
            return Some(format!("{} column {} is past the end of line {} of {:?} ({} characters)", what, c + 1, l + 1, e.file, width));
        }
    }
    if e.end < e.begin {
        return Some(format!("the location ends ({}:{}) before it begins ({}:{})", e.end.0 + 1, e.end.1 + 1, e.begin.0 + 1, e.begin.1 + 1));
    }
    if !e.rendered.starts_with(&format!("Error: {}", e.message)) {
        return Some(format!("the rendering does not start with `Error: <message>`: {:?}", e.rendered));
    }
    if !e.rendered.contains(&format!("{}:{}", e.begin.0 + 1, e.begin.1 + 1)) {
        return Some(format!("the rendering does not show the location {}:{}: {:?}", e.begin.0 + 1, e.begin.1 + 1, e.rendered));
    }
    None
}

fn stdin_files(src: &str) -> BTreeMap<String, String> {
    let mut m = BTreeMap::new();
    m.insert("stdin".to_string(), src.to_string());
    m
}

/// one failing-input case from a string: both rendering modes
fn judge_string(src: &str, syn: Syn, l: &mut Local) -> Option<String> {
    let files = stdin_files(src);
    let mut msgs: Vec<String> = Vec::new();
    for unicode in [true, false] {
        let cfg = Cfg { syntax: Some(syn), unicode, ..Cfg::default() };
        l.evals += 1;
        match compile(src, &cfg) {
            Outcome::Ok(_) => {
                l.count("compiles", 1);
                return None;
            }
            Outcome::Panic(p) => return Some(format!("panic instead of a located error: {}", p)),
            Outcome::Err(e) => {
                l.validated += 1;
                l.outcome(digest_str(&format!("{}|{:?}|{:?}", e.message, e.begin, e.end)));
                if let Some(d) = judge_location(&e, &files) {
                    return Some(format!("{} (unicode_error_messages={})", d, unicode));
                }
                let boxy = e.rendered.chars().any(|c| ('\u{2500}'..='\u{257f}').contains(&c));
                if !unicode && boxy && !src.chars().any(|c| ('\u{2500}'..='\u{257f}').contains(&c)) {
                    return Some("the ASCII rendering contains box-drawing characters".into());
                }
                msgs.push(format!("{}|{:?}|{:?}", e.message, e.begin, e.end));
            }
        }
    }
    l.nontrivial += 1;
    if msgs.len() == 2 && msgs[0] != msgs[1] {
        return Some(format!("message/location differ between rendering modes: {} vs {}", msgs[0], msgs[1]));
    }
    None
}

fn run_strings(ctx: &Ctx, sub: &'static str, bound: &str, n: u64, gen: &(dyn Fn(u64) -> (String, Syn) + Sync)) {
    par(
        ctx,
        sub,
        n,
        |i| {
            let (s, syn) = gen(i);
            json!({"input": s, "syntax": syn.name()})
        },
        |i, l| {
            let (s, syn) = gen(i);
            if let Some(d) = judge_string(&s, syn, l) {
                ctx.violation(sub, &format!("loc:{}:{}", syn.name(), s.replace('\n', "\\n")), &d, json!({"input": s, "syntax": syn.name()}));
            }
        },
    );
    ctx.bound(sub, bound, true);
    if n > 0 {
        let (s, syn) = gen(n / 2);
        ctx.sample(sub, json!({"input": s, "syntax": syn.name()}));
    }
}

// ---- imported files -------------------------------------------------------------------------------

const FAILING_SNIPPETS: &[&str] = &[
    "a { b: 1 + ; }",
    "a { b: $undefined; }",
    "a { b: 1px + 1s; }",
    "a { b: nth(1 2, 5); }",
    "@error \"boom\";",
    "a {\n  b: c;\n\n  d: f(;\n}",
    "a { @extend b c; }",
    "@include nope;",
    "a { b: \"\u{e9}\u{1F600}\" + (1, 2) * 2; }",
    "\u{e9}\u{e9} { b: map-get(1, 2); }",
    "@use \"sass:math\";\na { b: math.div(1, 0px) + red; }",
    "a { b: 1 }}",
    "@function f() { }\na { b: f(); }",
    "@if true { a { b: 1 +; } }",
    "a { b: #{1 +}; }",
    "$m: (a: 1, a: 2);",
];

/// (files, entry) layouts in which snippet `k` fails inside an imported file or inside a callable
/// defined in one
fn import_layouts(k: usize) -> Vec<(BTreeMap<String, String>, &'static str)> {
    let snip = FAILING_SNIPPETS[k];
    let mut out = Vec::new();
    let mk = |files: &[(&str, String)]| -> BTreeMap<String, String> { files.iter().map(|(a, b)| (a.to_string(), b.clone())).collect() };
    for (rule, tail) in [("@import \"lib\";", ""), ("@use \"lib\";", ""), ("@use \"lib\" as *;", ""), ("@forward \"lib\";", ""), ("// x\n\n@import \"sub/lib\";", ""), ("a { @import \"lib\"; }", "")] {
        let libname = if rule.contains("sub/") { "/w/sub/_lib.scss" } else { "/w/_lib.scss" };
        out.push((mk(&[("/w/main.scss", format!("{}\n{}", rule, tail)), (libname, format!("/* lib */\n{}\n", snip))]), "/w/main.scss"));
        // two levels
        out.push((mk(&[("/w/main.scss", format!("{}\n", rule)), (libname, "\n\n@import \"deep\";\n".to_string()), (if rule.contains("sub/") { "/w/sub/deep.scss" } else { "/w/deep.scss" }, format!("x {{ y: z; }}\n{}\n", snip))]), "/w/main.scss"));
    }
    // failing expression inside a mixin / function defined in the library, triggered from main
    if let Some(expr) = snip.strip_prefix("a { b: ").and_then(|s| s.strip_suffix("; }")) {
        if !expr.contains('{') {
            for rule in ["@import \"lib\";", "@use \"lib\" as *;"] {
                out.push((mk(&[("/w/main.scss", format!("{}\nq {{ @include m; }}\n", rule)), ("/w/_lib.scss", format!("@mixin m {{\n  b: {};\n}}\n", expr))]), "/w/main.scss"));
                out.push((mk(&[("/w/main.scss", format!("{}\n\nq {{ r: f(); }}\n", rule)), ("/w/_lib.scss", format!("\n@function f() {{\n  @return {};\n}}\n", expr))]), "/w/main.scss"));
            }
        }
    }
    // the failure in main after a successful import
    out.push((mk(&[("/w/main.scss", format!("@import \"lib\";\n{}\n", snip)), ("/w/_lib.scss", "x { y: z; }\n".to_string())]), "/w/main.scss"));
    out
}

fn space_imports(ctx: &Ctx) {
    let sub = "error-locations.imported";
    let mut cases: Vec<(BTreeMap<String, String>, &'static str)> = Vec::new();
    for k in 0..FAILING_SNIPPETS.len() {
        cases.extend(import_layouts(k));
    }
    // missing / unreadable imports: the error is located at the import statement
    for rule in ["@import \"missing\";", "@use \"missing\";", "a {\n  @import \"missing\";\n}", "@forward \"missing\";", "\n\n  @use \"bad-utf8\";"] {
        let mut m = BTreeMap::new();
        m.insert("/w/main.scss".to_string(), format!("{}\n", rule));
        cases.push((m, "/w/main.scss"));
    }
    par(
        ctx,
        sub,
        cases.len() as u64,
        |i| json!({"files": cases[i as usize].0}),
        |i, l| {
            let (files, entry) = &cases[i as usize];
            for unicode in [true, false] {
                let mut fs = MemFs::new();
                for (p, t) in files {
                    fs.add(p, t);
                }
                let lg = CollectLogger::new();
                let cfg = Cfg { syntax: None, unicode, quiet: false, ..Cfg::default() };
                l.evals += 1;
                let o = compile_path(entry, &cfg, &Env { fs: &fs, logger: &lg });
                match o {
                    Outcome::Ok(_) => {
                        ctx.violation(sub, &format!("imp:{}", i), "a layout with a failing snippet compiles", json!({"files": files}));
                        return;
                    }
                    Outcome::Panic(p) => {
                        ctx.violation(sub, &format!("imp:{}", i), &format!("panic: {}", p), json!({"files": files}));
                        return;
                    }
                    Outcome::Err(e) => {
                        l.validated += 1;
                        l.outcome(digest_str(&format!("{}|{}|{:?}", e.message, e.file, e.begin)));
                        if let Some(d) = judge_location(&e, files) {
                            ctx.violation(sub, &format!("imp:{}", i), &d, json!({"files": files, "error": e.rendered}));
                            return;
                        }
                        // the snippet's own text must be what the location points into
                        let snippet_file = files.iter().find(|(_, t)| FAILING_SNIPPETS.iter().any(|s| t.contains(s)) || t.contains("@mixin m") || t.contains("@function f()")).map(|x| x.0.clone());
                        if let Some(sf) = snippet_file {
                            if files.values().any(|t| t.contains("missing") || t.contains("bad-utf8")) {
                                // not-found errors are located at the import statement in main
                            } else if e.file != sf && normalize(std::path::Path::new(&e.file)) != sf {
                                ctx.violation(sub, &format!("imp:{}", i), &format!("the failure is in {:?} but the error names {:?}", sf, e.file), json!({"files": files, "error": e.rendered}));
                                return;
                            }
                        }
                        l.nontrivial += 1;
                    }
                }
            }
        },
    );
    ctx.bound(sub, "16 failing snippets x 6 load rules (@import, @use, @use as *, @forward, sub-directory, nested @import) x {direct, through an intermediate file}, inside a mixin / function defined in the library and called from the entry file, in the entry file after a successful import; 5 missing-file shapes; both rendering modes", true);
    ctx.sample(sub, json!({"files": cases[3].0}));
}

// ---- @error ------------------------------------------------------------------------------------------

fn space_at_error(ctx: &Ctx) {
    let sub = "at-error";
    let placements: Vec<(&str, Box<dyn Fn(&str) -> (String, usize) + Sync>)> = vec![
        ("top", Box::new(|v: &str| (format!("\n@error {};\n", v), 2))),
        ("rule", Box::new(|v: &str| (format!("a {{\n  b: c;\n  @error {};\n}}\n", v), 3))),
        ("mixin", Box::new(|v: &str| (format!("@mixin m($v) {{\n  @error $v;\n}}\na {{ @include m({}); }}\n", v), 2))),
        ("function", Box::new(|v: &str| (format!("@function f($v) {{\n\n  @error $v;\n}}\na {{ b: f({}); }}\n", v), 3))),
        ("loop", Box::new(|v: &str| (format!("@each $k in 1 2 {{\n  @if $k == 2 {{\n    @error {};\n  }}\n}}\n", v), 3))),
    ];
    let n = (UNIVERSE.len() * placements.len()) as u64;
    par(
        ctx,
        sub,
        n,
        |i| json!({"value": UNIVERSE[i as usize % UNIVERSE.len()], "placement": placements[i as usize / UNIVERSE.len()].0}),
        |i, l| {
            let v = UNIVERSE[i as usize % UNIVERSE.len()];
            let (pname, f) = &placements[i as usize / UNIVERSE.len()];
            let (src, line) = f(v);
            // what inspect() prints for the value (an invalid value expression is skipped)
            l.evals += 1;
            let want = match compile(&format!("@use \"sass:meta\";\na{{b:meta.inspect(({}))}}", v), &Cfg { charset: false, ..Cfg::scss() }) {
                Outcome::Ok(css) => match crate::models::css::parse(&css).ok().map(|b| crate::models::css::flatten(&b)) {
                    Some(bl) if !bl.is_empty() && !bl[0].decls.is_empty() => bl[0].decls[0].1.clone(),
                    _ => {
                        l.count("skipped_no_inspect_text", 1);
                        return;
                    }
                },
                _ => {
                    l.count("skipped_invalid_value", 1);
                    return;
                }
            };
            for (unicode, crlf) in [(true, false), (false, false), (true, true)] {
                l.evals += 1;
                let cfg = Cfg { unicode, ..Cfg::default() };
                // CRLF spelling behind 12 blank lines: same line numbers + 12
                let (src, line) = if crlf { (format!("{}{}", "\n".repeat(12), src).replace('\n', "\r\n"), line + 12) } else { (src.clone(), line) };
                match compile(&src, &cfg) {
                    Outcome::Err(e) => {
                        l.validated += 1;
                        l.outcome(digest_str(&e.message));
                        if let Some(d) = judge_location(&e, &stdin_files(&src)) {
                            ctx.violation(sub, &format!("at-error:{}:{}", pname, v), &d, json!({"input": src}));
                            return;
                        }
                        if crate::models::css::squash_ws(&e.message) != crate::models::css::squash_ws(&want) {
                            ctx.violation(sub, &format!("at-error:{}:{}", pname, v), &format!("@error reports {:?}, inspect() prints {:?}", e.message, want), json!({"input": src}));
                            return;
                        }
                        if e.begin.0 + 1 != line {
                            ctx.violation(sub, &format!("at-error:{}:{}", pname, v), &format!("@error on line {} is reported at line {}", line, e.begin.0 + 1), json!({"input": src, "error": e.rendered}));
                            return;
                        }
                        l.nontrivial += 1;
                    }
                    o => {
                        ctx.violation(sub, &format!("at-error:{}:{}", pname, v), &format!("@error did not fail the compilation: {}", o.brief()), json!({"input": src}));
                        return;
                    }
                }
            }
        },
    );
    ctx.bound(sub, "40-value universe x 5 placements (top level, style rule, mixin argument, function argument, loop + @if) x {Unicode, ASCII, Unicode with CRLF terminators behind 12 blank lines}: message = inspect() text, location = line of the directive", true);
    ctx.sample(sub, json!({"input": "@function f($v) {\n\n  @error $v;\n}\na { b: f((a: 1)); }"}));
}

// ---- @debug / @warn delivery ------------------------------------------------------------------------

fn log_stmts() -> Vec<S> {
    vec![
        S::Debug(v("i")),
        S::Warn(v("i")),
        S::Warn(E::Str("same".into())),
        S::Debug(E::Str("same".into())),
        S::Warn(b("%", v("i"), i(2))),
        S::Debug(E::List(vec![v("i"), E::Str("x".into())], false)),
        S::Warn(E::Str("\u{e9}\u{2603}".into())),
    ]
}

fn noparams() -> Params {
    Params { params: vec![], rest: None }
}
fn p1(n: &str) -> Params {
    Params { params: vec![Param { name: n.into(), default: None }], rest: None }
}

/// (library part, main part) for shape k with log statements l1, l2
fn shape(k: usize, l1: &S, l2: &S) -> Option<(Vec<S>, Vec<S>)> {
    let seed = S::Set { var: "i".into(), e: i(5), global: false, default: false };
    let inc = |n: i64| S::Include("m".into(), vec![Arg::Pos(i(n))], None);
    Some(match k {
        0 => (vec![seed, l1.clone()], vec![l2.clone(), l1.clone()]),
        1 => (vec![seed], vec![S::For("i".into(), i(1), i(3), true, vec![l1.clone(), l2.clone()])]),
        2 => (vec![seed, l2.clone()], vec![S::Each(vec!["i".into()], E::List(vec![i(1), i(2), i(1)], false), vec![l1.clone()]), l2.clone()]),
        3 => (vec![seed, S::MixinDef("m".into(), p1("i"), vec![l1.clone()])], vec![inc(1), inc(2), inc(1), l2.clone()]),
        4 => (
            vec![seed, S::FuncDef("f".into(), p1("i"), vec![l1.clone(), S::Return(v("i"))])],
            vec![S::Probe(b("+", b("+", E::Call("f".into(), vec![Arg::Pos(i(1))]), E::Call("f".into(), vec![Arg::Pos(i(2))])), E::Call("f".into(), vec![Arg::Pos(i(1))]))), l2.clone()],
        ),
        5 => (vec![seed, S::MixinDef("c".into(), noparams(), vec![S::Content(vec![]), l2.clone(), S::Content(vec![])])], vec![S::Include("c".into(), vec![], Some((noparams(), vec![l1.clone()])))]),
        6 => (
            vec![seed, S::MixinDef("m".into(), p1("i"), vec![l1.clone()])],
            vec![S::For("i".into(), i(1), i(2), true, vec![S::Include("m".into(), vec![Arg::Pos(v("i"))], None), S::If(vec![(b("==", v("i"), i(2)), vec![l2.clone()])], None)])],
        ),
        7 => (vec![seed], vec![S::Rule("r".into(), vec![l1.clone(), S::Rule("s".into(), vec![l2.clone(), l1.clone()])])]),
        8 => (
            vec![seed],
            vec![S::Set { var: "n".into(), e: i(3), global: false, default: false }, S::While(b(">", v("n"), i(0)), vec![l1.clone(), S::Set { var: "n".into(), e: b("-", v("n"), i(1)), global: false, default: false }, l2.clone()])],
        ),
        9 => (
            vec![seed, S::FuncDef("f".into(), p1("i"), vec![l1.clone(), S::Return(v("i"))]), S::MixinDef("m".into(), Params { params: vec![Param { name: "a".into(), default: Some(E::Call("f".into(), vec![Arg::Pos(i(1))])) }], rest: None }, vec![l2.clone()])],
            vec![S::Include("m".into(), vec![], None), S::Include("m".into(), vec![], None), S::Include("m".into(), vec![Arg::Pos(i(7))], None)],
        ),
        10 => (vec![seed], vec![S::If(vec![(E::Bool(false), vec![l1.clone()])], Some(vec![l2.clone()])), S::If(vec![(E::Null, vec![l2.clone()]), (i(0), vec![l1.clone()])], None)]),
        11 => (
            vec![seed, S::FuncDef("f".into(), noparams(), vec![S::For("i".into(), i(1), i(3), false, vec![l1.clone(), S::If(vec![(b("==", v("i"), i(2)), vec![S::Return(v("i"))])], None)]), S::Return(i(0))])],
            vec![S::Probe(E::Call("f".into(), vec![])), l2.clone(), S::Probe(E::Call("f".into(), vec![]))],
        ),
        _ => return None,
    })
}

const NSHAPES: usize = 12;

struct LogCase {
    files: BTreeMap<String, String>,
    want: Vec<(String, String, String, usize)>, // kind, message, file, line
    label: String,
}

fn build_log_case(k: usize, a: usize, bsel: usize, mode: usize) -> Option<LogCase> {
    build_log_case_nl(k, a, bsel, mode, "\n")
}

/// the same case with every line terminated by `nl` (line numbers are unchanged by the spelling of
/// the terminator) and, for nl != "\n", 12 extra blank lines in front so that a drift accumulates
fn build_log_case_nl(k: usize, a: usize, bsel: usize, mode: usize, nl: &str) -> Option<LogCase> {
    let mut c = build_log_case_lf(k, a, bsel, mode)?;
    if nl != "\n" {
        let pad = 12;
        for t in c.files.values_mut() {
            *t = format!("{}{}", "\n".repeat(pad), t).replace('\n', nl);
        }
        for w in c.want.iter_mut() {
            w.3 += pad;
        }
        c.label = format!("{} nl={:?}", c.label, nl);
    }
    Some(c)
}

fn build_log_case_lf(k: usize, a: usize, bsel: usize, mode: usize) -> Option<LogCase> {
    let ls = log_stmts();
    let (lib, main) = shape(k, &ls[a], &ls[bsel])?;
    let mut all = lib.clone();
    all.extend(main.clone());
    let evs = Interp::run(&all).ok()?;
    let nlib = count_ids(&lib);
    let mut files = BTreeMap::new();
    let (lines_lib, lines_main, lib_file, main_file);
    match mode {
        0 => {
            // one file
            let (src, lines) = print_program(&all);
            files.insert("/w/main.scss".to_string(), src);
            lines_lib = lines[..nlib].to_vec();
            lines_main = lines[nlib..].to_vec();
            lib_file = "/w/main.scss";
            main_file = "/w/main.scss";
        }
        _ => {
            let mut pl = Printer::new();
            pl.raw_line("// library");
            pl.stmts(&lib, 0, false, false);
            let (ls_src, ll) = pl.finish();
            let mut pm = Printer::with_first_id(nlib);
            pm.raw_line(if mode == 1 { "@import \"lib\";" } else { "@use \"lib\" as *;" });
            pm.stmts(&main, 0, false, false);
            let (ms, ml) = pm.finish();
            files.insert("/w/_lib.scss".to_string(), ls_src);
            files.insert("/w/main.scss".to_string(), ms);
            lines_lib = ll;
            lines_main = ml;
            lib_file = "/w/_lib.scss";
            main_file = "/w/main.scss";
        }
    }
    // @use: a module's variables are not assignable as plain `$i` from the importer's loops; the
    // shapes only read `$i` or bind it as a loop / parameter variable, which is a local either way
    let mut want = Vec::new();
    let mut seen: std::collections::BTreeSet<(usize, String)> = Default::default();
    for e in evs {
        if let Ev::Log(kind, msg, id) = e {
            if kind == "warn" && !seen.insert((id, msg.clone())) {
                continue; // a repeated warning (same directive, same message) is reported once
            }
            let (file, line) = if id < nlib { (lib_file, lines_lib[id]) } else { (main_file, lines_main[id - nlib]) };
            want.push((kind.to_string(), msg, file.to_string(), line));
        }
    }
    Some(LogCase { files, want, label: format!("shape {} logs {}/{} mode {}", k, a, bsel, ["inline", "@import", "@use as *"][mode]) })
}

fn run_log_case(c: &LogCase, quiet: bool, unicode: bool) -> Result<Vec<(String, String, String, usize)>, String> {
    let mut fs = MemFs::new();
    for (p, t) in &c.files {
        fs.add(p, t);
    }
    let lg = CollectLogger::new();
    let cfg = Cfg { syntax: None, quiet, unicode, ..Cfg::default() };
    match compile_path("/w/main.scss", &cfg, &Env { fs: &fs, logger: &lg }) {
        Outcome::Ok(_) => Ok(lg.take().into_iter().map(|e| (e.kind.to_string(), e.message, normalize(std::path::Path::new(&e.file)), e.line + 1)).collect()),
        o => Err(o.brief()),
    }
}

fn space_logs(ctx: &Ctx) {
    let sub = "log-delivery";
    let nl = log_stmts().len();
    let nls = ["\n", "\r\n", "\r"];
    let n = (NSHAPES * nl * nl * 3 * nls.len()) as u64;
    let decode = |i: u64| -> (usize, usize, usize, usize, &'static str) {
        let i = i as usize;
        (i % NSHAPES, (i / NSHAPES) % nl, (i / NSHAPES / nl) % nl, (i / NSHAPES / nl / nl) % 3, nls[i / NSHAPES / nl / nl / 3])
    };
    par(
        ctx,
        sub,
        n,
        |i| {
            let (k, a, b2, m, e) = decode(i);
            match build_log_case_nl(k, a, b2, m, e) {
                Some(c) => json!({"files": c.files, "label": c.label}),
                None => json!(null),
            }
        },
        |i, l| {
            let (k, a, b2, m, e) = decode(i);
            let c = match build_log_case_nl(k, a, b2, m, e) {
                Some(c) => c,
                None => {
                    l.count("skipped_reference_fails", 1);
                    return;
                }
            };
            // all configurations run on this worker thread one after the other: what an execution delivers
            // must not depend on executions before it (the non-quiet run is repeated after the quiet ones)
            for (quiet, unicode) in [(false, true), (true, true), (true, false), (false, false), (false, true)] {
                {
                    l.evals += 1;
                    let got = run_log_case(&c, quiet, unicode);
                    l.validated += 1;
                    match got {
                        Err(e) => {
                            ctx.violation(sub, &format!("log:{}", c.label), &format!("the program fails: {}", e), json!({"files": c.files}));
                            return;
                        }
                        Ok(got) => {
                            l.outcome(digest_str(&format!("{:?}", got)));
                            let want: Vec<(String, String, String, usize)> = if quiet { vec![] } else { c.want.clone() };
                            // the property fixes count, kind, file, line and order of deliveries; whether a quoted
                            // string is delivered with its quotes is not part of it
                            let unq = |v: &Vec<(String, String, String, usize)>| -> Vec<(String, String, String, usize)> {
                                v.iter().map(|(k, m, f, ln)| (k.clone(), if k == "warn" && m.len() >= 2 && m.starts_with('"') && m.ends_with('"') { m[1..m.len() - 1].to_string() } else { m.clone() }, f.clone(), *ln)).collect()
                            };
                            if unq(&got) != unq(&want) {
                                // one root cause, one key: locations count LF only, so in a file whose lines end in a
                                // lone CR every delivery is reported on line 1 (everything else equal)
                                let strip = |v: Vec<(String, String, String, usize)>| -> Vec<(String, String, String)> { v.into_iter().map(|x| (x.0, x.1, x.2)).collect() };
                                let cr_lines_only = e == "\r" && strip(unq(&got)) == strip(unq(&want)) && got.iter().all(|x| x.3 == 1);
                                ctx.violation(
                                    sub,
                                    &if cr_lines_only { "log:line-terminator:cr:line-numbers".to_string() } else { format!("log:{}:quiet={}", c.label, quiet) },
                                    &format!("the Logger received {:?}; the reference delivers {:?} (quiet={}, unicode={})", got, want, quiet, unicode),
                                    json!({"files": c.files, "quiet": quiet}),
                                );
                                return;
                            }
                            if !want.is_empty() {
                                l.nontrivial += 1;
                            }
                        }
                    }
                }
            }
        },
    );
    ctx.bound(sub, "12 program shapes (sequence, @for, @each with a repeated element, mixin included 3 times, function called 3 times in one expression, content block run twice, mixin inside a loop + @if, nested style rules, @while, function in a default argument, untaken branches, @return from a loop) x 7x7 pairs of @debug/@warn statements (loop variable, constant, computed, list, non-ASCII messages) x {one file, library via @import, library via @use as *} x {LF, CRLF, CR line terminators (the latter two behind 12 blank lines)} x 5 executions on one thread (plain, quiet, quiet+ASCII, ASCII, plain again); kind, message, file and line of every delivery, in order", true);
    if let Some(c) = build_log_case(3, 1, 2, 1) {
        ctx.sample(sub, json!({"files": c.files, "expected": c.want}));
    }
}

// ---- warnings raised by the evaluator itself -----------------------------------------------------------

fn space_evaluator_warnings(ctx: &Ctx) {
    let sub = "evaluator-warnings";
    // every program makes the compiler itself warn once (not through @warn); (source, line of the warning)
    let progs: Vec<(&str, usize)> = vec![
        ("@use \"sass:meta\";\na {\n  @include meta.load-css(\"lib\", $with: (a: 1));\n}\n", 3),
        ("@use \"sass:meta\";\n\n@include meta.load-css(\"lib\", $with: (a: 1, b: 2));\n", 3),
        ("@use \"sass:meta\";\n@mixin m { @include meta.load-css(\"lib\", $with: ()); }\n\n\na { @include m; }\n", 2),
    ];
    let n = (progs.len() * 4) as u64;
    par(
        ctx,
        sub,
        n,
        |i| json!({"input": progs[i as usize % progs.len()].0, "config": i as usize / progs.len()}),
        |i, l| {
            let (src, line) = progs[i as usize % progs.len()];
            let quiet = (i as usize / progs.len()) % 2 == 1;
            let unicode = (i as usize / progs.len()) / 2 == 1;
            let mut fs = MemFs::new();
            fs.add("e.scss", src);
            fs.add("_lib.scss", "lib { x: y; }\n");
            let lg = CollectLogger::new();
            let cfg = Cfg { syntax: None, quiet, unicode, ..Cfg::default() };
            l.evals += 1;
            let o = compile_path("e.scss", &cfg, &Env { fs: &fs, logger: &lg });
            let logs = lg.take();
            l.validated += 1;
            l.outcome(digest_str(&format!("{:?}", logs)));
            let key = format!("eval-warning:{}:quiet={}", i as usize % progs.len(), quiet);
            if !o.is_ok() {
                ctx.violation(sub, &key, &format!("the program must compile: {}", o.brief()), json!({"input": src}));
                return;
            }
            if quiet {
                if !logs.is_empty() {
                    ctx.violation(sub, &key, &format!("with quiet the Logger received {:?}", logs.iter().map(|e| e.json()).collect::<Vec<_>>()), json!({"input": src, "quiet": true}));
                }
            } else {
                l.nontrivial += 1;
                let ok = logs.len() == 1 && logs[0].kind == "warn" && logs[0].line + 1 == line && logs[0].file.ends_with("e.scss");
                if !ok {
                    ctx.violation(sub, &key, &format!("expected exactly one warning located at e.scss line {}; the Logger received {:?}", line, logs.iter().map(|e| e.json()).collect::<Vec<_>>()), json!({"input": src}));
                }
            }
        },
    );
    ctx.bound(sub, "3 programs on which the compiler itself warns (meta.load-css with $with, the only non-@warn warning grass raises) x quiet x unicode: one located delivery, none under quiet", true);
    ctx.sample(sub, json!({"input": progs[0].0}));
}

// ---- silence ------------------------------------------------------------------------------------------

/// child process: compile a batch with a collecting logger and print nothing ourselves
pub fn one_silent() -> i32 {
    let nl = log_stmts().len();
    let mut n = 0;
    for k in 0..NSHAPES {
        for a in 0..nl {
            if let Some(c) = build_log_case(k, a, (a + 1) % nl, k % 3) {
                for quiet in [false, true] {
                    let _ = run_log_case(&c, quiet, true);
                    n += 1;
                }
            }
        }
    }
    for s in FAILING_SNIPPETS {
        for unicode in [true, false] {
            let lg = CollectLogger::new();
            let cfg = Cfg { quiet: false, unicode, ..Cfg::default() };
            let o = compile_env(&format!("@warn \"before\";\n@debug 1;\n{}", s), &cfg, &Env { fs: &grass_compiler::NullFs, logger: &lg });
            if let Outcome::Err(e) = o {
                let _ = e.rendered.len();
            }
            n += 1;
        }
    }
    // deprecation-style warnings raised by the evaluator itself
    for s in ["a { b: 1/2; c: (1/2); }", "@use \"sass:math\"; a { b: math.div(1, 2); c: darken(red, 1); }", "a { b: call(\"lighten\", red, 5%); }", "$x: 1 !global; a { b: $x; }", "@function -f() { @return 1 } a { b: -f(); }"] {
        let lg = CollectLogger::new();
        let cfg = Cfg { quiet: false, ..Cfg::default() };
        let _ = compile_env(s, &cfg, &Env { fs: &grass_compiler::NullFs, logger: &lg });
        n += 1;
    }
    if n > 0 {
        0
    } else {
        2
    }
}

fn space_silence(ctx: &Ctx) {
    let sub = "process-silence";
    let exe = std::env::current_exe().expect("current_exe");
    let out = std::process::Command::new(exe).args(["--one", "c19-silent"]).output();
    let mut l = Local::default();
    l.evals = 1;
    l.validated = 1;
    match out {
        Ok(o) => {
            l.outcome(digest(&o.stdout) ^ digest(&o.stderr));
            if o.status.code() != Some(0) {
                ctx.machinery(&format!("silence child exited with {:?}", o.status));
            } else if !o.stdout.is_empty() || !o.stderr.is_empty() {
                ctx.violation(
                    sub,
                    "silence:batch",
                    &format!("with a custom Logger the library wrote to the process streams: stdout {:?} stderr {:?}", String::from_utf8_lossy(&o.stdout).chars().take(300).collect::<String>(), String::from_utf8_lossy(&o.stderr).chars().take(300).collect::<String>()),
                    json!({"cmd": "mc --one c19-silent"}),
                );
            } else {
                l.nontrivial = 1;
            }
        }
        Err(e) => ctx.machinery(&format!("cannot spawn silence child: {}", e)),
    }
    ctx.merge(sub, l);
    ctx.space_done(sub, 1);
    ctx.bound(sub, "one child process compiling 84 logging programs x quiet on/off, 16 failing programs x 2 rendering modes and 5 programs that raise evaluator warnings, all with a collecting Logger; both captured process streams must be empty", true);
}

pub fn run(ctx: &Ctx) {
    // the watchdog's clock also covers the harness's own oracle work (reference models, DOM enumeration);
    // the limit is generous so that machine load cannot turn a slow case into a verdict
    ctx.hang_limit_s.store(300, std::sync::atomic::Ordering::Relaxed);
    // ---- error locations over C01's failing inputs
    let t = c01::SIGMA.len() as u64;
    let per = c01::count_upto(t, 2);
    let nctx = c01::CONTEXTS.len() as u64;
    run_strings(ctx, "error-locations.soup", "every token string of length <= 2 over the 46-token alphabet in 22 syntactic contexts x {scss, indented}", nctx * per * 2, &|i| {
        let syn = if i % 2 == 0 { Syn::Scss } else { Syn::Sass };
        let j = i / 2;
        (c01::fill((j / per) as usize, syn, &c01::soup(j % per, t)), syn)
    });
    if ctx.thorough() {
        let per3 = c01::count_upto(t, 3);
        let ctxs = [0usize, 1, 2, 3, 4, 8, 11, 12];
        run_strings(ctx, "error-locations.soup3", "every token string of length <= 3 in 8 contexts (top, value, selector, variable, media query, calc, interpolation, pseudo argument), scss", ctxs.len() as u64 * per3, &|i| {
            (c01::fill(ctxs[(i / per3) as usize], Syn::Scss, &c01::soup(i % per3, t)), Syn::Scss)
        });
    }
    let names = c01::all_fn_names();
    {
        let u: &[&str] = UNIVERSE;
        let per = c01::count_upto(u.len() as u64, 2);
        run_strings(ctx, "error-locations.builtins", &format!("every built-in (global + module) x every argument tuple of arity <= 2 over the {}-value universe", u.len()), names.len() as u64 * per, &|i| {
            (format!("{}a{{\n  b: {}({});\n}}", c01::PRE, names[(i / per) as usize], c01::tuple(i % per, u, 2)), Syn::Scss)
        });
    }
    {
        let nu = UNIVERSE.len() as u64;
        // loop heads are left out: a huge bound is an unbounded loop, not a failing input
        let pos: Vec<&str> = c01::POSITIONS.iter().copied().filter(|p| !p.starts_with("@for") && !p.starts_with("@while")).collect();
        run_strings(ctx, "error-locations.positions", &format!("{} syntactic positions x the 40-value universe", pos.len()), pos.len() as u64 * nu, &|i| {
            (pos[(i / nu) as usize].replace('\u{1}', UNIVERSE[(i % nu) as usize]), Syn::Scss)
        });
    }
    {
        let cases = corpus::load();
        let errs: Vec<&corpus::CorpusCase> = cases.iter().filter(|c| c.is_error).collect();
        run_strings(ctx, "error-locations.corpus", "every error!() input of the repository's test corpus", errs.len() as u64, &|i| (errs[i as usize].input.clone(), errs[i as usize].syntax));
        if ctx.thorough() {
            // every single-token deletion of every compiling corpus input that cannot diverge
            // (inputs with @extend are left to C01: one of their neighbours is its listed combinatorial blow-up)
            let ok: Vec<&corpus::CorpusCase> = cases.iter().filter(|c| !c.is_error && !c01::may_diverge_when_edited(&c.input) && c.input.len() < 400 && !c.input.contains("@extend")).collect();
            let mut idx: Vec<(usize, usize)> = Vec::new();
            for (ci, c) in ok.iter().enumerate() {
                for ti in 0..c01::tokenize(&c.input).len() {
                    idx.push((ci, ti));
                }
            }
            run_strings(ctx, "error-locations.corpus-delete1", "every single-token deletion of every compiling corpus input (< 400 bytes, no @while / recursion / @extend)", idx.len() as u64, &|i| {
                let (ci, ti) = idx[i as usize];
                let c = ok[ci];
                let toks = c01::tokenize(&c.input);
                let (a, b2) = toks[ti];
                (format!("{}{}", &c.input[..a], &c.input[b2..]), c.syntax)
            });
        }
    }
    {
        // errors inside text that is lexed a second time after interpolation
        let vals: Vec<String> = {
            let mut v = vec![String::new(), "a".into(), "ab".into(), "a\u{e9}".into(), "\u{1F600}\u{1F600}".into(), "\u{2603} x".into()];
            for n in 1..=6 {
                v.push("\u{e9}".repeat(n));
            }
            v
        };
        let shapes: &[&str] = &[
            "#{$a}[ { b: c }",
            "x#{$a}[ { b: c }",
            "#{$a}#{$a}: { b: c }",
            "a { @extend #{$a}[; }",
            "a { @extend .k#{$a} .j; }",
            "@media #{$a}( { a { b: c } }",
            "@media (min-width: #{$a}) and { a { b: c } }",
            "a:not(#{$a}[) { b: c }",
            "a { &#{$a}( { b: c } }",
            "@supports #{$a}( { a { b: c } }",
            "a { @at-root (#{$a}: ) { b { c: d } } }",
            "@keyframes k { #{$a}%% { a: b } }",
            "a { b: selector-parse(\"#{$a}[\"); }",
            "a { b: selector-nest(\"c\", \"#{$a}((\"); }",
            "a { #{$a} b: { c }: d }",
            "@include #{$a};",
            "a { b: calc(#{$a} +); }",
            "@import url(#{$a};",
        ];
        let pre: &[&str] = &["", "/* \u{e9}\u{e9}\u{e9} */ ", "\n\n"];
        let n = (vals.len() * shapes.len() * pre.len()) as u64;
        run_strings(ctx, "error-locations.relexed", "12 interpolated strings (0-6 two-byte characters, astral, mixed) x 18 positions whose text is parsed again after interpolation, followed by a syntax error x 3 prefixes", n, &|i| {
            let i = i as usize;
            let v = &vals[i % vals.len()];
            let sh = shapes[(i / vals.len()) % shapes.len()];
            let p = pre[i / vals.len() / shapes.len()];
            (format!("$a: \"{}\";\n{}{}\n", v, p, sh), Syn::Scss)
        });
    }
    space_imports(ctx);
    space_at_error(ctx);
    space_logs(ctx);
    space_evaluator_warnings(ctx);
    space_silence(ctx);
    ctx.assume("the message of a repeated @warn (same directive, same text) is delivered once per execution, as the reference implementation does; @debug is delivered on every execution");
    ctx.assume("locations are compared as 0-based (line, column-in-characters) pairs against the text supplied for the named file; a column may sit on the line terminator");
}
