//! C09 — equality is an equivalence consistent with !=, map keys and index().
//! A 62-value universe: all pairs (reflexive, symmetric, != is the negation), all triples
//! (transitive), keyed operations agree with == on every pair, map literals reject exactly the
//! == duplicates; explicit-state BFS over map operations with a reference ordered association
//! list, every transition replayed on the implementation.

use crate::core::*;
use crate::models::css;
use serde_json::json;
use std::collections::{BTreeMap, BTreeSet, VecDeque};

pub const V: &[&str] = &[
    "1", "1.000000000004", "1.000000000008", "1.000000000012", "1.00000000002", "1px", "1in", "96px", "2.54cm", "25.4mm", "72pt", "6pc", "0.999999999996in", "96.0000000004px",
    "1deg", "1s", "1000ms", "0", "-0", "0px", "a", "\"a\"", "\"A\"", "\"\"", "unquote(\"\")", "red", "#f00", "#ff0000", "rgb(255,0,0)", "hsl(0,100%,50%)",
    "rgba(255,0,0,0.5)", "rgba(255,0,0,.5000000000001)", "transparent", "rgba(0,0,0,0)", "(1 2)", "(1, 2)", "[1 2]", "[1, 2]", "(1,)", "[1]", "(1)", "()", "[]",
    "map-remove((a:1),a)", "(a:1)", "(a:1,b:2)", "(b:2,a:1)", "(a:(b:1))", "(\"a\":1)", "null", "true", "false", "calc(1px + 1%)", "calc(1% + 1px)", "get-function(\"abs\")",
    "get-function(\"red\")", "(1 (2 3))", "(1 2 3)", "math.div(1,2)", "0.5", "(1/2)", "1%",
];

fn header() -> String {
    let mut s = String::from("@use \"sass:math\";\n@use \"sass:map\";\n");
    for (i, v) in V.iter().enumerate() {
        s.push_str(&format!("$v{}: {};\n", i, v));
    }
    s
}

fn decl_map(cssout: &str) -> BTreeMap<String, String> {
    css::flatten(&css::parse(cssout).unwrap_or_default()).into_iter().flat_map(|b| b.decls).collect()
}

pub fn run(ctx: &Ctx) {
    // the watchdog's clock also covers the harness's own oracle work (reference models, DOM enumeration);
    // the limit is generous so that machine load cannot turn a slow case into a verdict
    ctx.hang_limit_s.store(600, std::sync::atomic::Ordering::Relaxed);
    let n = V.len();
    // ---- the == / != matrices (one compile per row) --------------------------------------------
    let sub = "pairs";
    let eq: std::sync::Mutex<Vec<Vec<Option<bool>>>> = std::sync::Mutex::new(vec![vec![None; n]; n]);
    par(
        ctx,
        sub,
        n as u64,
        |i| json!({"row": V[i as usize]}),
        |i, l| {
            let i = i as usize;
            let mut src = header();
            src.push_str("a{\n");
            for j in 0..n {
                src.push_str(&format!("e{j}: $v{i} == $v{j}; n{j}: $v{i} != $v{j};\n", i = i, j = j));
            }
            src.push_str("}\n");
            l.evals += 1;
            let o = fresh_thread(|| compile(&src, &Cfg::scss()));
            l.outcome(o.digest());
            let Outcome::Ok(c) = &o else {
                ctx.violation(sub, &format!("eq:row:{}", V[i]), &format!("comparison row failed: {}", o.brief()), json!({"value": V[i]}));
                return;
            };
            let d = decl_map(c);
            let mut row = vec![None; n];
            for j in 0..n {
                let e = d.get(&format!("e{}", j)).map(|x| x == "true");
                let ne = d.get(&format!("n{}", j)).map(|x| x == "true");
                l.validated += 1;
                l.nontrivial += 1;
                row[j] = e;
                if e.is_none() || ne.is_none() {
                    ctx.violation(sub, &format!("eq:unreadable:{}:{}", V[i], V[j]), "unreadable comparison output", json!({}));
                } else if e == ne {
                    ctx.violation(sub, &format!("eq:negation:{} vs {}", V[i], V[j]), &format!("`{} == {}` is {:?} and `!=` is {:?}: != is not the negation of ==", V[i], V[j], e, ne), json!({"a": V[i], "b": V[j]}));
                }
            }
            if row[i] != Some(true) {
                ctx.violation(sub, &format!("eq:reflexive:{}", V[i]), &format!("`{v} == {v}` is not true", v = V[i]), json!({"value": V[i]}));
            }
            eq.lock().unwrap()[i] = row;
        },
    );
    ctx.bound(sub, &format!("all {}^2 ordered pairs of the value universe", n), true);
    ctx.sample(sub, json!({"pair": ["0.999999999996in", "96px"], "checks": "==, !=, reflexivity, symmetry"}));
    let eqm = eq.into_inner().unwrap();
    let e = |i: usize, j: usize| eqm[i][j] == Some(true);

    // symmetry and transitivity on the observed relation
    let sub = "laws";
    if matches!(ctx.mode, Mode::Normal) && ctx.replay_filter.as_ref().map(|f| f.0 == sub).unwrap_or(true) {
        let mut l = Local::default();
        for i in 0..n {
            for j in 0..i {
                l.validated += 1;
                if e(i, j) != e(j, i) {
                    ctx.violation(sub, &format!("eq:symmetry:{} vs {}", V[j], V[i]), &format!("`{a} == {b}` is {x} but `{b} == {a}` is {y}", a = V[i], b = V[j], x = e(i, j), y = e(j, i)), json!({"a": V[i], "b": V[j]}));
                }
            }
        }
        let mut triples = 0u64;
        for i in 0..n {
            for j in 0..n {
                if !e(i, j) {
                    triples += n as u64;
                    continue;
                }
                for k in 0..n {
                    triples += 1;
                    if e(j, k) && !e(i, k) {
                        ctx.violation(sub, &format!("eq:transitive:{} , {} , {}", V[i], V[j], V[k]), &format!("`{a} == {b}` and `{b} == {c}` but not `{a} == {c}`", a = V[i], b = V[j], c = V[k]), json!({"a": V[i], "b": V[j], "c": V[k]}));
                    }
                }
            }
        }
        l.validated += triples;
        l.nontrivial += triples;
        l.evals = 1;
        ctx.merge(sub, l);
        ctx.space_done(sub, (n * n * n) as u64);
        ctx.bound(sub, &format!("symmetry on all pairs, transitivity on all {}^3 triples of the observed relation", n), true);
        ctx.sample(sub, json!({"triple": ["1", "1.000000000008", "1.000000000012"]}));
    }

    // ---- keyed operations agree with == -------------------------------------------------------
    let sub = "keyed-ops";
    par(
        ctx,
        sub,
        n as u64,
        |i| json!({"key": V[i as usize]}),
        |i, l| {
            let i = i as usize;
            let mut src = header();
            src.push_str("a{\n");
            for j in 0..n {
                src.push_str(&format!(
                    "h{j}: map-has-key(($v{i}: x), $v{j}); g{j}: map-get(($v{i}: x), $v{j}) == x; r{j}: length(map-remove(($v{i}: x), $v{j})) == 0; i{j}: index(($v{i},), $v{j}) == 1; m{j}: length(map-merge(($v{i}: x), ($v{j}: y))) == 1; s{j}: length(map.set(($v{i}: x), $v{j}, y)) == 1; d{j}: length(map.deep-remove(($v{i}: x), $v{j})) == 0; k{j}: index(map-keys(($v{i}: x)), $v{j}) == 1;\n",
                    i = i, j = j
                ));
            }
            src.push_str("}\n");
            l.evals += 1;
            let o = fresh_thread(|| compile(&src, &Cfg::scss()));
            l.outcome(o.digest());
            let Outcome::Ok(c) = &o else {
                ctx.violation(sub, &format!("keyed:row:{}", V[i]), &format!("keyed-operation row failed: {}", o.brief()), json!({"value": V[i]}));
                return;
            };
            let d = decl_map(c);
            for j in 0..n {
                for (tag, name) in [("h", "map-has-key"), ("g", "map-get"), ("r", "map-remove"), ("i", "index"), ("m", "map-merge"), ("s", "map.set"), ("d", "map.deep-remove"), ("k", "index(map-keys)")] {
                    let got = d.get(&format!("{}{}", tag, j)).map(|x| x == "true");
                    l.validated += 1;
                    l.nontrivial += 1;
                    if got != Some(e(i, j)) {
                        ctx.violation(sub, &format!("keyed:{}:{} vs {}", name, V[i], V[j]), &format!("{} with key `{}` and probe `{}` finds an entry: {:?}, but `==` says {}", name, V[i], V[j], got, e(i, j)), json!({"key": V[i], "probe": V[j], "operation": name}));
                    }
                }
            }
        },
    );
    ctx.bound(sub, "8 keyed operations on every ordered (key, probe) pair, compared with the observed == relation", true);
    ctx.sample(sub, json!({"input": "map-has-key((1in: x), 96px)"}));

    // ---- map literals reject exactly the == duplicates -----------------------------------------
    let sub = "literal-duplicates";
    par(
        ctx,
        sub,
        (n * n) as u64,
        |i| json!({"k1": V[i as usize / n], "k2": V[i as usize % n]}),
        |i, l| {
            let (a, b) = (i as usize / n, i as usize % n);
            let src = format!("@use \"sass:math\";\n$m: ({}: 1, {}: 2);\na{{b: length($m)}}", V[a], V[b]);
            l.evals += 1;
            let o = compile(&src, &Cfg::scss());
            l.outcome(o.digest());
            l.validated += 1;
            l.nontrivial += 1;
            let rejected = o.is_err();
            if let Outcome::Panic(p) = &o {
                ctx.violation(sub, &format!("literal:{} , {}", V[a], V[b]), &format!("panic: {}", p), json!({"input": src}));
            } else if rejected != e(a, b) {
                ctx.violation(sub, &format!("literal:{} , {}", V[a], V[b]), &format!("map literal ({}: 1, {}: 2) is {} although `==` is {}", V[a], V[b], if rejected { "rejected" } else { "accepted" }, e(a, b)), json!({"input": src, "result": o.brief()}));
            }
        },
    );
    ctx.bound(sub, "map literal with every ordered pair of keys: rejected iff the keys are ==", true);
    ctx.sample(sub, json!({"input": "$m: (1in: 1, 96px: 2);", "expected": "Duplicate key error"}));

    // ---- BFS over map operations ------------------------------------------------------------------
    let sub = "map-ops-bfs";
    if matches!(ctx.mode, Mode::Normal) && ctx.replay_filter.as_ref().map(|f| f.0 == sub).unwrap_or(true) {
        // keys: (spelling, equality class)
        let keys: Vec<(&str, usize)> = vec![("a", 0), ("\"a\"", 0), ("1in", 1), ("96px", 1), ("b", 2), ("2.54cm", 1)];
        #[derive(Clone, Debug)]
        enum Op {
            Merge(usize),
            Merge2(usize, usize),
            Remove(usize),
            Set(usize),
            DeepMerge(usize),
            DeepRemove(usize),
            Remove2(usize, usize),
        }
        let mut ops: Vec<Op> = Vec::new();
        for k in 0..keys.len() {
            ops.push(Op::Merge(k));
            ops.push(Op::Remove(k));
            ops.push(Op::Set(k));
            ops.push(Op::DeepMerge(k));
            ops.push(Op::DeepRemove(k));
        }
        for a in 0..keys.len() {
            for b in 0..keys.len() {
                if keys[a].1 != keys[b].1 {
                    ops.push(Op::Merge2(a, b));
                    ops.push(Op::Remove2(a, b));
                }
            }
        }
        // reference: ordered association list of (class, value)
        type St = Vec<(usize, u32)>;
        let apply = |st: &St, op: &Op, step: u32| -> St {
            let mut s = st.clone();
            let put = |s: &mut St, cls: usize, v: u32| {
                if let Some(e) = s.iter_mut().find(|e| e.0 == cls) {
                    e.1 = v;
                } else {
                    s.push((cls, v));
                }
            };
            match op {
                Op::Merge(k) | Op::Set(k) | Op::DeepMerge(k) => put(&mut s, keys[*k].1, step * 10),
                Op::Merge2(a, b) => {
                    put(&mut s, keys[*a].1, step * 10);
                    put(&mut s, keys[*b].1, step * 10 + 1);
                }
                Op::Remove(k) | Op::DeepRemove(k) => s.retain(|e| e.0 != keys[*k].1),
                Op::Remove2(a, b) => s.retain(|e| e.0 != keys[*a].1 && e.0 != keys[*b].1),
            }
            s
        };
        let sass_of = |op: &Op, step: u32| -> String {
            match op {
                Op::Merge(k) => format!("$m: map-merge($m, ({}: {}));", keys[*k].0, step * 10),
                Op::Set(k) => format!("$m: map.set($m, {}, {});", keys[*k].0, step * 10),
                Op::DeepMerge(k) => format!("$m: map.deep-merge($m, ({}: {}));", keys[*k].0, step * 10),
                Op::Merge2(a, b) => format!("$m: map-merge($m, ({}: {}, {}: {}));", keys[*a].0, step * 10, keys[*b].0, step * 10 + 1),
                Op::Remove(k) => format!("$m: map-remove($m, {});", keys[*k].0),
                Op::DeepRemove(k) => format!("$m: map.deep-remove($m, {});", keys[*k].0),
                Op::Remove2(a, b) => format!("$m: map-remove($m, {}, {});", keys[*a].0, keys[*b].0),
            }
        };
        let canon = |st: &St| -> Vec<usize> { st.iter().map(|e| e.0).collect() };
        // BFS over canonical states (order of classes); every transition is replayed from the empty map
        let mut seen: BTreeSet<Vec<usize>> = BTreeSet::new();
        let mut frontier: VecDeque<(Vec<usize>, usize)> = VecDeque::new(); // path of op indices
        let mut paths: Vec<Vec<usize>> = Vec::new();
        seen.insert(vec![]);
        frontier.push_back((vec![], 0));
        let maxdepth = ctx.pick(4, 6);
        let mut transitions: Vec<Vec<usize>> = Vec::new();
        while let Some((path, depth)) = frontier.pop_front() {
            if depth >= maxdepth {
                continue;
            }
            // state reached by path
            let mut st: St = vec![];
            for (k, oi) in path.iter().enumerate() {
                st = apply(&st, &ops[*oi], k as u32 + 1);
            }
            for oi in 0..ops.len() {
                let mut p2 = path.clone();
                p2.push(oi);
                transitions.push(p2.clone());
                let st2 = apply(&st, &ops[oi], p2.len() as u32);
                if seen.insert(canon(&st2)) {
                    frontier.push_back((p2.clone(), depth + 1));
                    paths.push(p2);
                }
            }
        }
        let nstates = seen.len();
        par(
            ctx,
            sub,
            transitions.len() as u64,
            |i| json!({"ops": transitions[i as usize].iter().enumerate().map(|(k, oi)| sass_of(&ops[*oi], k as u32 + 1)).collect::<Vec<_>>()}),
            |i, l| {
                let path = &transitions[i as usize];
                let mut st: St = vec![];
                let mut src = String::from("@use \"sass:map\";\n$m: ();\n");
                for (k, oi) in path.iter().enumerate() {
                    let step = k as u32 + 1;
                    st = apply(&st, &ops[*oi], step);
                    src.push_str(&sass_of(&ops[*oi], step));
                    src.push('\n');
                    // observe after every step
                    src.push_str(&format!("s{s} {{ vals: inspect(map-values($m)); len: length($m); each: ", s = step));
                    src.push_str("#{'[' + _each($m) + ']'}; ");
                    for (ki, (sp, _)) in keys.iter().enumerate() {
                        src.push_str(&format!("g{}: inspect(map-get($m, {})); h{}: map-has-key($m, {}); ", ki, sp, ki, sp));
                    }
                    src.push_str("}\n");
                }
                let src = src.replacen("$m: ();\n", "@function _each($m) { $s: ''; @each $k, $v in $m { $s: $s + ' ' + $v; } @return $s; }\n$m: ();\n", 1);
                l.evals += 1;
                let o = compile(&src, &Cfg::scss());
                l.outcome(o.digest());
                l.validated += 1;
                l.nontrivial += 1;
                let Outcome::Ok(c) = &o else {
                    ctx.violation(sub, &format!("mapops:{}", path.iter().map(|x| x.to_string()).collect::<Vec<_>>().join(",")), &format!("map-operation sequence failed: {}", o.brief()), json!({"program": src}));
                    return;
                };
                // re-simulate and compare every step
                let blocks = css::flatten(&css::parse(c).unwrap_or_default());
                let mut st2: St = vec![];
                for (k, oi) in path.iter().enumerate() {
                    let step = k as u32 + 1;
                    st2 = apply(&st2, &ops[*oi], step);
                    let b = blocks.iter().find(|b| b.selector == format!("s{}", step));
                    let get = |p: &str| b.and_then(|b| b.decls.iter().find(|d| d.0 == p)).map(|d| d.1.clone()).unwrap_or_default();
                    let want_vals: Vec<String> = st2.iter().map(|e| e.1.to_string()).collect();
                    let vals_text = get("vals");
                    let got_vals: Vec<String> = vals_text.trim_matches(|c| c == '(' || c == ')').split(',').map(|x| x.trim().to_string()).filter(|x| !x.is_empty()).collect();
                    let each_text = get("each");
                    let got_each: Vec<String> = each_text.trim_matches(|c| c == '[' || c == ']').split_whitespace().map(|x| x.to_string()).collect();
                    let mut bad = Vec::new();
                    if got_vals != want_vals {
                        bad.push(format!("map-values = {:?}, reference {:?}", got_vals, want_vals));
                    }
                    if got_each != want_vals {
                        bad.push(format!("@each order = {:?}, reference {:?}", got_each, want_vals));
                    }
                    if get("len") != st2.len().to_string() {
                        bad.push(format!("length = {}, reference {}", get("len"), st2.len()));
                    }
                    for (ki, (_, cls)) in keys.iter().enumerate() {
                        let want = st2.iter().find(|e| e.0 == *cls).map(|e| e.1.to_string()).unwrap_or_else(|| "null".into());
                        if get(&format!("g{}", ki)) != want {
                            bad.push(format!("map-get({}) = {}, reference {}", keys[ki].0, get(&format!("g{}", ki)), want));
                        }
                        if get(&format!("h{}", ki)) != (want != "null").to_string() {
                            bad.push(format!("map-has-key({}) = {}", keys[ki].0, get(&format!("h{}", ki))));
                        }
                    }
                    if !bad.is_empty() {
                        ctx.violation(
                            sub,
                            &format!("mapops:{}:step{}", path.iter().map(|x| x.to_string()).collect::<Vec<_>>().join(","), step),
                            &format!("after `{}`: {}", sass_of(&ops[*oi], step), bad.join("; ")),
                            json!({"program": src, "output": c}),
                        );
                        break;
                    }
                }
                let _ = st;
            },
        );
        ctx.add(sub, "canonical_states", nstates as u64);
        ctx.add(sub, "operations", ops.len() as u64);
        ctx.add(sub, "bfs_max_depth", maxdepth as u64);
        ctx.bound(sub, &format!("breadth-first search to depth {} over {} map operations on 6 key spellings in 3 equality classes; canonical state = order of classes; every transition replayed from the empty map with all observations after every step", maxdepth, ops.len()), true);
        ctx.sample(sub, json!({"ops": ["$m: map-merge($m, (1in: 10));", "$m: map.set($m, 96px, 20);", "$m: map-remove($m, 2.54cm);"]}));
    }
    ctx.assume("the universe is the representative set of the property's quantifier; equality classes of the BFS keys are taken from the CSS unit ratios and Sass string equality");
}
