//! C17 — nested @media queries merge to their logical intersection.
//!
//! Alphabet: 63 queries = {no type, all, screen, print} x {-, not, only} x subsets of
//! {(a),(b),(c)} minus modifiers on `all` and the empty type-less query.
//! Bound: quick = all ordered pairs; thorough = + all ordered triples + (list of 2) x single in
//! both nesting orders. Oracle: truth-table evaluation over 24 media environments.

use crate::core::*;
use crate::models::css::{self, Node};
use serde_json::json;

#[derive(Clone, Debug, PartialEq, Eq)]
pub struct Q {
    pub modifier: Option<&'static str>,
    pub ty: Option<&'static str>,
    pub feats: Vec<&'static str>,
    /// features joined by `or` instead of `and` (type-less level-4 query)
    pub or: bool,
}

const FEATS: [&str; 3] = ["(a)", "(b)", "(c)"];

fn subsets() -> Vec<Vec<&'static str>> {
    (0..8u32)
        .map(|m| (0..3).filter(|i| m & (1 << i) != 0).map(|i| FEATS[i]).collect())
        .collect()
}

pub fn alphabet() -> Vec<Q> {
    let mut v = Vec::new();
    for f in subsets() {
        if !f.is_empty() {
            v.push(Q { modifier: None, ty: None, feats: f, or: false });
        }
    }
    for f in subsets() {
        v.push(Q { modifier: None, ty: Some("all"), feats: f, or: false });
    }
    for t in ["screen", "print"] {
        for m in [None, Some("not"), Some("only")] {
            for f in subsets() {
                v.push(Q { modifier: m, ty: Some(t), feats: f, or: false });
            }
        }
    }
    assert_eq!(v.len(), 63);
    v
}

pub fn text(q: &Q) -> String {
    let mut parts: Vec<String> = Vec::new();
    let head: Vec<&str> = [q.modifier, q.ty].iter().flatten().copied().collect();
    if !head.is_empty() {
        parts.push(head.join(" "));
    }
    for f in &q.feats {
        parts.push(f.to_string());
    }
    parts.join(if q.or { " or " } else { " and " })
}

/// environment: (type index 0..3 = screen, print, tv; feature truth bits)
fn eval_parsed(modifier: Option<&str>, ty: Option<&str>, feats: &[String], env: (usize, u32)) -> Option<bool> {
    let tyname = ["screen", "print", "tv"][env.0];
    let mut base = match ty {
        None => true,
        Some(t) if t.eq_ignore_ascii_case("all") => true,
        Some(t) => t.eq_ignore_ascii_case(tyname),
    };
    for f in feats {
        // `(not (a))`: a negated condition
        if let Some(inner) = f.strip_prefix("(not ").and_then(|r| r.strip_suffix(')')) {
            let idx = FEATS.iter().position(|x| *x == inner.trim())?;
            base = base && (env.1 & (1 << idx) == 0);
            continue;
        }
        let idx = FEATS.iter().position(|x| x == f)?;
        base = base && (env.1 & (1 << idx) != 0);
    }
    Some(match modifier {
        Some(m) if m.eq_ignore_ascii_case("not") => !base,
        _ => base,
    })
}

fn eval_q(q: &Q, env: (usize, u32)) -> bool {
    if q.or {
        return q.feats.iter().any(|f| env.1 & (1 << FEATS.iter().position(|x| x == f).unwrap()) != 0);
    }
    let feats: Vec<String> = q.feats.iter().map(|s| s.to_string()).collect();
    eval_parsed(q.modifier, q.ty, &feats, env).unwrap()
}

/// Independent reader of one emitted media query.
fn parse_query(s: &str) -> Option<(Option<String>, Option<String>, Vec<String>)> {
    let toks: Vec<&str> = s.trim().split(" and ").map(|t| t.trim()).collect();
    if toks.is_empty() || toks[0].is_empty() {
        return None;
    }
    if toks[0].starts_with('(') {
        return Some((None, None, toks.iter().map(|t| t.to_string()).collect()));
    }
    if let Some(rest) = toks[0].strip_prefix("not (") {
        // `not (a)` is the short form of `(not (a))`; it cannot be followed by `and`
        if toks.len() != 1 {
            return None;
        }
        return Some((None, None, vec![format!("(not ({})", rest)]));
    }
    let first: Vec<&str> = toks[0].split_whitespace().collect();
    let (m, t) = match first.len() {
        1 => (None, first[0].to_string()),
        2 => (Some(first[0].to_string()), first[1].to_string()),
        _ => return None,
    };
    if let Some(m) = &m {
        if !(m.eq_ignore_ascii_case("not") || m.eq_ignore_ascii_case("only")) {
            return None;
        }
    }
    let mut feats = Vec::new();
    for f in &toks[1..] {
        if let Some(rest) = f.strip_prefix("not (") {
            // `screen and not (a)`: short form of a single negated condition after the type
            if toks.len() != 2 {
                return None;
            }
            feats.push(format!("(not ({})", rest));
        } else if f.starts_with('(') {
            feats.push(f.to_string());
        } else {
            return None;
        }
    }
    Some((m, Some(t), feats))
}

fn eval_list(text: &str, env: (usize, u32)) -> Option<bool> {
    let mut any = false;
    for q in css::split_top(text, ',') {
        if q.contains(" or ") {
            // `(a) or (b)`: features only, no `and`
            if q.contains(" and ") {
                return None;
            }
            let mut t = false;
            for f in q.split(" or ") {
                let idx = FEATS.iter().position(|x| *x == f.trim())?;
                t = t || (env.1 & (1 << idx) != 0);
            }
            any = any || t;
            continue;
        }
        let (m, t, f) = parse_query(&q)?;
        any = any || eval_parsed(m.as_deref(), t.as_deref(), &f, env)?;
    }
    Some(any)
}

/// All chains of @media preludes that lead to a `x: y` declaration in the output.
fn chains(nodes: &[Node], stack: &mut Vec<String>, out: &mut Vec<Vec<String>>) {
    for n in nodes {
        match n {
            Node::At { name, prelude, children: Some(ch) } if name == "media" => {
                stack.push(prelude.clone());
                chains(ch, stack, out);
                stack.pop();
            }
            Node::At { children: Some(ch), .. } => chains(ch, stack, out),
            Node::Rule { children, .. } => chains(children, stack, out),
            Node::Decl { prop, .. } if prop == "x" => out.push(stack.clone()),
            _ => {}
        }
    }
}

fn envs() -> Vec<(usize, u32)> {
    let mut v = Vec::new();
    for t in 0..3 {
        for b in 0..8 {
            v.push((t, b));
        }
    }
    v
}

fn both_not_same(a: &Q, b: &Q) -> bool {
    a.modifier == Some("not") && b.modifier == Some("not") && a.ty == b.ty
}

/// levels: each level is a list of queries (a media query list).
fn check_case(ctx: &Ctx, sub: &str, levels: &[Vec<&Q>], l: &mut Local) {
    let mut src = String::new();
    for (d, lv) in levels.iter().enumerate() {
        let t: Vec<String> = lv.iter().map(|q| text(q)).collect();
        src.push_str(&format!("@media {} {{ ", t.join(", ")));
        if d == 0 {
            src.push_str(".p { ");
        }
    }
    src.push_str("x: y ");
    for _ in 0..levels.len() {
        src.push_str("} ");
    }
    src.push('}');
    l.evals += 1;
    let out = compile(&src, &Cfg::scss());
    l.outcome(out.digest());
    let css_text = match &out {
        Outcome::Ok(s) => s.clone(),
        o => {
            ctx.violation(sub, &format!("media:{}", src), &format!("nested @media did not compile: {}", o.brief()), json!({"input": src, "observed": o.brief()}));
            return;
        }
    };
    let tree = match css::parse(&css_text) {
        Ok(t) => t,
        Err(e) => {
            ctx.violation(sub, &format!("media:{}", src), &format!("output not readable: {}", e.0), json!({"input": src, "output": css_text}));
            return;
        }
    };
    let mut ch = Vec::new();
    chains(&tree, &mut Vec::new(), &mut ch);
    let mut want_any = false;
    let mut bad: Option<((usize, u32), bool, bool)> = None;
    for env in envs() {
        let want = levels.iter().all(|lv| lv.iter().any(|q| eval_q(q, env)));
        want_any |= want;
        let mut got = false;
        for c in &ch {
            let mut all = true;
            for pre in c {
                match eval_list(pre, env) {
                    Some(b) => all = all && b,
                    None => {
                        ctx.violation(sub, &format!("media:{}", src), &format!("emitted query not in the alphabet's shape: {:?}", pre), json!({"input": src, "output": css_text}));
                        return;
                    }
                }
            }
            got = got || all;
        }
        if got != want && bad.is_none() {
            bad = Some((env, want, got));
        }
    }
    l.validated += 1;
    if want_any {
        l.nontrivial += 1;
    } else {
        l.count("empty_intersections", 1);
        if !ch.is_empty() {
            // property: if the intersection is empty the inner rule is dropped
            if bad.is_none() {
                l.count("unsat_but_kept_nested", 1);
            }
        }
    }
    if ch.len() == 1 && ch[0].len() == 1 {
        l.count("merged_to_one_query_list", 1);
    } else if ch.is_empty() {
        l.count("dropped", 1);
    } else {
        l.count("kept_nested", 1);
    }
    if let Some((env, want, got)) = bad {
        let tyname = ["screen", "print", "tv"][env.0];
        // one root cause, one key: a merged rule is hoisted out of every enclosing @media whose queries all
        // occur, as text, among the queries it was merged from -- also out of an outer @media it was never
        // merged with, when that one merely repeats a query that occurs further in
        let inner_texts: Vec<String> = levels.iter().skip(1).flat_map(|lv| lv.iter().map(|q| text(q))).collect();
        let repeated_outer = levels.len() == 3 && levels[0].iter().all(|q| inner_texts.contains(&text(q)));
        ctx.violation(
            sub,
            &if repeated_outer { "media:three-levels:outer-queries-repeated-inside:hoisted".to_string() } else { format!("media:{}", src) },
            &format!(
                "merged query is not the intersection: in environment type={} a={} b={} c={} source is {} but output is {}",
                tyname, env.1 & 1 != 0, env.1 & 2 != 0, env.1 & 4 != 0, want, got
            ),
            json!({"input": src, "output": css_text, "env": {"type": tyname, "a": env.1&1!=0, "b": env.1&2!=0, "c": env.1&4!=0}, "expected_applies": want, "observed_applies": got}),
        );
    }
}

pub fn run(ctx: &Ctx) {
    // the watchdog's clock also covers the harness's own oracle work (reference models, DOM enumeration);
    // the limit is generous so that machine load cannot turn a slow case into a verdict
    ctx.hang_limit_s.store(300, std::sync::atomic::Ordering::Relaxed);
    let qs = alphabet();
    let n = qs.len() as u64;
    // pairs
    {
        let sub = "pairs";
        par(
            ctx,
            sub,
            n * n,
            |i| json!({"outer": text(&qs[(i / n) as usize]), "inner": text(&qs[(i % n) as usize])}),
            |i, l| {
                let (a, b) = (&qs[(i / n) as usize], &qs[(i % n) as usize]);
                if both_not_same(a, b) {
                    l.count("excluded_both_negated_same_type", 1);
                    return;
                }
                check_case(ctx, sub, &[vec![a], vec![b]], l);
            },
        );
        ctx.bound(sub, "all ordered pairs of the 63-query alphabet, 24 environments each", true);
        ctx.sample(sub, json!({"input": "@media not screen and (a) { .p { @media screen and (b) { x: y } } }"}));
    }
    {
        // level-4 `or` queries: every `(x) or (y)` against every query of the alphabet, both nesting orders,
        // and against each other
        let sub = "or-queries";
        let ors: Vec<Q> = vec![
            Q { modifier: None, ty: None, feats: vec!["(a)", "(b)"], or: true },
            Q { modifier: None, ty: None, feats: vec!["(b)", "(c)"], or: true },
            Q { modifier: None, ty: None, feats: vec!["(a)", "(b)", "(c)"], or: true },
        ];
        let no = ors.len() as u64;
        par(
            ctx,
            sub,
            no * (n + no) * 2,
            |i| json!({"index": i}),
            |i, l| {
                let o = &ors[(i % no) as usize];
                let j = (i / no) % (n + no);
                let other = if j < n { &qs[j as usize] } else { &ors[(j - n) as usize] };
                if (i / no) / (n + no) == 0 {
                    check_case(ctx, sub, &[vec![o], vec![other]], l);
                } else {
                    check_case(ctx, sub, &[vec![other], vec![o]], l);
                }
            },
        );
        ctx.bound(sub, "3 `(x) or (y)` queries x (the 63-query alphabet + the or-queries) x both nesting orders", true);
        ctx.sample(sub, json!({"input": "@media (a) or (b) { .p { @media (c) { x: y } } }"}));
    }
    {
        // negated conditions (`(not (a))`, printed `not (a)` when alone) against every query, both orders
        let sub = "negated-conditions";
        let negs: Vec<Q> = vec![
            Q { modifier: None, ty: None, feats: vec!["(not (a))"], or: false },
            Q { modifier: None, ty: None, feats: vec!["(not (a))", "(b)"], or: false },
            Q { modifier: None, ty: None, feats: vec!["(c)", "(not (b))"], or: false },
            Q { modifier: None, ty: Some("screen"), feats: vec!["(not (a))"], or: false },
        ];
        let nn = negs.len() as u64;
        par(
            ctx,
            sub,
            nn * (n + nn) * 2,
            |i| json!({"index": i}),
            |i, l| {
                let o = &negs[(i % nn) as usize];
                let j = (i / nn) % (n + nn);
                let other = if j < n { &qs[j as usize] } else { &negs[(j - n) as usize] };
                if (i / nn) / (n + nn) == 0 {
                    check_case(ctx, sub, &[vec![o], vec![other]], l);
                } else {
                    check_case(ctx, sub, &[vec![other], vec![o]], l);
                }
            },
        );
        ctx.bound(sub, "4 queries with a negated condition x (the 63-query alphabet + themselves) x both nesting orders", true);
        ctx.sample(sub, json!({"input": "@media (not (a)) { .p { @media (b) { x: y } } }"}));
    }
    {
        // three levels with lists at the two outer levels over a 6-query sub-alphabet
        let sub = "list-list-single";
        let small: Vec<usize> = qs
            .iter()
            .enumerate()
            .filter(|(_, q)| matches!(text(q).as_str(), "not screen" | "(a)" | "(b)" | "(c)" | "screen" | "print and (a)" | "not print and (b)"))
            .map(|x| x.0)
            .collect();
        let m = small.len() as u64;
        par(
            ctx,
            sub,
            m * m * m * m * m,
            |i| json!({"index": i}),
            |i, l| {
                let pick = |k: u32| &qs[small[((i / m.pow(k)) % m) as usize]];
                let (a, b, c, d, e) = (pick(0), pick(1), pick(2), pick(3), pick(4));
                for x in [a, b] {
                    for y in [c, d] {
                        if both_not_same(x, y) || both_not_same(x, e) || both_not_same(y, e) {
                            l.count("excluded_both_negated_same_type", 1);
                            return;
                        }
                    }
                }
                check_case(ctx, sub, &[vec![a, b], vec![c, d], vec![e]], l);
            },
        );
        ctx.bound(sub, "all (list of 2) > (list of 2) > single nestings over a 7-query sub-alphabet (not screen, screen, (a), (b), (c), print and (a), not print and (b))", true);
        ctx.sample(sub, json!({"input": "@media not screen, (a) { .p { @media (a), (b) { @media (c) { x: y } } } }"}));
    }
    if ctx.quick() {
        // comma lists: every pair over a 16-query sub-alphabet (every 4th query) x every single query
        let small: Vec<usize> = (0..qs.len()).step_by(4).collect();
        let m = small.len() as u64;
        for (sub, list_outer) in [("list2_outer.small", true), ("list2_inner.small", false)] {
            par(
                ctx,
                sub,
                m * m * n,
                |i| json!({"list": [text(&qs[small[(i / (m * n)) as usize]]), text(&qs[small[((i / n) % m) as usize]])], "single": text(&qs[(i % n) as usize])}),
                |i, l| {
                    let (a, b, c) = (&qs[small[(i / (m * n)) as usize]], &qs[small[((i / n) % m) as usize]], &qs[(i % n) as usize]);
                    if both_not_same(a, c) || both_not_same(b, c) {
                        l.count("excluded_both_negated_same_type", 1);
                        return;
                    }
                    if list_outer {
                        check_case(ctx, sub, &[vec![a, b], vec![c]], l);
                    } else {
                        check_case(ctx, sub, &[vec![c], vec![a, b]], l);
                    }
                },
            );
            ctx.bound(sub, "all (list of 2 queries over a 16-query sub-alphabet) x (single query of the 63-query alphabet)", true);
            ctx.sample(sub, json!({"input": "@media screen { .p { @media print, screen { x: y } } }"}));
        }
    }
    if ctx.thorough() {
        let sub = "triples";
        par(
            ctx,
            sub,
            n * n * n,
            |i| json!({"l1": text(&qs[(i / (n * n)) as usize]), "l2": text(&qs[((i / n) % n) as usize]), "l3": text(&qs[(i % n) as usize])}),
            |i, l| {
                let (a, b, c) = (&qs[(i / (n * n)) as usize], &qs[((i / n) % n) as usize], &qs[(i % n) as usize]);
                if both_not_same(a, b) || both_not_same(b, c) || both_not_same(a, c) {
                    l.count("excluded_both_negated_same_type", 1);
                    return;
                }
                check_case(ctx, sub, &[vec![a], vec![b], vec![c]], l);
            },
        );
        ctx.bound(sub, "all ordered triples (3 nesting levels)", true);
        ctx.sample(sub, json!({"input": "@media screen { .p { @media (a) { @media only screen and (b) { x: y } } } }"}));
        for (sub, list_outer) in [("list2_outer", true), ("list2_inner", false)] {
            par(
                ctx,
                sub,
                n * n * n,
                |i| json!({"list": [text(&qs[(i / (n * n)) as usize]), text(&qs[((i / n) % n) as usize])], "single": text(&qs[(i % n) as usize])}),
                |i, l| {
                    let (a, b, c) = (&qs[(i / (n * n)) as usize], &qs[((i / n) % n) as usize], &qs[(i % n) as usize]);
                    if both_not_same(a, c) || both_not_same(b, c) {
                        l.count("excluded_both_negated_same_type", 1);
                        return;
                    }
                    if list_outer {
                        check_case(ctx, sub, &[vec![a, b], vec![c]], l);
                    } else {
                        check_case(ctx, sub, &[vec![c], vec![a, b]], l);
                    }
                },
            );
            ctx.bound(sub, "all (list of 2 queries) x (single query)", true);
            ctx.sample(sub, json!({"input": "@media screen, print and (a) { .p { @media not print { x: y } } }"}));
        }
    }
    ctx.assume("media environments: type in {screen, print, tv} x truth of 3 opaque features (24); `only` is semantically transparent; features are independent booleans");
}
