//! C14 — list, map and string built-ins implement their documented semantics.
//! Every function x every argument tuple over small universes of lists (length 0-4 (6), every
//! separator/bracket shape), indices -8..8 and non-integers, maps with one nested level,
//! strings over ASCII / combining / astral code points, wrongly typed arguments; reference
//! implementations written from the documentation; module functions == global aliases.

use crate::core::*;
use crate::models::sassval::*;
use serde_json::json;

struct Call {
    text: String,
    /// module-qualified spelling of the same call, if any
    module_text: Option<String>,
    expect: Option<String>, // inspect() text, None = error
    func: &'static str,
}

fn lists(maxlen: usize) -> Vec<Val> {
    let elems = [s("a"), s("b"), s("c"), s("a"), s("b"), s("c")];
    let mut v = vec![s("a"), Val::List(vec![], Sep::Undecided, false), Val::List(vec![], Sep::Undecided, true)];
    for len in 1..=maxlen {
        for sep in [Sep::Space, Sep::Comma, Sep::Slash] {
            for br in [false, true] {
                if len == 1 && sep == Sep::Space && !br {
                    continue; // (a) is just a
                }
                if sep == Sep::Slash && (len == 1 || br) {
                    continue; // list.slash() needs two elements and cannot make a bracketed list
                }
                let sp = if len == 1 && sep == Sep::Space { Sep::Undecided } else { sep.clone() };
                v.push(Val::List(elems[..len].to_vec(), sp, br));
            }
        }
    }
    v.push(Val::List(vec![Val::List(vec![s("a"), s("b")], Sep::Space, false), s("c")], Sep::Comma, false));
    v.push(Val::List(vec![Val::List(vec![s("a"), s("b")], Sep::Comma, false), s("c")], Sep::Space, false));
    v.push(Val::Map(vec![(s("k"), n(1.0)), (s("l"), n(2.0))]));
    v
}

fn maps() -> Vec<Val> {
    let inner = Val::Map(vec![(s("x"), n(1.0)), (s("y"), n(2.0))]);
    let inner2 = Val::Map(vec![(s("x"), n(9.0)), (s("z"), Val::Map(vec![(s("w"), n(7.0))]))]);
    vec![
        Val::Map(vec![]),
        Val::Map(vec![(s("a"), n(1.0))]),
        Val::Map(vec![(s("a"), n(1.0)), (s("b"), n(2.0)), (s("c"), n(3.0))]),
        Val::Map(vec![(s("a"), inner.clone()), (s("b"), n(2.0))]),
        Val::Map(vec![(s("b"), n(5.0)), (s("a"), inner2.clone())]),
        Val::Map(vec![(s("a"), Val::Map(vec![]))]),
        Val::Map(vec![(q("a"), n(4.0)), (n(1.0), s("one")), (Val::Null, s("nil"))]),
        Val::Map(vec![(s("a"), Val::Map(vec![(s("x"), Val::Map(vec![(s("p"), n(1.0)), (s("q"), n(2.0))]))]))]),
        Val::Map(vec![(s("a"), Val::Map(vec![(s("x"), Val::Map(vec![(s("q"), n(3.0)), (s("r"), n(4.0))])), (s("y"), n(0.0))]))]),
        // the same key names at several levels, map-valued keys next to scalar ones
        Val::Map(vec![(s("b"), Val::Map(vec![(s("x"), n(5.0)), (s("b"), Val::Map(vec![(s("x"), n(6.0))]))])), (s("a"), n(1.0))]),
        Val::Map(vec![(s("x"), Val::Map(vec![(s("a"), Val::Map(vec![(s("x"), n(8.0))]))])), (s("zz"), n(0.0))]),
    ]
}

fn strings() -> Vec<Val> {
    let mut v = Vec::new();
    for t in ["", "a", "ab", "a\u{e9}", "\u{e9}\u{1F600}b", "a\u{1F600}", "abcd", "e\u{301}x", "aBc", "a,b,,c", "\u{1F46D}bcd"] {
        for quoted in [true, false] {
            if t.is_empty() && !quoted {
                continue;
            }
            if !quoted && t.contains(',') {
                continue;
            }
            v.push(Val::Str(t.to_string(), quoted));
        }
    }
    v
}

fn exp(r: R) -> Option<String> {
    r.ok().map(|v| v.inspect())
}

fn calls(ctx: &Ctx) -> Vec<Call> {
    let mut c: Vec<Call> = Vec::new();
    let ls = lists(ctx.pick(4, 6));
    let irange: i64 = 8;
    let mut idxs: Vec<Val> = (-irange..=irange).map(|x| n(x as f64)).collect();
    idxs.push(n(0.5));
    idxs.push(n(1.0000000000001));
    idxs.push(n(2.9999999999999996));
    idxs.push(n(1.5));
    let wrong = [s("x"), Val::Null, Val::Bool(true), q("1"), Val::List(vec![n(1.0), n(2.0)], Sep::Space, false)];
    let z = s("z");
    let mut push = |text: String, module: Option<String>, e: Option<String>, func: &'static str| {
        c.push(Call { text, module_text: module, expect: e, func });
    };
    for l in &ls {
        let lsrc = l.src();
        push(format!("length({})", lsrc), Some(format!("list.length({})", lsrc)), exp(length(l)), "length");
        push(format!("list-separator({})", lsrc), Some(format!("list.separator({})", lsrc)), exp(separator(l)), "list-separator");
        push(format!("is-bracketed({})", lsrc), Some(format!("list.is-bracketed({})", lsrc)), exp(is_bracketed(l)), "is-bracketed");
        push(format!("inspect(append({}, z))", lsrc), Some(format!("inspect(list.append({}, z))", lsrc)), exp(append(l, &z, None)), "append");
        for sp in ["comma", "space", "slash", "auto"] {
            push(format!("inspect(append({}, z, {}))", lsrc, sp), Some(format!("inspect(list.append({}, z, $separator: {}))", lsrc, sp)), exp(append(l, &z, Some(sp))), "append");
        }
        push(format!("inspect(append({}, z, bogus))", lsrc), None, None, "append");
        for v in [s("a"), s("c"), s("z"), q("a"), Val::List(vec![s("a"), s("b")], Sep::Space, false)] {
            push(format!("inspect(index({}, {}))", lsrc, v.src()), Some(format!("inspect(list.index({}, {}))", lsrc, v.src())), exp(index(l, &v)), "index");
        }
        for i in &idxs {
            push(format!("inspect(nth({}, {}))", lsrc, i.src()), Some(format!("inspect(list.nth({}, {}))", lsrc, i.src())), exp(nth(l, i)), "nth");
            push(format!("inspect(set-nth({}, {}, z))", lsrc, i.src()), Some(format!("inspect(list.set-nth({}, {}, z))", lsrc, i.src())), exp(set_nth(l, i, &z)), "set-nth");
        }
        for w in &wrong {
            push(format!("inspect(nth({}, {}))", lsrc, w.src()), None, None, "nth");
            push(format!("inspect(set-nth({}, {}, z))", lsrc, w.src()), None, None, "set-nth");
        }
        for l2 in &ls {
            push(format!("inspect(join({}, {}))", lsrc, l2.src()), Some(format!("inspect(list.join({}, {}))", lsrc, l2.src())), exp(join(l, l2, None, None)), "join");
        }
        for sp in ["comma", "space", "slash"] {
            for br in [true, false] {
                push(format!("inspect(join({}, (x y), {}, {}))", lsrc, sp, br), Some(format!("inspect(list.join({}, (x y), $separator: {}, $bracketed: {}))", lsrc, sp, br)), exp(join(l, &Val::List(vec![s("x"), s("y")], Sep::Space, false), Some(sp), Some(br))), "join");
            }
        }
        for l2 in ls.iter().take(12) {
            push(format!("inspect(zip({}, {}))", lsrc, l2.src()), Some(format!("inspect(list.zip({}, {}))", lsrc, l2.src())), exp(zip(&[l.clone(), l2.clone()])), "zip");
        }
    }
    // maps
    let ms = maps();
    let keys = [s("a"), s("b"), s("x"), s("zz"), q("a"), n(1.0), Val::Null];
    for m in &ms {
        let msrc = m.src();
        push(format!("inspect(map-keys({}))", msrc), Some(format!("inspect(map.keys({}))", msrc)), exp(map_keys(m)), "map-keys");
        push(format!("inspect(map-values({}))", msrc), Some(format!("inspect(map.values({}))", msrc)), exp(map_values(m)), "map-values");
        push(format!("length({})", msrc), None, Some(match m { Val::Map(e) => e.len().to_string(), _ => "0".into() }), "length");
        for k in &keys {
            push(format!("inspect(map-get({}, {}))", msrc, k.src()), Some(format!("inspect(map.get({}, {}))", msrc, k.src())), exp(map_get(m, &[k.clone()])), "map-get");
            push(format!("inspect(map-has-key({}, {}))", msrc, k.src()), Some(format!("inspect(map.has-key({}, {}))", msrc, k.src())), exp(map_has_key(m, &[k.clone()])), "map-has-key");
            push(format!("inspect(map-remove({}, {}))", msrc, k.src()), Some(format!("inspect(map.remove({}, {}))", msrc, k.src())), exp(map_remove(m, &[k.clone()])), "map-remove");
            push(format!("inspect(map.set({}, {}, V))", msrc, k.src()), None, exp(map_set(m, &[k.clone()], &s("V"))), "map.set");
            for k2 in &keys[..4] {
                push(format!("inspect(map.get({}, {}, {}))", msrc, k.src(), k2.src()), None, exp(map_get(m, &[k.clone(), k2.clone()])), "map.get");
                push(format!("inspect(map.has-key({}, {}, {}))", msrc, k.src(), k2.src()), None, exp(map_has_key(m, &[k.clone(), k2.clone()])), "map.has-key");
                push(format!("inspect(map.set({}, {}, {}, V))", msrc, k.src(), k2.src()), None, exp(map_set(m, &[k.clone(), k2.clone()], &s("V"))), "map.set");
                if let Ok(Some(r)) = deep_remove(m, &[k.clone(), k2.clone()]) {
                    push(format!("inspect(map.deep-remove({}, {}, {}))", msrc, k.src(), k2.src()), None, Some(r.inspect()), "map.deep-remove");
                }
                for k3 in &keys[..4] {
                    // three-level paths: gaps (missing or scalar keys) in the middle of the path
                    push(format!("inspect(map.set({}, {}, {}, {}, V))", msrc, k.src(), k2.src(), k3.src()), None, exp(map_set(m, &[k.clone(), k2.clone(), k3.clone()], &s("V"))), "map.set");
                    push(format!("inspect(map.get({}, {}, {}, {}))", msrc, k.src(), k2.src(), k3.src()), None, exp(map_get(m, &[k.clone(), k2.clone(), k3.clone()])), "map.get");
                    push(format!("inspect(map.has-key({}, {}, {}, {}))", msrc, k.src(), k2.src(), k3.src()), None, exp(map_has_key(m, &[k.clone(), k2.clone(), k3.clone()])), "map.has-key");
                }
                push(format!("inspect(map-remove({}, {}, {}))", msrc, k.src(), k2.src()), Some(format!("inspect(map.remove({}, {}, {}))", msrc, k.src(), k2.src())), exp(map_remove(m, &[k.clone(), k2.clone()])), "map-remove");
            }
            if let Ok(Some(r)) = deep_remove(m, &[k.clone()]) {
                push(format!("inspect(map.deep-remove({}, {}))", msrc, k.src()), None, Some(r.inspect()), "map.deep-remove");
            }
        }
        for m2 in &ms {
            push(format!("inspect(map-merge({}, {}))", msrc, m2.src()), Some(format!("inspect(map.merge({}, {}))", msrc, m2.src())), exp(map_merge(m, m2)), "map-merge");
            push(format!("inspect(map.deep-merge({}, {}))", msrc, m2.src()), None, exp(deep_merge(m, m2)), "map.deep-merge");
            push(format!("inspect(map.merge({}, a, {}))", msrc, m2.src()), None, exp(map_merge_nested(m, &[s("a")], m2)), "map.merge");
            push(format!("inspect(map.merge({}, a, x, {}))", msrc, m2.src()), None, exp(map_merge_nested(m, &[s("a"), s("x")], m2)), "map.merge");
        }
        for w in [s("x"), n(1.0), Val::List(vec![s("a"), s("b")], Sep::Space, false)] {
            push(format!("inspect(map-get({}, a))", w.src()), None, None, "map-get");
            push(format!("inspect(map-merge({}, {}))", msrc, w.src()), None, None, "map-merge");
            push(format!("inspect(map-keys({}))", w.src()), None, None, "map-keys");
        }
    }
    // strings
    let ss = strings();
    let r: i64 = ctx.pick(6, 8);
    for sv in &ss {
        let t = sv.src();
        push(format!("str-length({})", t), Some(format!("string.length({})", t)), exp(str_length(sv)), "str-length");
        push(format!("inspect(to-upper-case({}))", t), Some(format!("inspect(string.to-upper-case({}))", t)), exp(to_upper(sv)), "to-upper-case");
        push(format!("inspect(to-lower-case({}))", t), Some(format!("inspect(string.to-lower-case({}))", t)), exp(to_lower(sv)), "to-lower-case");
        push(format!("inspect(quote({}))", t), Some(format!("inspect(string.quote({}))", t)), exp(quote(sv)), "quote");
        if !matches!(sv, Val::Str(x, _) if x.is_empty()) {
            push(format!("inspect(unquote({}))", t), Some(format!("inspect(string.unquote({}))", t)), exp(unquote(sv)), "unquote");
        }
        for a in -r..=r {
            push(format!("inspect(str-slice({}, {}))", t, a), Some(format!("inspect(string.slice({}, {}))", t, a)), exp(str_slice(sv, &n(a as f64), None)), "str-slice");
            push(format!("inspect(str-insert({}, \"Z\", {}))", t, a), Some(format!("inspect(string.insert({}, \"Z\", {}))", t, a)), exp(str_insert(sv, &q("Z"), &n(a as f64))), "str-insert");
            for b in -r..=r {
                push(format!("inspect(str-slice({}, {}, {}))", t, a, b), Some(format!("inspect(string.slice({}, $start-at: {}, $end-at: {}))", t, a, b)), exp(str_slice(sv, &n(a as f64), Some(&n(b as f64)))), "str-slice");
            }
        }
        for sub in ["a", "b", "\u{e9}", "\u{1F600}", "", "ab", "bc", "x"] {
            push(format!("inspect(str-index({}, \"{}\"))", t, sub), Some(format!("inspect(string.index({}, \"{}\"))", t, sub)), exp(str_index(sv, &q(sub))), "str-index");
        }
        // the documentation does not define an empty separator, an empty string, or the quoting of
        // the pieces of an unquoted string: those sub-spaces are left out
        for sp in [",", "b", "\u{1F600}", "bc"] {
            if matches!(sv, Val::Str(x, qd) if x.is_empty() || !*qd) {
                continue;
            }
            push(format!("inspect(string.split({}, \"{}\"))", t, sp), None, exp(split(sv, &q(sp), None)), "string.split");
            for lim in [1, 2, 0] {
                push(format!("inspect(string.split({}, \"{}\", {}))", t, sp, lim), None, exp(split(sv, &q(sp), Some(&n(lim as f64)))), "string.split");
            }
        }
        for w in [n(1.0), Val::Null, Val::List(vec![s("a"), s("b")], Sep::Space, false)] {
            push(format!("inspect(str-slice({}, {}))", t, w.src()), None, if matches!(w, Val::Num(_)) { exp(str_slice(sv, &w, None)) } else { None }, "str-slice");
            push(format!("inspect(str-index({}, {}))", t, w.src()), None, None, "str-index");
            push(format!("inspect(str-insert({}, {}, 1))", t, w.src()), None, None, "str-insert");
        }
        push(format!("inspect(str-slice({}, 1.5))", t), None, None, "str-slice");
        push(format!("inspect(str-insert({}, \"Z\", 1.5))", t), None, None, "str-insert");
    }
    for w in [n(1.0), Val::Null, Val::Bool(true)] {
        for f in ["str-length", "to-upper-case", "to-lower-case", "quote", "unquote"] {
            push(format!("inspect({}({}))", f, w.src()), None, None, "string-type-error");
        }
    }
    c
}

/// depth-2 compositions of built-ins with the composed reference value (None = error expected)
fn chains(ctx: &Ctx) -> Vec<(String, Option<String>)> {
    let mut out: Vec<(String, Option<String>)> = Vec::new();
    let z = s("z");
    let w = s("w");
    let xy = Val::List(vec![s("x"), s("y")], Sep::Space, false);
    let xc = Val::List(vec![s("x")], Sep::Comma, false);
    let pq = Val::List(vec![s("p"), s("q")], Sep::Comma, false);
    let e0 = Val::List(vec![], Sep::Undecided, false);
    let b0 = Val::List(vec![], Sep::Undecided, true);
    let n123 = Val::List(vec![n(1.0), n(2.0), n(3.0)], Sep::Space, false);
    // ---- lists
    let mut level1: Vec<(String, Val)> = Vec::new();
    let mut base = lists(ctx.pick(3, 4));
    base.extend(maps().into_iter().take(4));
    for l in &base {
        let t = l.src();
        let mut p = |text: String, r: R| {
            if let Ok(v) = r {
                level1.push((text, v));
            }
        };
        p(format!("append({}, z)", t), append(l, &z, None));
        for sp in ["comma", "space", "slash"] {
            p(format!("append({}, z, {})", t, sp), append(l, &z, Some(sp)));
        }
        p(format!("join({}, {})", t, xy.src()), join(l, &xy, None, None));
        p(format!("join({}, {})", t, xc.src()), join(l, &xc, None, None));
        p(format!("join((), {})", t), join(&e0, l, None, None));
        p(format!("join([], {})", t), join(&b0, l, None, None));
        p(format!("join({}, (), $bracketed: true)", t), join(l, &e0, None, Some(true)));
        p(format!("join({}, (), comma)", t), join(l, &e0, Some("comma"), None));
        p(format!("set-nth({}, 1, z)", t), set_nth(l, &n(1.0), &z));
        p(format!("set-nth({}, -1, z)", t), set_nth(l, &n(-1.0), &z));
        p(format!("zip({}, {})", t, t), zip(&[l.clone(), l.clone()]));
        p(format!("nth(zip({}, {}), 1)", t, n123.src()), zip(&[l.clone(), n123.clone()]).and_then(|v| nth(&v, &n(1.0))));
    }
    for (t, v) in &level1 {
        let mut o = |text: String, r: R| out.push((text, exp(r)));
        o(format!("length({})", t), length(v));
        o(format!("list-separator({})", t), separator(v));
        o(format!("is-bracketed({})", t), is_bracketed(v));
        o(format!("inspect({})", t), Ok(v.clone()));
        o(format!("inspect(nth({}, -1))", t), nth(v, &n(-1.0)));
        o(format!("inspect(nth({}, 2))", t), nth(v, &n(2.0)));
        o(format!("inspect(index({}, z))", t), index(v, &z));
        o(format!("inspect(append({}, w))", t), append(v, &w, None));
        o(format!("inspect(join({}, {}))", t, pq.src()), join(v, &pq, None, None));
        o(format!("inspect(join({}, {}))", pq.src(), t), join(&pq, v, None, None));
        o(format!("inspect(join((), {}))", t), join(&e0, v, None, None));
        o(format!("inspect(set-nth({}, -1, w))", t), set_nth(v, &n(-1.0), &w));
        o(format!("inspect(zip({}, {}))", t, n123.src()), zip(&[v.clone(), n123.clone()]));
        o(format!("inspect(list.join({}, {}, $separator: auto))", t, t), join(v, v, Some("auto"), None));
    }
    // ---- maps
    let mut m1: Vec<(String, Val)> = Vec::new();
    let nm = Val::Map(vec![(s("n"), n(1.0)), (s("a"), n(7.0))]);
    for m in &maps() {
        let t = m.src();
        let mut p = |text: String, r: R| {
            if let Ok(v) = r {
                m1.push((text, v));
            }
        };
        p(format!("map-remove({}, a)", t), map_remove(m, &[s("a")]));
        p(format!("map-remove({}, b, zz)", t), map_remove(m, &[s("b"), s("zz")]));
        p(format!("map-merge({}, {})", t, nm.src()), map_merge(m, &nm));
        p(format!("map-merge({}, {})", nm.src(), t), map_merge(&nm, m));
        p(format!("map.set({}, n, 1)", t), map_set(m, &[s("n")], &n(1.0)));
        p(format!("map.set({}, a, x, V)", t), map_set(m, &[s("a"), s("x")], &s("V")));
        p(format!("map.deep-merge({}, {})", t, nm.src()), deep_merge(m, &nm));
    }
    for (t, v) in &m1 {
        let mut o = |text: String, r: R| out.push((text, exp(r)));
        o(format!("inspect({})", t), Ok(v.clone()));
        o(format!("inspect(map-keys({}))", t), map_keys(v));
        o(format!("inspect(map-values({}))", t), map_values(v));
        o(format!("inspect(map-get({}, a))", t), map_get(v, &[s("a")]));
        o(format!("inspect(map-has-key({}, n))", t), map_has_key(v, &[s("n")]));
        o(format!("inspect(map-merge({}, (b: 0, m: 1)))", t), map_merge(v, &Val::Map(vec![(s("b"), n(0.0)), (s("m"), n(1.0))])));
        o(format!("inspect(map-remove({}, n))", t), map_remove(v, &[s("n")]));
        o(format!("inspect(nth({}, 1))", t), nth(v, &n(1.0)));
        o(format!("length({})", t), length(v));
    }
    // ---- strings
    let mut s1: Vec<(String, Val)> = Vec::new();
    for sv in &strings() {
        let t = sv.src();
        let mut p = |text: String, r: R| {
            if let Ok(v) = r {
                // an empty unquoted string has no documented inspect() form
                if !matches!(&v, Val::Str(x, false) if x.is_empty() || x.contains(',')) {
                    s1.push((text, v));
                }
            }
        };
        p(format!("str-slice({}, 2)", t), str_slice(sv, &n(2.0), None));
        p(format!("str-slice({}, -2)", t), str_slice(sv, &n(-2.0), None));
        p(format!("str-slice({}, 1, -2)", t), str_slice(sv, &n(1.0), Some(&n(-2.0))));
        p(format!("str-insert({}, \"Z\", 2)", t), str_insert(sv, &q("Z"), &n(2.0)));
        p(format!("str-insert({}, \"\u{1F600}\", -1)", t), str_insert(sv, &q("\u{1F600}"), &n(-1.0)));
        p(format!("to-upper-case({})", t), to_upper(sv));
        p(format!("quote({})", t), quote(sv));
        if !matches!(sv, Val::Str(x, _) if x.is_empty() || x.contains(',')) {
            p(format!("unquote({})", t), unquote(sv));
        }
    }
    for (t, v) in &s1 {
        let mut o = |text: String, r: R| out.push((text, exp(r)));
        o(format!("str-length({})", t), str_length(v));
        o(format!("inspect({})", t), Ok(v.clone()));
        o(format!("inspect(str-index({}, \"b\"))", t), str_index(v, &q("b")));
        o(format!("inspect(str-index({}, \"Z\"))", t), str_index(v, &q("Z")));
        o(format!("inspect(str-slice({}, 2, -1))", t), str_slice(v, &n(2.0), Some(&n(-1.0))));
        o(format!("inspect(str-slice({}, -3, 3))", t), str_slice(v, &n(-3.0), Some(&n(3.0))));
        o(format!("inspect(str-insert({}, \"Y\", -2))", t), str_insert(v, &q("Y"), &n(-2.0)));
        o(format!("inspect(to-lower-case({}))", t), to_lower(v));
        o(format!("inspect(quote({}))", t), quote(v));
    }
    // results that are empty unquoted strings are not printable by inspect(): compare as "<empty>"
    out
}

pub fn run(ctx: &Ctx) {
    // the watchdog's clock also covers the harness's own oracle work (reference models, DOM enumeration);
    // the limit is generous so that machine load cannot turn a slow case into a verdict
    ctx.hang_limit_s.store(300, std::sync::atomic::Ordering::Relaxed);
    let cs = calls(ctx);
    let sub = "calls";
    let pre = "@use \"sass:list\"; @use \"sass:map\"; @use \"sass:string\";\n";
    par(
        ctx,
        sub,
        cs.len() as u64,
        |i| json!({"call": cs[i as usize].text, "expected": cs[i as usize].expect}),
        |i, l| {
            let c = &cs[i as usize];
            let run1 = |text: &str| -> Option<String> {
                match compile(&format!("{}a{{b:{}}}", pre, text), &Cfg::scss()) {
                    Outcome::Ok(out) => Some(crate::checks::c08::first_decl_value(&out).unwrap_or_else(|| "<empty>".into())),
                    Outcome::Err(_) => None,
                    Outcome::Panic(p) => Some(format!("<panic: {}>", p)),
                }
            };
            l.evals += 1;
            let got = run1(&c.text);
            l.outcome(digest_str(&format!("{:?}", got)));
            l.validated += 1;
            if c.expect.is_some() {
                l.nontrivial += 1;
            } else {
                l.count("expected_errors", 1);
            }
            // an empty unquoted string or a null prints no declaration at all
            let norm = |e: &Option<String>| match e.as_deref() {
                Some("") | Some("null") => Some("<empty>".to_string()),
                other => other.map(|s| s.to_string()),
            };
            let want = norm(&c.expect);
            let got_n = match got.as_deref() {
                Some("null") => Some("<empty>".to_string()),
                _ => got.clone(),
            };
            if got_n != want {
                ctx.violation(sub, &format!("builtin:{}", c.text), &format!("{} = {:?}, documentation reference {:?}", c.text, got, c.expect), json!({"call": c.text, "function": c.func, "observed": got, "reference": c.expect}));
            }
            if let Some(mt) = &c.module_text {
                l.evals += 1;
                let got2 = run1(mt);
                l.validated += 1;
                if got2 != got {
                    ctx.violation(sub, &format!("builtin-alias:{}", mt), &format!("module function and global alias differ: {} = {:?} but {} = {:?}", mt, got2, c.text, got), json!({"module_call": mt, "global_call": c.text}));
                }
            }
        },
    );
    let mut per_fn: std::collections::BTreeMap<&str, u64> = Default::default();
    for c in &cs {
        *per_fn.entry(c.func).or_insert(0) += 1;
    }
    ctx.extra("calls_per_function", json!(per_fn));
    ctx.bound(sub, &format!("lists of length 0-{} x 3 separators x brackets; indices -8..8 + 4 non-integers + wrongly typed; 9 maps with nested levels x 7 keys; 20 strings (ASCII, combining, astral) with positions -{}..{}", ctx.pick(4, 6), ctx.pick(6, 8), ctx.pick(6, 8)), true);
    ctx.sample(sub, json!({"call": "inspect(str-slice(\"\u{e9}\u{1F600}b\", 2, -2))", "reference": "\"\u{1F600}\""}));

    // ---- chains: values produced by one built-in fed to another (non-initial states) ----------------
    // Depth-2 compositions: every producer applied to every value of the universe, then every
    // observer/producer applied to that result. The reference is the composition of the reference
    // functions, so hidden state of a produced value (undecided separator of a one-element result,
    // brackets, key order after remove/merge, quotedness after slice/insert) is observed.
    let sub = "chains";
    let ch = chains(ctx);
    par(
        ctx,
        sub,
        ch.len() as u64,
        |i| json!({"call": ch[i as usize].0, "expected": ch[i as usize].1}),
        |i, l| {
            let (text, expect) = &ch[i as usize];
            l.evals += 1;
            let got = match compile(&format!("{}a{{b:{}}}", pre, text), &Cfg::scss()) {
                Outcome::Ok(out) => Some(crate::checks::c08::first_decl_value(&out).unwrap_or_else(|| "<empty>".into())),
                Outcome::Err(_) => None,
                Outcome::Panic(p) => Some(format!("<panic: {}>", p)),
            };
            l.outcome(digest_str(&format!("{:?}", got)));
            l.validated += 1;
            if expect.is_some() {
                l.nontrivial += 1;
            } else {
                l.count("expected_errors", 1);
            }
            let norm = |e: &Option<String>| match e.as_deref() {
                Some("") | Some("null") => Some("<empty>".to_string()),
                other => other.map(|s| s.to_string()),
            };
            if norm(&got) != norm(expect) {
                ctx.violation(sub, &format!("builtin-chain:{}", text), &format!("{} = {:?}, composed documentation reference {:?}", text, got, expect), json!({"call": text, "observed": got, "reference": expect}));
            }
        },
    );
    ctx.bound(sub, &format!("depth-2 compositions: 14 list producers x lists of length 0-{} (+ maps as lists) x 14 list consumers; 7 map producers x 11 maps x 9 map consumers; 8 string producers x 20 strings x 9 string consumers", ctx.pick(3, 4)), true);
    ctx.sample(sub, json!({"call": "list-separator(append(join((), (a,)), z))", "reference": "comma"}));

    // ---- algebraic laws that need no reference ---------------------------------------------------
    let sub = "laws";
    let ls = lists(4);
    let ss = strings();
    let law_src: Vec<String> = ls
        .iter()
        .map(|l| {
            let t = l.src();
            format!(
                "$l: {t}; a{{ l1: length(append($l, q)) == length($l) + 1; l2: nth(append($l, q), -1) == q; l3: length(join($l, $l)) == 2 * length($l); l4: if(length($l) > 0, index($l, nth($l, 1)) == 1, true); l5: if(length($l) > 0, nth(set-nth($l, 1, q), 1) == q, true); l6: if(length($l) > 0, nth($l, length($l)) == nth($l, -1), true); l7: length(zip($l, $l)) == length($l); l8: is-bracketed(join($l, (), $bracketed: true)); }}",
                t = t
            )
        })
        .chain(ss.iter().map(|sv| {
            let t = sv.src();
            let mut body = format!("$s: {t}; $n: str-length($s); a{{ ", t = t);
            for k in 0..=4 {
                body.push_str(&format!("s{k}: if({k} <= $n, unquote(str-slice($s, 1, {k})) + unquote(str-slice($s, {k} + 1)) == unquote($s), true); ", k = k));
                body.push_str(&format!("i{k}: if({k} <= $n, str-length(str-insert($s, \"ZZ\", {k} + 1)) == $n + 2, true); ", k = k));
            }
            body.push_str("u: str-length(to-upper-case($s)) == $n; q: unquote(quote($s)) == unquote($s); x: if($n > 0, str-index($s, str-slice($s, 1, 1)) == 1, true); }");
            body
        }))
        .collect();
    par(
        ctx,
        sub,
        law_src.len() as u64,
        |i| json!({"program": law_src[i as usize]}),
        |i, l| {
            let src = &law_src[i as usize];
            l.evals += 1;
            let o = compile(&format!("@use \"sass:list\";\n{}", src), &Cfg::scss());
            l.outcome(o.digest());
            l.validated += 1;
            match &o {
                Outcome::Ok(c) => {
                    l.nontrivial += 1;
                    for b in crate::models::css::flatten(&crate::models::css::parse(c).unwrap_or_default()) {
                        for (p, v) in b.decls {
                            if v != "true" {
                                ctx.violation(sub, &format!("law:{}:{}", p, src.chars().take(60).collect::<String>()), &format!("law {} does not hold: {}", p, v), json!({"program": src, "output": c}));
                            }
                        }
                    }
                }
                other => ctx.violation(sub, &format!("law:fail:{}", src.chars().take(60).collect::<String>()), &format!("law program failed: {}", other.brief()), json!({"program": src})),
            }
        },
    );
    ctx.bound(sub, "8 list laws on every list of length 0-4 and 13 string laws on every string of the universe", true);
    ctx.sample(sub, json!({"law": "str-slice($s,1,k) + str-slice($s,k+1) == $s"}));
    ctx.assume("reference implementations are written from the Sass documentation and compared on inspect() text; numbers in the universes avoid the equality tolerance");
}
