//! C13 — imports follow the documented search order, only via the supplied Fs.
//! Environment enumeration: virtual directory layouts (all single candidates and all pairs;
//! thorough: + triples for the plain URL) x URL forms x rule kinds x load-path lists x importer
//! location; reference resolver written from the property text (DESIGN A.3); tracing Fs.

use crate::core::*;
use crate::models::css;
use serde_json::json;
use std::collections::BTreeSet;
use std::path::Path;

const EXTS: [&str; 3] = ["sass", "scss", "css"];

#[derive(Clone, Copy, PartialEq, Eq, Debug)]
pub enum Kind {
    Import,
    Use,
    Forward,
}
impl Kind {
    fn rule(self, url: &str) -> String {
        match self {
            Kind::Import => format!("@import \"{}\";", url),
            Kind::Use => format!("@use \"{}\" as u;", url),
            Kind::Forward => format!("@forward \"{}\";", url),
        }
    }
    fn name(self) -> &'static str {
        match self {
            Kind::Import => "import",
            Kind::Use => "use",
            Kind::Forward => "forward",
        }
    }
}

fn join(loc: &str, rel: &str) -> String {
    normalize(Path::new(&if loc.is_empty() { rel.to_string() } else { format!("{}/{}", loc, rel) }))
}

fn split_base(base: &str) -> (String, String) {
    match base.rfind('/') {
        Some(i) => (base[..=i].to_string(), base[i + 1..].to_string()),
        None => (String::new(), base.to_string()),
    }
}

fn has_explicit_ext(url: &str) -> bool {
    EXTS.iter().any(|e| url.ends_with(&format!(".{}", e)))
}

/// priority classes of candidate paths in one location (DESIGN A.3)
pub fn classes(base: &str, kind: Kind, explicit: bool) -> Vec<Vec<String>> {
    let (d, n) = split_base(base);
    if explicit {
        // tried literally and as a partial (both present = ambiguous); for @import the
        // import-only spelling `stem.import.ext` is preferred, as for extension-less URLs
        let mut v = Vec::new();
        if kind == Kind::Import {
            let (stem, ext) = n.rsplit_once('.').unwrap();
            v.push(vec![format!("{}{}.import.{}", d, stem, ext), format!("{}_{}.import.{}", d, stem, ext)]);
        }
        v.push(vec![base.to_string(), format!("{}_{}", d, n)]);
        return v;
    }
    let cls = |b: &str| -> Vec<Vec<String>> {
        let (d, n) = split_base(b);
        let mut out = Vec::new();
        let pair = |suffix: &str| vec![format!("{}{}{}", d, n, suffix), format!("{}_{}{}", d, n, suffix)];
        if kind == Kind::Import {
            let mut c = pair(".import.sass");
            c.extend(pair(".import.scss"));
            out.push(c);
            out.push(pair(".import.css"));
        }
        let mut c = pair(".sass");
        c.extend(pair(".scss"));
        out.push(c);
        out.push(pair(".css"));
        out
    };
    let mut v = cls(base);
    v.extend(cls(&format!("{}/index", base)));
    v
}

#[derive(Debug, PartialEq, Eq)]
pub enum Res {
    Hit(String),
    None,
    Ambiguous,
}

pub fn resolve(files: &BTreeSet<String>, url: &str, kind: Kind, locs: &[String]) -> Res {
    let explicit = has_explicit_ext(url);
    for loc in locs {
        let base = join(loc, url);
        for c in classes(&base, kind, explicit) {
            let hits: Vec<&String> = c.iter().filter(|p| files.contains(*p)).collect();
            if hits.len() > 1 {
                return Res::Ambiguous;
            }
            if let Some(h) = hits.first() {
                return Res::Hit((*h).clone());
            }
        }
    }
    Res::None
}

fn marker_id(path: &str) -> String {
    path.replace(['/', '.'], "-")
}

fn file_content(path: &str) -> String {
    if path.ends_with(".sass") {
        format!("m\n  from: {}\n", marker_id(path))
    } else {
        format!("m{{from:{}}}", marker_id(path))
    }
}

struct Case {
    url: &'static str,
    kind: Kind,
    lps: Vec<&'static str>,
    importer_dir: &'static str,
    files: Vec<String>,
}

fn universe(url: &str, locs: &[String]) -> Vec<String> {
    // every candidate any kind could look at, in every location, plus decoys
    let mut s = BTreeSet::new();
    let stem = if has_explicit_ext(url) { url.rsplit_once('.').unwrap().0.to_string() } else { url.to_string() };
    for loc in locs {
        for u in [url.to_string(), stem.clone()] {
            let base = join(loc, &u);
            for c in classes(&base, Kind::Import, has_explicit_ext(&u)) {
                for p in c {
                    s.insert(p);
                }
            }
        }
        // decoys: no extension, foreign extension, dotted-name truncation
        let base = join(loc, &stem);
        s.insert(format!("{}.txt", base));
        if let Some((pre, _)) = stem.rsplit_once('.') {
            // e.g. url foo.bar: the truncated name foo.scss must never win
            let b = join(loc, pre);
            s.insert(format!("{}.scss", b));
            s.insert(format!("{}.sass", b));
        }
    }
    s.into_iter().collect()
}

pub fn run(ctx: &Ctx) {
    // the watchdog's clock also covers the harness's own oracle work (reference models, DOM enumeration);
    // the limit is generous so that machine load cannot turn a slow case into a verdict
    ctx.hang_limit_s.store(300, std::sync::atomic::Ordering::Relaxed);
    // decoys on the real disk, and the process working directory inside them
    let cwd = ctx.root.join("target").join("c13-cwd");
    let _ = std::fs::create_dir_all(cwd.join("foo"));
    let _ = std::fs::create_dir_all(cwd.join("lp1"));
    let _ = std::fs::create_dir_all(cwd.join("sub"));
    for f in ["foo.scss", "_foo.scss", "foo.sass", "foo.css", "foo.import.scss", "foo/index.scss", "foo/_index.scss", "lp1/foo.scss", "sub/foo.scss", "foo.bar.scss", "e.scss"] {
        let _ = std::fs::write(cwd.join(f), "m{from:REALDISK}");
    }
    if std::env::set_current_dir(&cwd).is_err() {
        ctx.machinery("cannot enter scratch working directory");
        return;
    }

    let urls: Vec<&'static str> = vec!["foo", "foo.scss", "foo.sass", "foo.css", "foo.bar", "dir/foo", "./foo", "../up/foo"];
    let kinds = [Kind::Import, Kind::Use, Kind::Forward];
    // (the list in non-lexical order is in both tiers: load paths are a sequence, not a set)
    let lp_lists: Vec<Vec<&'static str>> = if ctx.quick() { vec![vec![], vec!["lp2", "lp1"]] } else { vec![vec![], vec!["lp1"], vec!["lp1", "lp2"], vec!["lp2", "lp1"]] };
    let importers: Vec<&'static str> = if ctx.quick() { vec![""] } else { vec!["", "sub"] };

    let mut cases: Vec<Case> = Vec::new();
    for url in &urls {
        for kind in kinds {
            if kind == Kind::Import && url.ends_with(".css") {
                continue; // plain-CSS import, checked separately
            }
            for lps in &lp_lists {
                for imp in &importers {
                    if imp.is_empty() && url.starts_with("../") {
                        continue;
                    }
                    let locs: Vec<String> = std::iter::once(imp.to_string()).chain(lps.iter().map(|s| s.to_string())).collect();
                    let uni = universe(url, &locs);
                    // singles, pairs (thorough: triples for the plain URL with one load path)
                    cases.push(Case { url, kind, lps: lps.clone(), importer_dir: imp, files: vec![] });
                    for a in 0..uni.len() {
                        cases.push(Case { url, kind, lps: lps.clone(), importer_dir: imp, files: vec![uni[a].clone()] });
                        for b in (a + 1)..uni.len() {
                            cases.push(Case { url, kind, lps: lps.clone(), importer_dir: imp, files: vec![uni[a].clone(), uni[b].clone()] });
                        }
                    }
                    if ctx.thorough() && *url == "foo" && lps.len() == 1 && imp.is_empty() {
                        for a in 0..uni.len() {
                            for b in (a + 1)..uni.len() {
                                for c in (b + 1)..uni.len() {
                                    cases.push(Case { url, kind, lps: lps.clone(), importer_dir: imp, files: vec![uni[a].clone(), uni[b].clone(), uni[c].clone()] });
                                }
                            }
                        }
                    }
                }
            }
        }
    }

    let sub = "layouts";
    let describe = |c: &Case| json!({"url": c.url, "rule": c.kind.name(), "load_paths": c.lps, "importer_dir": c.importer_dir, "files": c.files});
    par(
        ctx,
        sub,
        cases.len() as u64,
        |i| describe(&cases[i as usize]),
        |i, l| {
            let c = &cases[i as usize];
            let locs: Vec<String> = std::iter::once(c.importer_dir.to_string()).chain(c.lps.iter().map(|s| s.to_string())).collect();
            let fileset: BTreeSet<String> = c.files.iter().cloned().collect();
            let exp = resolve(&fileset, c.url, c.kind, &locs);
            if exp == Res::Ambiguous {
                l.count("excluded_ambiguous_same_priority", 1);
                return;
            }
            let entry = join(c.importer_dir, "e.scss");
            let mut fs = MemFs::new();
            fs.add(&entry, &c.kind.rule(c.url));
            for f in &c.files {
                fs.add(f, &file_content(f));
            }
            // directories that exist only as prefixes of candidate names (e.g. `foo/`) come from add()
            let cfg = Cfg { syntax: None, load_paths: c.lps.iter().map(|s| s.to_string()).collect(), ..Cfg::default() };
            l.evals += 1;
            let o = compile_path(&entry, &cfg, &Env { fs: &fs, logger: &grass_compiler::NullLogger });
            l.outcome(o.digest());
            l.validated += 1;
            let trace = fs.take_trace();
            let key = |class: &str| {
                // finding key: URL form x rule x where the winner lives x class of disagreement
                let winner = match &exp {
                    Res::Hit(h) => h.clone(),
                    _ => "none".into(),
                };
                format!("import:{}:{}:lp={}:imp={}:files={}:expect={}:{}", c.url, c.kind.name(), c.lps.join("+"), c.importer_dir, c.files.join("+"), winner, class)
            };
            let detail = || json!({"entry": entry, "rule": c.kind.rule(c.url), "files": c.files, "load_paths": c.lps, "expected": format!("{:?}", exp), "observed": o.brief(), "trace": trace.iter().map(|t| format!("{:?}", t)).collect::<Vec<_>>()});
            // --- winner ---
            match (&exp, &o) {
                (_, Outcome::Panic(p)) => ctx.violation(sub, &key("panic"), &format!("panic: {}", p), detail()),
                (Res::Hit(h), Outcome::Ok(cssout)) => {
                    l.nontrivial += 1;
                    let want = format!("from: {}", marker_id(h));
                    if cssout.contains("REALDISK") {
                        ctx.violation(sub, &key("real-disk"), "content of a decoy file on the real disk reached the output", detail());
                    } else if !cssout.contains(&want) {
                        let got = css::flatten(&css::parse(cssout).unwrap_or_default()).into_iter().flat_map(|b| b.decls).find(|d| d.0 == "from").map(|d| d.1);
                        ctx.violation(sub, &key("wrong-winner"), &format!("`{}` with files {:?} must load {} but loaded {:?}", c.kind.rule(c.url), c.files, h, got), detail());
                    }
                }
                (Res::Hit(h), Outcome::Err(e)) => {
                    ctx.violation(sub, &key("not-found"), &format!("`{}` with files {:?} must load {} but failed: {}", c.kind.rule(c.url), c.files, h, e.message), detail());
                }
                (Res::None, Outcome::Ok(cssout)) => {
                    let got = css::flatten(&css::parse(cssout).unwrap_or_default()).into_iter().flat_map(|b| b.decls).find(|d| d.0 == "from").map(|d| d.1);
                    ctx.violation(sub, &key("loaded-non-candidate"), &format!("`{}` with files {:?} has no match but compiled (loaded {:?})", c.kind.rule(c.url), c.files, got), detail());
                }
                (Res::None, Outcome::Err(e)) => {
                    l.count("no_match_is_error", 1);
                    // error is reported at the import statement of the entry file
                    if e.kind != "parse" || !(e.file.ends_with("e.scss")) {
                        ctx.violation(sub, &key("error-location"), &format!("missing import reported at {:?} ({})", e.file, e.message), detail());
                    }
                }
                (Res::Ambiguous, _) => {}
            }
            // --- trace: only candidate paths of this search, only through the Fs ---
            let mut allowed: BTreeSet<String> = BTreeSet::new();
            allowed.insert(entry.clone());
            let stem_urls: Vec<String> = vec![c.url.to_string()];
            for loc in &locs {
                for u in &stem_urls {
                    let base = join(loc, u);
                    allowed.insert(base.clone());
                    for cl in classes(&base, Kind::Import, has_explicit_ext(u)) {
                        for p in cl {
                            allowed.insert(p);
                        }
                    }
                    if has_explicit_ext(u) {
                        // import-only spelling of an explicit-extension URL is unspecified: allowed to be probed
                        let (stem, ext) = u.rsplit_once('.').unwrap();
                        let b2 = join(loc, &format!("{}.import.{}", stem, ext));
                        let (d, n) = split_base(&b2);
                        allowed.insert(b2.clone());
                        allowed.insert(format!("{}_{}", d, n));
                    }
                    allowed.insert(format!("{}/index", base));
                }
            }
            for t in &trace {
                let p = normalize(Path::new(t.path()));
                if !allowed.contains(&p) {
                    ctx.violation(sub, &format!("import-trace:{}:{}:{}", c.url, c.kind.name(), p), &format!("file-system call {:?} is outside the candidate set of `{}`", t, c.kind.rule(c.url)), detail());
                    break;
                }
            }
        },
    );
    ctx.bound(sub, &format!("{} URL forms x 3 rule kinds x {} load-path lists x {} importer locations x (no file, every single candidate, every pair of candidates{})", urls.len(), lp_lists.len(), importers.len(), if ctx.thorough() { ", every triple for `foo` with one load path" } else { "" }), true);
    ctx.sample(sub, json!({"entry": "@import \"foo\";", "files": ["foo.scss", "lp1/_foo.import.sass"], "load_paths": ["lp1", "lp2"], "expected": "foo.scss"}));

    // ---- the same URL from two importers: every resolution is independent of earlier ones -----
    {
        let sub = "two-importers";
        let uni: Vec<&str> = vec!["foo.scss", "_foo.scss", "sub/foo.scss", "sub/_foo.sass", "lp1/foo.scss", "lp2/foo.scss", "lp1/_foo.scss"];
        // (kind, order, load-path order) x subsets of the universe
        let nsub = 1u64 << uni.len();
        let variants: Vec<(Kind, bool, bool)> = vec![(Kind::Import, false, false), (Kind::Import, true, false), (Kind::Use, false, false), (Kind::Use, true, false), (Kind::Import, false, true), (Kind::Use, true, true)];
        par(
            ctx,
            sub,
            nsub * variants.len() as u64,
            |i| json!({"files": uni.iter().enumerate().filter(|(k, _)| (i % nsub) & (1 << k) != 0).map(|x| x.1).collect::<Vec<_>>(), "variant": format!("{:?}", variants[(i / nsub) as usize])}),
            |i, l| {
                let mask = i % nsub;
                let (kind, sub_first, lp_rev) = variants[(i / nsub) as usize];
                let lps: [&str; 2] = if lp_rev { ["lp2", "lp1"] } else { ["lp1", "lp2"] };
                let files: Vec<String> = uni.iter().enumerate().filter(|(k, _)| mask & (1 << k) != 0).map(|x| x.1.to_string()).collect();
                let fileset: BTreeSet<String> = files.iter().cloned().collect();
                let locs_main: Vec<String> = vec!["".into(), lps[0].into(), lps[1].into()];
                let locs_sub: Vec<String> = vec!["sub".into(), lps[0].into(), lps[1].into()];
                let r_main = resolve(&fileset, "foo", kind, &locs_main);
                let r_sub = resolve(&fileset, "foo", kind, &locs_sub);
                if r_main == Res::Ambiguous || r_sub == Res::Ambiguous {
                    l.count("excluded_ambiguous_same_priority", 1);
                    return;
                }
                let (rule_foo, rule_x, x_body) = match kind {
                    Kind::Import => ("@import \"foo\";", "@import \"sub/x\";", "@import \"foo\";"),
                    _ => ("@use \"foo\" as a;", "@use \"sub/x\" as x;", "@use \"foo\" as b;"),
                };
                let main_src = if sub_first { format!("{}\n{}\n", rule_x, rule_foo) } else { format!("{}\n{}\n", rule_foo, rule_x) };
                let mut fs = MemFs::new();
                fs.add("e.scss", &main_src);
                fs.add("sub/x.scss", x_body);
                for f in &files {
                    fs.add(f, &file_content(f));
                }
                let cfg = Cfg { syntax: None, load_paths: lps.iter().map(|s| s.to_string()).collect(), ..Cfg::default() };
                l.evals += 1;
                let o = compile_path("e.scss", &cfg, &Env { fs: &fs, logger: &grass_compiler::NullLogger });
                l.outcome(o.digest());
                l.validated += 1;
                let key = format!("two-importers:{:?}:{}:{}:files={}", kind, if sub_first { "sub-first" } else { "main-first" }, lps.join(">"), files.join("+"));
                let detail = json!({"e.scss": main_src, "sub/x.scss": x_body, "files": files, "load_paths": lps, "observed": o.brief()});
                match (&r_main, &r_sub, &o) {
                    (_, _, Outcome::Panic(p)) => ctx.violation(sub, &key, &format!("panic: {}", p), detail),
                    (Res::Hit(hm), Res::Hit(hs), Outcome::Ok(cssout)) => {
                        l.nontrivial += 1;
                        let got: Vec<String> = css::flatten(&css::parse(cssout).unwrap_or_default()).into_iter().flat_map(|b| b.decls).filter(|d| d.0 == "from").map(|d| d.1).collect();
                        let mut want: Vec<String> = if sub_first { vec![marker_id(hs), marker_id(hm)] } else { vec![marker_id(hm), marker_id(hs)] };
                        if kind != Kind::Import {
                            want.dedup(); // one module, loaded once
                        }
                        if got != want {
                            ctx.violation(sub, &key, &format!("the entry file must load {} and sub/x.scss must load {}: expected markers {:?}, got {:?}", hm, hs, want, got), detail);
                        }
                    }
                    (Res::Hit(_), Res::Hit(_), Outcome::Err(e)) => ctx.violation(sub, &key, &format!("both imports have a match but the compilation fails: {}", e.message), detail),
                    (_, _, Outcome::Ok(c)) => ctx.violation(sub, &key, &format!("one of the imports has no match but the compilation succeeds: {:?}", c), detail),
                    (_, _, Outcome::Err(_)) => l.count("no_match_is_error", 1),
                }
            },
        );
        ctx.bound(sub, "`foo` loaded from the entry file and from sub/x.scss, in both orders, with @import and with @use, over all 2^7 subsets of 7 candidate files in the entry directory, sub/ and two load paths (in both orders): each importer gets the file its own search order selects", true);
        ctx.sample(sub, json!({"e.scss": "@import \"foo\";\n@import \"sub/x\";", "sub/x.scss": "@import \"foo\";", "files": ["lp1/foo.scss", "sub/foo.scss"]}));
    }

    // ---- a relative load after loading a file from another directory ---------------------------
    {
        let sub = "after-foreign-load";
        // the entry (or a file in sub/) first loads a file that lives elsewhere, then `foo` relative to itself
        let firsts: Vec<(&str, &str, &str)> = vec![
            // (url of the first load, path of the file it resolves to, its content)
            ("vendor/reset", "vendor/reset.css", "r{from:reset-css}"),
            ("vendor/reset.css", "vendor/reset.css", "r{from:reset-css}"),
            ("vendor/base", "vendor/_base.scss", "r{from:base-scss}"),
            ("vendor/chain", "vendor/chain.scss", "@import \"inner\";"),
            ("lpmod", "lp1/lpmod.scss", "r{from:lpmod}"),
            ("vendor/ind", "vendor/ind.sass", "r\n  from: ind-sass\n"),
        ];
        let n = (firsts.len() * 2 * 2 * 4) as u64;
        par(
            ctx,
            sub,
            n,
            |i| json!({"index": i}),
            |i, l| {
                let i = i as usize;
                let (url1, path1, content1) = firsts[i % firsts.len()];
                let use_rule = (i / firsts.len()) % 2 == 1;
                let from_sub = (i / firsts.len() / 2) % 2 == 1;
                let decoys = i / firsts.len() / 4; // which decoy `foo` files exist next to the first-loaded file
                if use_rule && url1 == "vendor/reset" {
                    // @use of an extension-less URL that resolves to .css is fine too; keep it
                }
                let dir = if from_sub { "sub/" } else { "" };
                let up = if from_sub && url1 != "lpmod" { "../" } else { "" };
                let (r1, r2) = if use_rule { (format!("@use \"{}{}\" as a;", up, url1), "@use \"foo\" as b;".to_string()) } else { (format!("@import \"{}{}\";", up, url1), "@import \"foo\";".to_string()) };
                let importer = format!("{}imp.scss", dir);
                let mut fs = MemFs::new();
                fs.add("e.scss", &if from_sub { "@import \"sub/imp\";".to_string() } else { format!("{}\n{}\n", r1, r2) });
                if from_sub {
                    fs.add(&importer, &format!("{}\n{}\n", r1, r2));
                }
                let lpurl = url1 == "lpmod";
                fs.add(path1, content1);
                fs.add("vendor/inner.scss", "r{from:inner}");
                fs.add(&format!("{}foo.scss", dir), "m{from:right-foo}");
                let first_dir = std::path::Path::new(path1).parent().map(|p| p.to_string_lossy().to_string()).unwrap_or_default();
                if decoys & 1 != 0 {
                    fs.add(&format!("{}/foo.scss", first_dir), "m{from:decoy-next-to-first}");
                }
                if decoys & 2 != 0 {
                    fs.add("lp1/foo.scss", "m{from:decoy-in-load-path}");
                }
                let cfg = Cfg { syntax: None, load_paths: vec!["lp1".into()], ..Cfg::default() };
                l.evals += 1;
                let o = compile_path("e.scss", &cfg, &Env { fs: &fs, logger: &grass_compiler::NullLogger });
                l.outcome(o.digest());
                l.validated += 1;
                let key = format!("after-foreign-load:{}:{}:{}:decoys={}", url1, if use_rule { "use" } else { "import" }, if from_sub { "from-sub" } else { "from-entry" }, decoys);
                let detail = json!({"files": fs.json(), "load_paths": ["lp1"], "observed": o.brief()});
                let _ = lpurl;
                match &o {
                    Outcome::Ok(c) => {
                        l.nontrivial += 1;
                        let got: Vec<String> = css::flatten(&css::parse(c).unwrap_or_default()).into_iter().filter(|b| b.selector == "m").flat_map(|b| b.decls).filter(|d| d.0 == "from").map(|d| d.1).collect();
                        if got != vec!["right-foo".to_string()] {
                            ctx.violation(sub, &key, &format!("after loading {} the importer's own `foo` ({}foo.scss) must be loaded; got {:?}", path1, dir, got), detail);
                        }
                    }
                    other => ctx.violation(sub, &key, &format!("the layout must compile: {}", other.brief()), detail),
                }
            },
        );
        ctx.bound(sub, "6 first loads that resolve into another directory (plain CSS with and without extension, partial, a file that itself imports, a load-path hit, indented file) x {@import, @use} x importer in the entry directory / in sub/ x 4 decoy sets (a `foo` next to the first-loaded file, in the load path): the following `foo` resolves next to the importer", true);
        ctx.sample(sub, json!({"e.scss": "@import \"vendor/reset\";\n@import \"foo\";", "files": ["vendor/reset.css", "foo.scss", "vendor/foo.scss"]}));
    }

    // ---- plain-CSS imports are emitted, never loaded -----------------------------------------
    let sub = "plain-css-imports";
    let plain: Vec<(&str, &str)> = vec![
        ("@import url(foo.scss);", "url(foo.scss)"),
        ("@import url(\"foo\");", "url(\"foo\")"),
        ("@import \"http://x.test/foo\";", "\"http://x.test/foo\""),
        ("@import \"https://x.test/foo.scss\";", "\"https://x.test/foo.scss\""),
        ("@import \"//x.test/foo\";", "\"//x.test/foo\""),
        ("@import \"foo.css\";", "\"foo.css\""),
        ("@import \"foo\" screen;", "\"foo\" screen"),
        ("@import \"foo\" screen and (a: b);", "\"foo\" screen and (a: b)"),
        ("@import \"foo\" supports(display: grid);", "\"foo\" supports(display: grid)"),
        ("@import \"foo.scss\" print;", "\"foo.scss\" print"),
        ("@import \"foo\", \"foo.css\";", "\"foo.css\""),
    ];
    par(
        ctx,
        sub,
        plain.len() as u64 * 2,
        |i| json!({"rule": plain[(i / 2) as usize].0}),
        |i, l| {
            let (rule, expect) = plain[(i / 2) as usize];
            let with_files = i % 2 == 1;
            let mut fs = MemFs::new();
            fs.add("e.scss", rule);
            if with_files || rule.contains("\"foo\", ") {
                for f in ["foo.scss", "foo.css", "_foo.scss", "foo/index.scss"] {
                    fs.add(f, &file_content(f));
                }
            }
            l.evals += 1;
            let o = compile_path("e.scss", &Cfg { syntax: None, ..Cfg::default() }, &Env { fs: &fs, logger: &grass_compiler::NullLogger });
            l.outcome(o.digest());
            l.validated += 1;
            let trace = fs.take_trace();
            match &o {
                Outcome::Ok(c) => {
                    l.nontrivial += 1;
                    let squashed = css::squash_ws(c);
                    if !squashed.contains(&format!("@import {}", expect)) {
                        ctx.violation(sub, &format!("plain-import:{}:{}", rule, with_files), &format!("plain-CSS import not emitted verbatim: {:?}", c), json!({"rule": rule, "output": c}));
                    }
                    let is_mixed = rule.contains("\"foo\", ");
                    let touched: Vec<String> = trace.iter().filter(|t| normalize(Path::new(t.path())) != "e.scss").map(|t| format!("{:?}", t)).collect();
                    if !is_mixed && (!touched.is_empty() || c.contains("from:")) {
                        ctx.violation(sub, &format!("plain-import-loads:{}:{}", rule, with_files), &format!("plain-CSS import caused file-system calls / loading: {:?}", touched), json!({"rule": rule, "output": c}));
                    }
                }
                other => ctx.violation(sub, &format!("plain-import:{}:{}", rule, with_files), &format!("plain-CSS import failed: {}", other.brief()), json!({"rule": rule})),
            }
        },
    );
    ctx.bound(sub, "11 plain-CSS import forms x {no files, decoy candidate files present}", true);
    ctx.sample(sub, json!({"rule": "@import \"foo\" screen;", "expected": "emitted as CSS, no Fs call"}));
    ctx.assume("the in-memory Fs normalises paths lexically; the process runs inside a scratch directory on the real disk that holds decoy files with a REALDISK marker");
    let _ = std::env::set_current_dir(&ctx.root);
}
