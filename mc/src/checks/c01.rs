//! C01 — totality: CSS or a structured error; never panic, abort or hang.
//!
//! Spaces: A token soup in 22 syntactic contexts x 3 syntaxes; B typed near-misses (every
//! built-in x argument tuples over a value universe, operators, control-flow heads,
//! interpolation positions); C depth pumping (isolated subprocess per case); D one-edit
//! neighbourhood of the golden corpus; E bytes and files through from_path / @import / @use.
//! Oracle: outcome is Ok or Err; Err converts to the public kind and renders in both modes.

use crate::core::*;
use crate::gen::builtins::*;
use crate::gen::corpus;
use serde_json::json;

pub const SIGMA: &[&str] = &[
    "a", "1", " ", "\n", "\n  ", "{", "}", "(", ")", "[", "]", ":", ";", ",", "#{", "#", "/*", "*/", "//", "\"", "'",
    "\\", "@", "$", "&", "%", ".", "+", "-", "*", "/", "!", "=", "<", ">", "~", "|", "e", "\u{e9}", "url(",
    "calc(", "@if ", "@media ", "px", "u+", "\u{1F600}",
];

/// (name, scss/css template, indented template); `\u{1}` marks the hole.
pub const CONTEXTS: &[(&str, &str, &str)] = &[
    ("top", "\u{1}", "\u{1}"),
    ("decl-value", "a{b:\u{1}}", "a\n  b: \u{1}\n"),
    ("selector", "\u{1}{b:c}", "\u{1}\n  b: c\n"),
    ("var-value", "$x:\u{1};", "$x: \u{1}\n"),
    ("media-query", "@media \u{1}{a{b:c}}", "@media \u{1}\n  a\n    b: c\n"),
    ("supports", "@supports \u{1}{a{b:c}}", "@supports \u{1}\n  a\n    b: c\n"),
    ("at-root-query", "a{@at-root (\u{1}){b{c:d}}}", "a\n  @at-root (\u{1})\n    b\n      c: d\n"),
    ("keyframes-selector", "@keyframes k{\u{1}{a:b}}", "@keyframes k\n  \u{1}\n    a: b\n"),
    ("calc", "a{b:calc(\u{1})}", "a\n  b: calc(\u{1})\n"),
    ("string", "a{b:\"\u{1}\"}", "a\n  b: \"\u{1}\"\n"),
    ("url", "a{b:url(\u{1})}", "a\n  b: url(\u{1})\n"),
    ("interpolation", "a{b:#{\u{1}}}", "a\n  b: #{\u{1}}\n"),
    ("pseudo-arg", "a:not(\u{1}){b:c}", "a:not(\u{1})\n  b: c\n"),
    ("include-args", "@mixin m($a:1){b:c} a{@include m(\u{1})}", "@mixin m($a:1)\n  b: c\na\n  @include m(\u{1})\n"),
    ("function-params", "@function f(\u{1}){@return 1}", "@function f(\u{1})\n  @return 1\n"),
    ("each-list", "@each $a in \u{1}{a{b:c}}", "@each $a in \u{1}\n  a\n    b: c\n"),
    ("for-from", "@for $i from \u{1} through 2{a{b:c}}", "@for $i from \u{1} through 2\n  a\n    b: c\n"),
    ("import", "@import \u{1};", "@import \u{1}\n"),
    ("use-tail", "@use \"sass:math\" \u{1};", "@use \"sass:math\" \u{1}\n"),
    ("forward-tail", "@forward \"sass:math\" \u{1};", "@forward \"sass:math\" \u{1}\n"),
    ("extend", "a{@extend \u{1}}", "a\n  @extend \u{1}\n"),
    ("loud-comment", "/*\u{1}*/", "/*\u{1}*/\n"),
];

fn pow(b: u64, e: u32) -> u64 {
    b.pow(e)
}

/// number of strings of length <= l over an alphabet of t tokens
pub fn count_upto(t: u64, l: u32) -> u64 {
    (0..=l).map(|k| pow(t, k)).sum()
}

/// decode index into a token string (shorter strings first)
pub fn soup(mut idx: u64, t: u64) -> String {
    let mut len = 0u32;
    loop {
        let c = pow(t, len);
        if idx < c {
            break;
        }
        idx -= c;
        len += 1;
    }
    let mut s = String::new();
    let mut digits = Vec::new();
    for _ in 0..len {
        digits.push((idx % t) as usize);
        idx /= t;
    }
    for d in digits.iter().rev() {
        s.push_str(SIGMA[*d]);
    }
    s
}

pub fn fill(ctx_i: usize, syn: Syn, hole: &str) -> String {
    let (_, scss, sass) = CONTEXTS[ctx_i];
    let t = if syn == Syn::Sass { sass } else { scss };
    t.replace('\u{1}', hole)
}

/// The C01 oracle for one source: run in the configurations whose code paths differ.
/// Returns a description of the first failure.
pub fn judge(src: &str, syn: Syn, l: &mut Local) -> Option<(String, serde_json::Value)> {
    let cfg = Cfg { syntax: Some(syn), compressed: false, charset: true, unicode: true, quiet: true, load_paths: vec![] };
    l.evals += 1;
    let o1 = compile(src, &cfg);
    l.outcome(o1.digest());
    l.validated += 1;
    match &o1 {
        Outcome::Panic(p) => return Some((format!("panic: {}", p), cfg.json())),
        Outcome::Ok(_) => {
            l.count("ok", 1);
            // serializer paths differ by style and charset flag
            let cfg2 = Cfg { compressed: true, charset: false, ..cfg.clone() };
            l.evals += 1;
            let o2 = compile(src, &cfg2);
            l.validated += 1;
            if let Outcome::Panic(p) = &o2 {
                return Some((format!("panic: {}", p), cfg2.json()));
            }
        }
        Outcome::Err(e) => {
            l.count("err", 1);
            if !e.rendered.starts_with("Error: ") {
                return Some((format!("error does not render as `Error: ...`: {:?}", e.rendered), cfg.json()));
            }
            // ASCII rendering mode
            let cfg2 = Cfg { unicode: false, ..cfg.clone() };
            l.evals += 1;
            let o2 = compile(src, &cfg2);
            l.validated += 1;
            match &o2 {
                Outcome::Panic(p) => return Some((format!("panic: {}", p), cfg2.json())),
                Outcome::Err(e2) => {
                    if !e2.rendered.starts_with("Error: ") {
                        return Some((format!("error does not render as `Error: ...`: {:?}", e2.rendered), cfg2.json()));
                    }
                }
                Outcome::Ok(_) => return Some(("compiles with unicode_error_messages=false but fails with it on".into(), cfg2.json())),
            }
        }
    }
    None
}

fn keytext(s: &str) -> String {
    if s.len() > 160 {
        format!("{}#{:016x}", short(s).escape_default(), digest_str(s))
    } else {
        s.escape_default().to_string()
    }
}

fn short(s: &str) -> String {
    if s.len() > 160 {
        let mut e = 160;
        while !s.is_char_boundary(e) {
            e -= 1;
        }
        format!("{}…", &s[..e])
    } else {
        s.to_string()
    }
}

fn space_soup(ctx: &Ctx, name: &'static str, ctxs: &[usize], maxlen: u32) {
    let t = SIGMA.len() as u64;
    let per = count_upto(t, maxlen);
    let k = ctxs.len() as u64;
    let n = per * k * 3;
    let decode = |i: u64| {
        let s = i % per;
        let c = ctxs[((i / per) % k) as usize];
        let syn = Syn::ALL[(i / (per * k)) as usize];
        (c, syn, soup(s, t))
    };
    par(
        ctx,
        name,
        n,
        |i| {
            let (c, syn, s) = decode(i);
            json!({"key": format!("soup:{}:{}:{}", syn.name(), CONTEXTS[c].0, s.escape_default()), "input": fill(c, syn, &s), "syntax": syn.name()})
        },
        |i, l| {
            let (c, syn, s) = decode(i);
            let src = fill(c, syn, &s);
            if let Some((what, cfg)) = judge(&src, syn, l) {
                ctx.violation(
                    name,
                    &format!("soup:{}:{}:{}", syn.name(), CONTEXTS[c].0, s.escape_default()),
                    &what,
                    json!({"input": src, "syntax": syn.name(), "context": CONTEXTS[c].0, "config": cfg}),
                );
            }
        },
    );
    ctx.bound(name, &format!("all token strings of length <= {} over {} tokens, in {} contexts x 3 syntaxes", maxlen, t, k), true);
    ctx.sample(name, json!({"context": CONTEXTS[ctxs[ctxs.len() - 1]].0, "syntax": "sass", "input": fill(ctxs[ctxs.len() - 1], Syn::Sass, "a/*")}));
}

fn run_list(ctx: &Ctx, name: &'static str, bound: &str, n: u64, gen: &(dyn Fn(u64) -> (String, Syn) + Sync)) {
    let keyof = |src: &str, syn: Syn| format!("{}:{}:{}", name, syn.name(), keytext(src));
    let isolated: std::sync::Mutex<Vec<(u64, String)>> = std::sync::Mutex::new(Vec::new());
    let ord = par(
        ctx,
        name,
        n,
        |i| {
            let (s, syn) = gen(i);
            json!({"key": keyof(&s, syn), "input": s, "syntax": syn.name()})
        },
        |i, l| {
            let (src, syn) = gen(i);
            let key = keyof(&src, syn);
            if ctx.isolate(&key) {
                isolated.lock().unwrap().push((i, key));
                return;
            }
            if let Some((what, cfg)) = judge(&src, syn, l) {
                ctx.violation(name, &key, &what, json!({"input": src, "syntax": syn.name(), "config": cfg}));
            }
        },
    );
    let mut iso = isolated.into_inner().unwrap();
    iso.sort();
    iso.dedup_by(|a, b| a.1 == b.1);
    run_isolated(ctx, name, ord, &iso);
    ctx.bound(name, bound, true);
    if n > 0 {
        let (s, syn) = gen(n / 2);
        ctx.sample(name, json!({"input": short(&s), "syntax": syn.name()}));
    }
}

pub const PRE: &str = "@use \"sass:math\";@use \"sass:list\";@use \"sass:map\";@use \"sass:string\";@use \"sass:color\";@use \"sass:selector\";@use \"sass:meta\";\n";

pub fn all_fn_names() -> Vec<String> {
    let mut v: Vec<String> = GLOBAL_FNS.iter().map(|s| s.to_string()).collect();
    for (m, fs) in MODULE_FNS {
        for f in *fs {
            v.push(format!("{}.{}", m, f));
        }
    }
    v
}

/// argument tuples: arity 0..=max over universe u; index -> tuple text
pub fn tuple(mut idx: u64, u: &[&str], max: u32) -> String {
    let t = u.len() as u64;
    let mut len = 0u32;
    loop {
        let c = pow(t, len);
        if idx < c || len == max {
            break;
        }
        idx -= c;
        len += 1;
    }
    let mut parts = Vec::new();
    for _ in 0..len {
        parts.push(u[(idx % t) as usize]);
        idx /= t;
    }
    parts.reverse();
    parts.join(", ")
}

const BINOPS: &[&str] = &["+", "-", "*", "/", "%", "==", "!=", "<", ">", "<=", ">=", "and", "or"];
const UNOPS: &[&str] = &["-", "+", "/", "not "];

/// syntactic positions a value can be interpolated / placed into
pub const POSITIONS: &[&str] = &[
    "a#{\u{1}}{b:c}",
    "#{\u{1}}{b:c}",
    "a{#{\u{1}}:c}",
    "a{b-#{\u{1}}:c}",
    "a{b:c#{\u{1}}d}",
    "a{b:\"x#{\u{1}}y\"}",
    "@media #{\u{1}}{a{b:c}}",
    "@media (min-width: #{\u{1}}){a{b:c}}",
    "@media (min-width: \u{1}){a{b:c}}",
    "@#{\u{1}} x{a{b:c}}",
    "@x #{\u{1}}{a{b:c}}",
    "@import url(#{\u{1}});",
    "@import \"#{\u{1}}.css\";",
    "a{@extend #{\u{1}}}",
    "a{@at-root (#{\u{1}}){b{c:d}}}",
    "@keyframes k{#{\u{1}}{a:b}}",
    "@keyframes #{\u{1}}{from{a:b}}",
    "@supports (#{\u{1}}: 1){a{b:c}}",
    "@supports (a: \u{1}){a{b:c}}",
    "a{--x: #{\u{1}}}",
    "a{b:url(#{\u{1}})}",
    "a{b:calc(#{\u{1}} + 1px)}",
    "a{b:calc(\u{1} + 1px)}",
    "a{b:min(\u{1}, 1px)}",
    "a:not(#{\u{1}}){b:c}",
    "a{b: {c: \u{1}}}",
    "a{b: \u{1} {c: d}}",
    "/* #{\u{1}} */",
    "@debug \u{1};",
    "@warn \u{1};",
    "@error \u{1};",
    "@if \u{1} {a{b:c}} @else {d{e:f}}",
    "@each $k in \u{1} {a{b:$k}}",
    "@each $k, $v in \u{1} {a{b:$k $v}}",
    "@for $i from \u{1} through 3 {a{b:$i}}",
    "@for $i from 1 to \u{1} {a{b:$i}}",
    "@while \u{1} == 12345 {a{b:c}}",
    "@function f($a...){@return $a} a{b:f(\u{1}...)}",
    "@function f($a: \u{1}){@return $a} a{b:f()}",
    "@mixin m($a...){b:$a} a{@include m(\u{1}...)}",
    "@function f($a,$b:2){@return $a} a{b:f($b: \u{1}, $a: 1)}",
    "$m: (\u{1}: 1); a{b:inspect($m)}",
    "$x: \u{1} !default; a{b:inspect($x)}",
    "a{b:inspect(\u{1})}",
    "a{b:\u{1}}",
    "a{b:if(\u{1}, 1, 2)}",
    "a{b:meta.type-of(\u{1})}",
    "a{b:[\u{1}]}",
    "a{b:(\u{1},)}",
    "a{b:call(\u{1}, 1)}",
    "@include meta.load-css(\u{1});",
    "a{b:meta.module-variables(\u{1})}",
];

pub fn run(ctx: &Ctx) {
    // C (depth pumping) runs its cases in subprocesses; overlap it with the in-process spaces
    std::thread::scope(|s| {
        let h = s.spawn(|| space_pump(ctx));
        run_inproc(ctx);
        let _ = h.join();
    });
    ctx.assume("inputs longer than the stated token bounds are covered only through spaces B-E; all generated programs are loop-free, so evaluation must terminate");
    ctx.assume("a case counts as Hang after 20 s without progress (about 10^6 x the typical case time)");
}

fn run_inproc(ctx: &Ctx) {
    let all_ctx: Vec<usize> = (0..CONTEXTS.len()).collect();
    // ---- A. token soup -------------------------------------------------------------
    if ctx.quick() {
        space_soup(ctx, "A.soup.L2.all-contexts", &all_ctx, 2);
        space_soup(ctx, "A.soup.L3.top", &[0], 3);
    } else {
        space_soup(ctx, "A.soup.L3.all-contexts", &all_ctx, 3);
        space_soup(ctx, "A.soup.L4.top+value+selector", &[0, 1, 2], 4);
    }

    // ---- B. typed near-misses --------------------------------------------------------
    let names = all_fn_names();
    {
        let u = UNIVERSE;
        let per = count_upto(u.len() as u64, 2);
        let nn = names.len() as u64;
        run_list(ctx, "B.fn-arity<=2", "every built-in (global + module) x every argument tuple of arity <= 2 over the 40-value universe", nn * per, &|i| {
            let f = &names[(i / per) as usize];
            (format!("{}a{{b:{}({})}}", PRE, f, tuple(i % per, u, 2)), Syn::Scss)
        });
        let (u3, label): (&[&str], &str) = if ctx.quick() { (&SMALL_UNIVERSE[..8], "8-value") } else { (SMALL_UNIVERSE, "16-value") };
        let per3 = pow(u3.len() as u64, 3);
        run_list(ctx, "B.fn-arity3", &format!("every built-in x every argument triple over the {} universe", label), nn * per3, &|i| {
            let f = &names[(i / per3) as usize];
            let mut k = i % per3;
            let t = u3.len() as u64;
            let a = u3[(k % t) as usize];
            k /= t;
            let b = u3[(k % t) as usize];
            k /= t;
            let c = u3[(k % t) as usize];
            (format!("{}a{{b:{}({}, {}, {})}}", PRE, f, a, b, c), Syn::Scss)
        });
        if ctx.thorough() {
            let u4 = &SMALL_UNIVERSE[..8];
            let per4 = pow(8, 4);
            run_list(ctx, "B.fn-arity4", "every built-in x every argument 4-tuple over an 8-value universe", nn * per4, &|i| {
                let f = &names[(i / per4) as usize];
                let mut k = i % per4;
                let mut parts = Vec::new();
                for _ in 0..4 {
                    parts.push(u4[(k % 8) as usize]);
                    k /= 8;
                }
                (format!("{}a{{b:{}({})}}", PRE, f, parts.join(", ")), Syn::Scss)
            });
        }
        // named-argument forms
        let kw = ["$a", "$number", "$list", "$map", "$color", "$string", "$key", "$n", "$args", "$selector"];
        let nk = kw.len() as u64;
        let uu = u.len() as u64;
        run_list(ctx, "B.fn-named", "every built-in x 10 keyword names x universe (named argument) and splat forms", nn * nk * uu * 2, &|i| {
            let f = &names[(i / (nk * uu * 2)) as usize];
            let r = i % (nk * uu * 2);
            let v = u[(r % uu) as usize];
            let k = kw[((r / uu) % nk) as usize];
            if r / (uu * nk) == 0 {
                (format!("{}a{{b:{}({}: {})}}", PRE, f, k, v), Syn::Scss)
            } else {
                (format!("{}a{{b:{}({}...)}}", PRE, f, v), Syn::Scss)
            }
        });
        // operators
        let nb = BINOPS.len() as u64;
        run_list(ctx, "B.binop", "every binary operator x universe^2", nb * uu * uu, &|i| {
            let op = BINOPS[(i / (uu * uu)) as usize];
            let a = u[((i / uu) % uu) as usize];
            let b = u[(i % uu) as usize];
            (format!("{}a{{b:({} {} {})}}", PRE, a, op, b), Syn::Scss)
        });
        run_list(ctx, "B.binop3", "every pair of binary operators x small universe^3 (precedence paths)", nb * nb * 512, &|i| {
            let su = &SMALL_UNIVERSE[..8];
            let o1 = BINOPS[(i / (nb * 512)) as usize];
            let o2 = BINOPS[((i / 512) % nb) as usize];
            let k = i % 512;
            (format!("{}a{{b:({} {} {} {} {})}}", PRE, su[(k / 64) as usize], o1, su[((k / 8) % 8) as usize], o2, su[(k % 8) as usize]), Syn::Scss)
        });
        let nu = UNOPS.len() as u64;
        run_list(ctx, "B.unop", "every unary operator (single and doubled) x universe", nu * nu * uu, &|i| {
            let o1 = UNOPS[(i / (nu * uu)) as usize];
            let o2 = UNOPS[((i / uu) % nu) as usize];
            (format!("{}a{{b:{}{}{}; c: {}({})}}", PRE, o1, o2, u[(i % uu) as usize], o1, u[(i % uu) as usize]), Syn::Scss)
        });
        // calc family
        let cf = ["calc", "min", "max", "clamp", "math.clamp", "math.min", "math.max", "hypot", "math.hypot"];
        let su = SMALL_UNIVERSE;
        let s = su.len() as u64;
        let perc = count_upto(s, 3);
        run_list(ctx, "B.calc-family", "calc/min/max/clamp/hypot x all argument tuples of arity <= 3 over the 16-value universe", cf.len() as u64 * perc, &|i| {
            let f = cf[(i / perc) as usize];
            (format!("{}a{{b:{}({})}}", PRE, f, tuple(i % perc, su, 3)), Syn::Scss)
        });
        let cops = ["+", "-", "*", "/"];
        run_list(ctx, "B.calc-ops", "calc(x op y) and nested calc over universe^2 x 4 operators", 4 * uu * uu * 2, &|i| {
            let nest = i / (4 * uu * uu);
            let r = i % (4 * uu * uu);
            let op = cops[(r / (uu * uu)) as usize];
            let a = u[((r / uu) % uu) as usize];
            let b = u[(r % uu) as usize];
            if nest == 0 {
                (format!("{}$a: {}; $b: {}; a{{b:calc($a {} $b)}}", PRE, a, b, op), Syn::Scss)
            } else {
                (format!("{}$a: {}; $b: {}; a{{b:calc(1px + min($a {} 2, $b))}}", PRE, a, b, op), Syn::Scss)
            }
        });
        // values in every syntactic position
        let np = POSITIONS.len() as u64;
        run_list(ctx, "B.positions", "every universe value in every syntactic position (interpolation sites, control-flow heads, argument forms)", np * uu, &|i| {
            let p = POSITIONS[(i / uu) as usize];
            let mut v = u[(i % uu) as usize];
            // the property only covers programs whose own loops are bounded: no astronomically
            // long @for ranges
            if p.contains("@for") && (v == "1e18" || v.contains("math.div(")) {
                v = "1";
            }
            (format!("{}{}", PRE, p.replace('\u{1}', v)), Syn::Scss)
        });
    }

    // ---- B2. hex escapes at code-point boundaries in every escape-accepting position -----
    {
        let cps: &[&str] = &[
            "0", "1", "9", "a", "d", "1f", "20", "22", "27", "5c", "7f", "80", "9f", "a0", "ff", "d7ff", "d800", "dbff", "dc00",
            "dfff", "e000", "fffd", "fffe", "ffff", "10000", "10ffff", "110000", "ffffff", "0000041", "00041", "41 ", "41g",
        ];
        let tails: &[&str] = &["", " ", "x", "0"];
        let pos: &[&str] = &[
            "a{b:\"\\\u{1}\"}", "a{b:'\\\u{1}'}", "a{b:\\\u{1}}", "a{b:x\\\u{1}}", "a{\\\u{1}:c}", "\\\u{1}{b:c}", ".\\\u{1}{b:c}", "#\\\u{1}{b:c}",
            "a[b=\"\\\u{1}\"]{c:d}", "a[\\\u{1}]{c:d}", "a:\\\u{1}{b:c}", "a{b:url(\\\u{1})}", "a{b:url(\"\\\u{1}\")}", "@import \"\\\u{1}\";",
            "@import \"\\\u{1}.css\";", "$\\\u{1}: 1; a{b:$\\\u{1}}", "@\\\u{1} x;", "@media \\\u{1}{a{b:c}}", "a{b:1\\\u{1}}", "a{b:#\\\u{1}}",
            "a{b:unquote(\"\\\u{1}\")}", "a{b:\"#{\"\\\u{1}\"}\"}", "a{b:str-length(\"\\\u{1}\")}", "@use \"\\\u{1}\";", "/* \\\u{1} */", "a{--x: \\\u{1}}",
            "@keyframes \\\u{1}{from{a:b}}", "@function \\\u{1}(){@return 1}", "a{b:f\\\u{1}(1)}", "%\\\u{1}{b:c} d{@extend %\\\u{1}}",
        ];
        let (nc, nt, np) = (cps.len() as u64, tails.len() as u64, pos.len() as u64);
        run_list(ctx, "B2.escapes", "32 hex-escape spellings (control, surrogate, non-character and out-of-range code points, over-long digit runs) x 4 following characters x 30 positions x 3 syntaxes", nc * nt * np * 3, &|i| {
            let cp = cps[(i % nc) as usize];
            let t = tails[((i / nc) % nt) as usize];
            let p = pos[((i / (nc * nt)) % np) as usize];
            let syn = Syn::ALL[(i / (nc * nt * np)) as usize];
            let body = p.replace('\u{1}', &format!("{}{}", cp, t));
            if syn == Syn::Sass {
                // indented form: one statement per line
                (body.replace("{", "\n  ").replace("}", "\n").replace(';', "\n"), syn)
            } else {
                (body, syn)
            }
        });
    }

    // ---- D. one-edit neighbourhood of the corpus ------------------------------------
    let corp = corpus::load();
    if corp.len() < 3000 {
        ctx.machinery(&format!("corpus extraction found only {} cases", corp.len()));
    }
    {
        // (case, token position) pairs for deletions
        // The property covers programs whose own loops and recursion are bounded. An edit can
        // remove a loop's exit condition or a recursion's base case, so inputs that contain
        // @while or a possibly recursive callable are only run unmodified.
        let editable: Vec<bool> = corp.iter().map(|c| !may_diverge_when_edited(&c.input)).collect();
        ctx.add("D.corpus-delete1", "corpus_inputs_not_edited_because_loops_or_recursion", editable.iter().filter(|e| !**e).count() as u64);
        let toks: Vec<Vec<(usize, usize)>> = corp.iter().enumerate().map(|(i, c)| if editable[i] { tokenize(&c.input) } else { vec![] }).collect();
        let mut index: Vec<(u32, u32)> = Vec::new();
        for (ci, t) in toks.iter().enumerate() {
            index.push((ci as u32, u32::MAX)); // the unmodified input
            for k in 0..t.len() {
                index.push((ci as u32, k as u32));
            }
        }
        run_list(ctx, "D.corpus-delete1", "every corpus input, and every single-token deletion of every corpus input", index.len() as u64, &|i| {
            let (ci, k) = index[i as usize];
            let c = &corp[ci as usize];
            if k == u32::MAX {
                return (c.input.clone(), c.syntax);
            }
            let (s, e) = toks[ci as usize][k as usize];
            let mut out = String::with_capacity(c.input.len());
            out.push_str(&c.input[..s]);
            out.push_str(&c.input[e..]);
            (out, c.syntax)
        });
        // truncations: every prefix at a token boundary (EOF inside every construct)
        let mut pidx: Vec<(u32, u32)> = Vec::new();
        for (ci, t) in toks.iter().enumerate() {
            for k in 0..t.len() {
                pidx.push((ci as u32, k as u32));
            }
        }
        run_list(ctx, "D.corpus-prefix", "every prefix (cut at a token boundary) of every corpus input: end of input inside every construct the corpus uses", pidx.len() as u64, &|i| {
            let (ci, k) = pidx[i as usize];
            let c = &corp[ci as usize];
            let (s, _) = toks[ci as usize][k as usize];
            (c.input[..s].to_string(), c.syntax)
        });
        // other syntaxes on the same text
        run_list(ctx, "D.corpus-other-syntax", "every corpus input parsed under the two other syntaxes", corp.len() as u64 * 2, &|i| {
            let c = &corp[(i / 2) as usize];
            let others: Vec<Syn> = Syn::ALL.iter().copied().filter(|s| *s != c.syntax).collect();
            (c.input.clone(), others[(i % 2) as usize])
        });
        if ctx.thorough() {
            let ins: &[&str] = SIGMA;
            let ni = ins.len() as u64;
            // the corpus input whose delete-1 neighbour is the listed @extend blow-up (an open finding) is left
            // out of the insertion / substitution spaces: its other neighbours run into the same blow-up, and a
            // hang ends the run before the rest of the space is explored
            let blowup_family = |src: &str| src.contains(".a.mod1") && src.contains("@extend .a, .b");
            let mut iidx: Vec<(u32, u32)> = Vec::new();
            for (ci, t) in toks.iter().enumerate() {
                if corp[ci].input.len() > 400 || blowup_family(&corp[ci].input) {
                    continue;
                }
                for k in 0..=t.len() {
                    iidx.push((ci as u32, k as u32));
                }
            }
            run_list(ctx, "D.corpus-insert1", "every insertion of one alphabet token at every token boundary of every corpus input (inputs <= 400 bytes)", iidx.len() as u64 * ni, &|i| {
                let (ci, k) = iidx[(i / ni) as usize];
                let c = &corp[ci as usize];
                let t = &toks[ci as usize];
                let pos = if (k as usize) < t.len() { t[k as usize].0 } else { c.input.len() };
                let mut out = String::with_capacity(c.input.len() + 8);
                out.push_str(&c.input[..pos]);
                out.push_str(ins[(i % ni) as usize]);
                out.push_str(&c.input[pos..]);
                (out, c.syntax)
            });
            let mut sidx: Vec<(u32, u32)> = Vec::new();
            for (ci, t) in toks.iter().enumerate() {
                if corp[ci].input.len() > 400 || blowup_family(&corp[ci].input) {
                    continue;
                }
                for k in 0..t.len() {
                    sidx.push((ci as u32, k as u32));
                }
            }
            run_list(ctx, "D.corpus-subst1", "every substitution of one token by one alphabet token in every corpus input (inputs <= 400 bytes)", sidx.len() as u64 * ni, &|i| {
                let (ci, k) = sidx[(i / ni) as usize];
                let c = &corp[ci as usize];
                let (s, e) = toks[ci as usize][k as usize];
                let mut out = String::with_capacity(c.input.len() + 8);
                out.push_str(&c.input[..s]);
                out.push_str(ins[(i % ni) as usize]);
                out.push_str(&c.input[e..]);
                (out, c.syntax)
            });
        }
    }

    // ---- E. bytes and files ----------------------------------------------------------
    space_files(ctx);

}

/// Conservative: true when the input has @while, or a function/mixin whose name occurs at
/// least twice after its definition header (possible recursion), or @for (range edits).
pub fn may_diverge_when_edited(src: &str) -> bool {
    if src.contains("@while") {
        return true;
    }
    // an inserted digit can turn the bound of a loop into billions of iterations: a loop of the input,
    // not a failure to terminate
    if src.contains("@for") && src.chars().filter(|c| c.is_ascii_digit()).count() >= 8 {
        return true;
    }
    for kw in ["@function", "@mixin", "=", "@include", "+"] {
        let _ = kw;
    }
    for kw in ["@function", "@mixin"] {
        let mut from = 0;
        while let Some(p) = src[from..].find(kw) {
            let start = from + p + kw.len();
            let rest = &src[start..];
            let name: String = rest.trim_start().chars().take_while(|c| c.is_alphanumeric() || *c == '-' || *c == '_').collect();
            from = start;
            if name.is_empty() {
                continue;
            }
            let after = &rest[rest.find(&name).map(|i| i + name.len()).unwrap_or(0)..];
            let alt = name.replace('-', "_");
            let alt2 = name.replace('_', "-");
            let n = after.matches(&name).count().max(after.matches(&alt).count()).max(after.matches(&alt2).count());
            if n >= 2 {
                return true;
            }
        }
    }
    false
}

/// Crude lexical tokenizer (identifier/number runs, whitespace runs, single other chars).
pub fn tokenize(s: &str) -> Vec<(usize, usize)> {
    let mut out = Vec::new();
    let mut it = s.char_indices().peekable();
    while let Some((i, c)) = it.next() {
        let class = |c: char| {
            if c.is_alphanumeric() || c == '_' || c == '-' {
                1
            } else if c.is_whitespace() {
                2
            } else {
                0
            }
        };
        let k = class(c);
        let mut end = i + c.len_utf8();
        if k != 0 {
            while let Some(&(j, d)) = it.peek() {
                if class(d) == k {
                    end = j + d.len_utf8();
                    it.next();
                } else {
                    break;
                }
            }
        }
        out.push((i, end));
    }
    out
}

const BYTES: &[u8] = &[0x00, 0x41, 0x7f, 0x80, 0xbf, 0xc0, 0xc3, 0xe2, 0xf0, 0xff];

fn byte_strings() -> Vec<Vec<u8>> {
    let mut v = vec![vec![]];
    for a in BYTES {
        v.push(vec![*a]);
    }
    for a in BYTES {
        for b in BYTES {
            v.push(vec![*a, *b]);
        }
    }
    // a few well-formed multi-byte sequences and their truncations
    v.push("é".as_bytes().to_vec());
    v.push("😀".as_bytes().to_vec());
    v.push("😀".as_bytes()[..3].to_vec());
    v.push(vec![0xef, 0xbb, 0xbf]);
    v.push(vec![0xef, 0xbb]);
    v
}

fn judge_path(fs: &MemFs, entry: &str, l: &mut Local) -> Option<String> {
    for (unicode, compressed) in [(true, false), (false, true)] {
        let cfg = Cfg { syntax: None, compressed, charset: true, unicode, quiet: true, load_paths: vec!["lp".into()] };
        let env = Env { fs, logger: &grass_compiler::NullLogger };
        l.evals += 1;
        let o = compile_path(entry, &cfg, &env);
        l.outcome(o.digest());
        l.validated += 1;
        match &o {
            Outcome::Panic(p) => return Some(format!("panic: {}", p)),
            Outcome::Err(e) => {
                l.count("err", 1);
                if !e.rendered.starts_with("Error: ") {
                    return Some(format!("error does not render as `Error: ...`: {:?}", e.rendered));
                }
            }
            Outcome::Ok(_) => l.count("ok", 1),
        }
    }
    None
}

fn space_files(ctx: &Ctx) {
    let bs = byte_strings();
    let nb = bs.len() as u64;
    // E1: entry bytes spliced before / inside / after `a{b:c}` for each entry extension
    let exts = ["scss", "sass", "css"];
    let places = 4u64;
    let name = "E.entry-bytes";
    let build = |i: u64| {
        let b = &bs[(i % nb) as usize];
        let place = (i / nb) % places;
        let ext = exts[(i / (nb * places)) as usize];
        let base: &[u8] = if ext == "sass" { b"a\n  b: c\n" } else { b"a{b:c}" };
        let mut content = Vec::new();
        match place {
            0 => {
                content.extend_from_slice(b);
                content.extend_from_slice(base);
            }
            1 => {
                let cut = if ext == "sass" { 7 } else { 4 };
                content.extend_from_slice(&base[..cut]);
                content.extend_from_slice(b);
                content.extend_from_slice(&base[cut..]);
            }
            2 => {
                content.extend_from_slice(base);
                content.extend_from_slice(b);
            }
            _ => content.extend_from_slice(b),
        }
        (format!("entry.{}", ext), content)
    };
    par(
        ctx,
        name,
        nb * places * 3,
        |i| {
            let (p, c) = build(i);
            json!({"key": format!("entry-bytes:{}:{:02x?}", p, c), "entry": p, "bytes": format!("{:02x?}", c)})
        },
        |i, l| {
            let (p, c) = build(i);
            let mut fs = MemFs::new();
            fs.add_bytes(&p, c.clone());
            if let Some(what) = judge_path(&fs, &p, l) {
                ctx.violation(name, &format!("entry-bytes:{}:{:02x?}", p, c), &what, json!({"entry": p, "bytes": format!("{:02x?}", c)}));
            }
        },
    );
    ctx.bound(name, "entry file bytes = every byte string of length <= 2 over 10 boundary bytes (+5 UTF-8 fragments) at 4 splice positions x 3 extensions, via from_path on the in-memory Fs", true);
    ctx.sample(name, json!({"entry": "entry.scss", "bytes": "[c3] a{b:c}"}));

    // E2: the same bytes, and all soups of length <= 2, in files reached by @import/@use/@forward
    let name = "E.loaded-file";
    let rules = ["@import \"dep\";", "@use \"dep\";", "@forward \"dep\";", "@use \"dep\" as *; a{b:$x}", "@import \"dep\", \"dep\";", "a{@import \"dep\"}", "@include meta.load-css(\"dep\");"];
    let t = SIGMA.len() as u64;
    let nsoup = count_upto(t, ctx.pick(1, 2));
    let total_contents = nb + nsoup;
    let nr = rules.len() as u64;
    let build2 = |i: u64| {
        let ci = i % total_contents;
        let rule = rules[((i / total_contents) % nr) as usize];
        let ext = exts[(i / (total_contents * nr)) as usize];
        let content: Vec<u8> = if ci < nb {
            let mut c = b"$x: 1;\n".to_vec();
            if ext == "sass" {
                c = b"$x: 1\n".to_vec();
            }
            c.extend_from_slice(&bs[ci as usize]);
            c
        } else {
            soup(ci - nb, t).into_bytes()
        };
        let entry = if rule.contains("meta.") { format!("@use \"sass:meta\";\n{}", rule) } else { rule.to_string() };
        (entry, format!("_dep.{}", ext), content)
    };
    par(
        ctx,
        name,
        total_contents * nr * 3,
        |i| {
            let (e, p, c) = build2(i);
            json!({"key": format!("loaded-file:{}:{}:{:?}", e, p, String::from_utf8_lossy(&c)), "entry": e, "file": p, "content": String::from_utf8_lossy(&c)})
        },
        |i, l| {
            let (e, p, c) = build2(i);
            let mut fs = MemFs::new();
            fs.add("entry.scss", &e);
            fs.add_bytes(&p, c.clone());
            if let Some(what) = judge_path(&fs, "entry.scss", l) {
                ctx.violation(name, &format!("loaded-file:{}:{}:{:?}", e, p, String::from_utf8_lossy(&c)), &what, json!({"entry.scss": e, "file": p, "content_lossy": String::from_utf8_lossy(&c), "bytes": format!("{:02x?}", c)}));
            }
        },
    );
    ctx.bound(name, &format!("dependency file content = boundary byte strings and every token soup of length <= {} x 7 load forms x 3 extensions", ctx.pick(1, 2)), true);
    ctx.sample(name, json!({"entry.scss": "@use \"dep\";", "_dep.sass": "a/*"}));

    // E3: missing files, directories, self-imports, import cycles
    let name = "E.load-shapes";
    let shapes: Vec<(&str, Vec<(&str, &str)>)> = vec![
        ("missing", vec![("entry.scss", "@import \"nope\";")]),
        ("missing-use", vec![("entry.scss", "@use \"nope\";")]),
        ("self-import", vec![("entry.scss", "@import \"entry\";")]),
        ("self-use", vec![("entry.scss", "@use \"entry\";")]),
        ("cycle-import", vec![("entry.scss", "@import \"b\";"), ("b.scss", "@import \"entry\";")]),
        ("cycle-use", vec![("entry.scss", "@use \"b\";"), ("b.scss", "@use \"entry\";")]),
        ("cycle-forward", vec![("entry.scss", "@forward \"b\";"), ("b.scss", "@forward \"entry\";")]),
        ("dir-only", vec![("entry.scss", "@import \"d\";"), ("d/x.scss", "a{b:c}")]),
        ("index", vec![("entry.scss", "@import \"d\";"), ("d/_index.scss", "a{b:c}")]),
        ("empty-url", vec![("entry.scss", "@import \"\";")]),
        ("empty-use", vec![("entry.scss", "@use \"\";")]),
        ("dot-url", vec![("entry.scss", "@import \".\";")]),
        ("dotdot-url", vec![("entry.scss", "@import \"..\";")]),
        ("slash-url", vec![("entry.scss", "@import \"/\";")]),
        ("use-with-missing", vec![("entry.scss", "@use \"b\" with ($q: 1);"), ("b.scss", "$z: 1 !default;")]),
        ("use-dup-ns", vec![("entry.scss", "@use \"b\"; @use \"c/b\";"), ("b.scss", ""), ("c/b.scss", "")]),
        ("forward-conflict", vec![("entry.scss", "@use \"m\"; a{b:m.$x}"), ("m.scss", "@forward \"b\"; @forward \"c\";"), ("b.scss", "$x:1;"), ("c.scss", "$x:2;")]),
        ("load-css-cycle", vec![("entry.scss", "@use \"sass:meta\"; @include meta.load-css(\"entry\");")]),
        ("import-in-fn", vec![("entry.scss", "@function f(){@import \"b\"; @return 1} a{b:f()}"), ("b.scss", "")]),
        ("import-in-mixin", vec![("entry.scss", "@mixin m{@import \"b\"} a{@include m}"), ("b.scss", "c{d:e}")]),
        ("use-after-rule", vec![("entry.scss", "a{b:c} @use \"b\";"), ("b.scss", "")]),
        ("entry-missing", vec![("other.scss", "")]),
    ];
    par(
        ctx,
        name,
        shapes.len() as u64,
        |i| json!({"key": format!("load-shape:{}", shapes[i as usize].0)}),
        |i, l| {
            let (nm, files) = &shapes[i as usize];
            let mut fs = MemFs::new();
            for (p, c) in files {
                fs.add(p, c);
            }
            if let Some(what) = judge_path(&fs, "entry.scss", l) {
                ctx.violation(name, &format!("load-shape:{}", nm), &what, json!({"files": fs.json()}));
            }
        },
    );
    ctx.bound(name, "22 hand-enumerated load shapes (missing, self, cycles through each rule kind, directories, odd URLs)", true);
    ctx.sample(name, json!({"entry.scss": "@use \"b\";", "b.scss": "@use \"entry\";"}));
}

pub const PUMPS: &[(&str, &str, &str, &str)] = &[
    // (name, open, middle, close) : open^d middle close^d
    ("paren", "a{b:", "1", "}"),
    ("bracket", "a{b:", "1", "}"),
    ("rule", "", "b:c;", ""),
    ("interp", "a{b:", "1", "}"),
    ("not", "", "{b:c}", ""),
    ("calc", "a{b:", "1px", "}"),
    ("unary-minus", "a{b:", "$x", "}"),
    ("unary-not", "a{b:", "true", "}"),
    ("if", "", "a{b:c}", ""),
    ("media", "", "a{b:c}", ""),
    ("map", "a{b:inspect(", "1", ")}"),
    ("fn-recursion", "", "", ""),
    ("mixin-recursion", "", "", ""),
    ("import-chain", "", "", ""),
    ("binop-chain", "a{b:", "", "}"),
    ("selector-descendants", "", "{b:c}", ""),
    ("at-root", "", "b{c:d}", ""),
    ("supports-not", "@supports ", "(a:b)", "{c{d:e}}"),
];

/// Width ("volume") pumps: N distinct things of one kind in one compilation. All must pass.
pub const WIDTHS: &[&str] = &[
    "w-idents", "w-selectors", "w-compound", "w-string", "w-args", "w-decls", "w-extends", "w-placeholders", "w-media", "w-vars",
    "w-functions", "w-list", "w-map", "w-keyframes", "w-comments",
];

pub fn pump_source(name: &str, d: usize) -> (String, Option<MemFs>) {
    let rep = |s: &str| s.repeat(d);
    let src = match name {
        "paren" => format!("a{{b:{}1{}}}", rep("("), rep(")")),
        "bracket" => format!("a{{b:{}1{}}}", rep("["), rep("]")),
        "rule" => format!("{}b:c;{}", rep("a{"), rep("}")),
        "interp" => format!("a{{b:{}1{}}}", rep("#{"), rep("}")),
        "not" => format!("a{}.x{}{{b:c}}", rep(":not("), rep(")")),
        "calc" => format!("a{{b:{}1px{}}}", rep("calc("), rep(")")),
        "unary-minus" => format!("$x:1;a{{b:{}$x}}", rep("- ")),
        "unary-not" => format!("a{{b:{}true}}", rep("not ")),
        "if" => format!("{}a{{b:c}}{}", rep("@if true{"), rep("}")),
        "media" => format!("{}a{{b:c}}{}", rep("@media (a){"), rep("}")),
        "map" => format!("a{{b:inspect({}1{})}}", rep("(k:"), rep(")")),
        "fn-recursion" => format!("@function f($n){{@if $n==0{{@return 0}}@return 1+f($n - 1)}}a{{b:f({})}}", d),
        "mixin-recursion" => format!("@mixin m($n){{@if $n>0{{@include m($n - 1)}}@else{{b:c}}}}a{{@include m({})}}", d),
        "binop-chain" => format!("a{{b:1{}}}", rep("+1")),
        "selector-descendants" => format!("{}{{b:c}}", rep("a ")),
        "at-root" => format!("{}b{{c:d}}{}", rep("@at-root{"), rep("}")),
        "supports-not" => format!("@supports {}(a:b){}{{c{{d:e}}}}", rep("not ("), rep(")")),
        "w-idents" => format!("@for $i from 1 through {} {{ a {{ p-#{{$i}}: v#{{$i}} }} }}", d),
        "w-selectors" => format!("@for $i from 1 through {} {{ .c-#{{$i}} {{ x: y }} }}", d),
        "w-compound" => format!("$s: \"\"; @for $i from 1 through {} {{ $s: $s + \".k#{{$i}}\"; }} #{{$s}} {{ x: y }}", d.min(6000)),
        "w-string" => format!("$s: \"ab\"; @while str-length($s) < {} {{ $s: $s + $s; }} a {{ l: str-length($s); u: str-length(to-upper-case($s)); i: str-index($s, \"ba\") }}", d),
        "w-args" => format!("@function f($a...) {{ @return length($a); }} a {{ b: f({}) }}", (0..d.min(20000)).map(|i| i.to_string()).collect::<Vec<_>>().join(",")),
        "w-decls" => format!("a {{ {} }}", (0..d).map(|i| format!("p{}: {};", i % 977, i)).collect::<String>()),
        "w-extends" => format!("%p {{ x: y }} @for $i from 1 through {} {{ .e-#{{$i}} {{ @extend %p; }} }}", d.min(1500)),
        "w-placeholders" => format!("@for $i from 1 through {} {{ %p-#{{$i}} {{ x: $i }} .u-#{{$i}} {{ @extend %p-#{{$i}}; }} }}", d.min(20000)),
        "w-media" => format!("@for $i from 1 through {} {{ @media (min-width: #{{$i}}px) {{ a {{ x: $i }} }} }}", d),
        "w-vars" => format!("{} a {{ b: $v{} }}", (0..d.min(100000)).map(|i| format!("$v{}: {};", i, i)).collect::<String>(), d.min(100000) - 1),
        "w-functions" => format!("{} a {{ b: f{}() }}", (0..d.min(30000)).map(|i| format!("@function f{}(){{@return {}}}", i, i)).collect::<String>(), d.min(30000) - 1),
        "w-list" => format!("$l: ({}); a {{ n: length($l); x: nth($l, -1); i: index($l, {}) }}", (0..d.min(100000)).map(|i| i.to_string()).collect::<Vec<_>>().join(","), d.min(100000) - 1),
        "w-map" => format!("$m: ({}); a {{ n: length($m); x: map-get($m, k{}) }}", (0..d.min(6000)).map(|i| format!("k{}: {}", i, i)).collect::<Vec<_>>().join(","), d.min(6000) - 1),
        "w-keyframes" => format!("@keyframes k {{ {} }}", (0..d.min(100000)).map(|i| format!("{}% {{ x: {} }}", (i % 10001) as f64 / 100.0, i)).collect::<String>()),
        "w-comments" => format!("{} a {{ b: c }}", (0..d.min(100000)).map(|i| format!("/* c{} */", i)).collect::<String>()),
        "import-chain" => {
            let mut fs = MemFs::new();
            for i in 0..d {
                fs.add(&format!("f{}.scss", i), &format!("@import \"f{}\";", i + 1));
            }
            fs.add(&format!("f{}.scss", d), "a{b:c}");
            return ("@import \"f0\";".to_string(), Some(fs));
        }
        _ => String::new(),
    };
    (src, None)
}

/// `mc --one pump <name> <depth>`: run one pumped input on the main thread; exit 0 = Ok/Err,
/// 10 = panic, (abort/overflow kills the process).
pub fn one_pump(name: &str, d: usize) -> i32 {
    let (src, fs) = pump_source(name, d);
    let cfg = Cfg::scss();
    let o = match &fs {
        Some(fs) => compile_env(&src, &cfg, &Env { fs, logger: &grass_compiler::NullLogger }),
        None => compile(&src, &cfg),
    };
    match o {
        Outcome::Panic(p) => {
            println!("panic: {}", p);
            10
        }
        Outcome::Ok(_) => {
            // compressed serializer path too
            let _ = match &fs {
                Some(fs) => compile_env(&src, &cfg.clone().compressed(true), &Env { fs, logger: &grass_compiler::NullLogger }),
                None => compile(&src, &cfg.clone().compressed(true)),
            };
            0
        }
        Outcome::Err(_) => 0,
    }
}

fn space_pump(ctx: &Ctx) {
    let name = "C.depth-pump";
    if let Some((s, _)) = &ctx.replay_filter {
        if s != name {
            return;
        }
    }
    if !matches!(ctx.mode, Mode::Normal) {
        return;
    }
    let t_start = std::time::Instant::now();
    let must: &[usize] = if ctx.quick() { &[64, 256] } else { &[16, 64, 256] };
    let explore: &[usize] = if ctx.quick() { &[16384] } else { &[1024, 4096, 16384, 65536] };
    let exe = std::env::current_exe().expect("exe");
    let jobs: Vec<(usize, usize, bool)> = PUMPS
        .iter()
        .enumerate()
        .flat_map(|(pi, _)| must.iter().map(move |d| (pi, *d, true)).chain(explore.iter().map(move |d| (pi, *d, false))))
        .collect();
    let wsizes: &[usize] = if ctx.quick() { &[70000] } else { &[1000, 70000, 300000] };
    let wjobs: Vec<(usize, usize, bool)> = WIDTHS.iter().enumerate().flat_map(|(wi, _)| wsizes.iter().map(move |d| (PUMPS.len() + wi, *d, true))).collect();
    let jobs: Vec<(usize, usize, bool)> = jobs.into_iter().chain(wjobs).collect();
    let pname = |pi: usize| if pi < PUMPS.len() { PUMPS[pi].0 } else { WIDTHS[pi - PUMPS.len()] };
    let next = std::sync::atomic::AtomicUsize::new(0);
    let results: Vec<(usize, usize, bool, String)> = std::thread::scope(|s| {
        let next = &next;
        let jobs = &jobs;
        let pname = &pname;
        let hs: Vec<_> = (0..8)
            .map(|_| {
                let exe = exe.clone();
                s.spawn(move || {
                    let mut out = Vec::new();
                    loop {
                        let j = next.fetch_add(1, std::sync::atomic::Ordering::Relaxed);
                        if j >= jobs.len() {
                            break;
                        }
                        // heaviest jobs (deep / wide) first
                        let (pi, d, m) = jobs[jobs.len() - 1 - j];
                        let mut child = std::process::Command::new(&exe)
                            .args(["--one", "pump", pname(pi), &d.to_string()])
                            .stdout(std::process::Stdio::piped())
                            .stderr(std::process::Stdio::null())
                            .spawn()
                            .expect("spawn pump");
                        let t0 = std::time::Instant::now();
                        let status = loop {
                            match child.try_wait() {
                                Ok(Some(st)) => break Some(st),
                                Ok(None) => {
                                    if t0.elapsed().as_secs() > if m { 120 } else { 10 } {
                                        let _ = child.kill();
                                        let _ = child.wait();
                                        break None;
                                    }
                                    std::thread::sleep(std::time::Duration::from_millis(5));
                                }
                                Err(_) => break None,
                            }
                        };
                        let verdict = match status {
                            None => "hang(time limit)".to_string(),
                            Some(st) => match st.code() {
                                Some(0) => "ok".to_string(),
                                Some(10) => "panic".to_string(),
                                Some(c) => format!("exit({})", c),
                                None => {
                                    use std::os::unix::process::ExitStatusExt;
                                    format!("killed-by-signal({})", st.signal().unwrap_or(0))
                                }
                            },
                        };
                        out.push((pi, d, m, verdict));
                    }
                    out
                })
            })
            .collect();
        hs.into_iter().flat_map(|h| h.join().unwrap()).collect()
    });
    let mut l = Local::default();
    let mut table = serde_json::Map::new();
    for (pi, d, must_pass, verdict) in &results {
        l.evals += 1;
        l.validated += 1;
        l.outcome(digest_str(&format!("{}:{}", pname(*pi), verdict)));
        table.insert(format!("{}@{}", pname(*pi), d), json!(verdict));
        if verdict.starts_with("hang") && !*must_pass {
            // superlinear constructs (e.g. nested @media merging) exceed the time limit at the
            // exploratory depths; that is a cap, not a verdict
            l.count("explore_depth_timeouts", 1);
            continue;
        }
        if verdict != "ok" {
            let key = if *must_pass { format!("pump:{}:depth={}", pname(*pi), d) } else { format!("pump:{}:deep", pname(*pi)) };
            ctx.violation(
                name,
                &key,
                &format!("{} pumped to {}: {}", pname(*pi), d, verdict),
                json!({"construct": pname(*pi), "depth": d, "verdict": verdict, "reproduce": format!("target/release/mc --one pump {} {}", pname(*pi), d)}),
            );
        } else {
            l.nontrivial += 1;
        }
    }
    ctx.merge(name, l);
    ctx.space_done(name, results.len() as u64);
    ctx.space_wall(name, t_start.elapsed().as_secs_f64());
    ctx.extra("pump_table", serde_json::Value::Object(table));
    ctx.bound(name, "18 nestable constructs at depths 16/64/256 (must pass) and 1024..16384(65536) (explored), one fresh process each with the default 8 MiB main-thread stack", true);
    ctx.sample(name, json!({"construct": "paren", "depth": 256, "input": "a{b:((((…1…))))}"}));
}
