//! C06 — output style changes formatting only, never meaning or evaluation.
//! Every corpus input and a style-sensitivity grammar (every value kind pushed through every
//! value-to-text site) compiled expanded and compressed; canonical trees, logger messages and
//! ok/error classification must agree.

use crate::core::*;
use crate::gen::corpus;
use crate::models::canon;
use serde_json::json;

pub const VALUES: &[&str] = &[
    "0.5", "-0.5", "1.5", "0.25em", "10px", ".75", "0.99999999999", "1e-5", "100%", "red", "#f00", "#ff0000", "#abcdef", "#aabbcc", "rgb(255, 0, 0)",
    "rgba(1, 2, 3, 0.5)", "hsl(120, 50%, 50%)", "transparent", "(1, 2)", "(1 2)", "(0.5, red)", "(a: 0.5)", "\"s\"", "s", "(1/2)", "[1, 0.5]", "(1, null, 0.5)",
    "calc(0.5px + 1%)", "true", "null", "(0.5 0.25, red blue)", "darken(#f00, 0%)", "1 + 0.5", "\"\\\"\"", "\"a b\"", "#{0.5}", "rebeccapurple", "#639", "#663399",
    // identifiers ending in / containing escaped punctuation (last-declaration and block-end handling)
    "x\\;", "\\{y", "z\\}", "w\\,v",
];

pub const SITES: &[&str] = &[
    "a{b: \"#{\u{1}}\"}",
    "a{b: str-length(\"#{\u{1}}\")}",
    "a{b: str-index(\"#{\u{1}}\", \"0\")}",
    "a{b: str-slice(\"#{\u{1}}\", 1, 2)}",
    "a{b: (\"#{\u{1}}\" == \"0.5\") (\"#{\u{1}}\" == \"red\") (\"#{\u{1}}\" == \"#f00\")}",
    ".x-#{\u{1}}{b:c}",
    "a{p-#{\u{1}}: c}",
    "@media (min-width: #{\u{1}}) {a{b:c}}",
    "@x #{\u{1}} {a{b:c}}",
    "a{b: \"x\" + \u{1}}",
    "a{b: \u{1} + \"x\"}",
    "a{b: str-length(\"\" + \u{1})}",
    "a{b: x - \u{1}}",
    "a{b: x + \u{1}}",
    "a{b: str-length(x + \u{1})}",
    "a{b: -\u{1}; c: +\u{1}; d: /\u{1}}",
    "a{b: str-length(\"#{-\u{1}}\") str-length(\"#{/\u{1}}\")}",
    "a{b: c} @warn \u{1}; @debug \u{1};",
    "a{b: c} @warn \"w: #{\u{1}}\"; @debug \"d: #{\u{1}}\";",
    "a{b: c} @error \u{1};",
    "a{b: c} @error \"e: #{\u{1}}\";",
    "a{b: foo(\u{1})}",
    "a{b: str-length(\"#{foo(\u{1})}\")}",
    "a{b: url(#{\u{1}})}",
    "a{b: inspect(\u{1})}",
    "a{b: str-length(inspect(\u{1}))}",
    "@if \"#{\u{1}}\" == \"0.5\" or str-length(\"#{\u{1}}\") == 3 {a{b:c}} @else {a{b:d}}",
    "a{b: if(str-length(\"#{\u{1}}\") > 2, long, short)}",
    "a{--x: #{\u{1}}}",
    "a{b: calc(#{\u{1}} + 1px)}",
    "a{b: str-length(\"#{calc(1px + 1%) \u{1}}\")}",
    "a{b: selector-append(\".x\", \"-#{\u{1}}\")}",
    "a{b: map-get((\"#{\u{1}}\": 1), \"0.5\") map-get((\"#{\u{1}}\": 1), \".5\")}",
    "a{b: index(\"0.5\" \".5\" \"red\" \"#f00\" \"#ff0000\", \"#{\u{1}}\")}",
    "a{b: unique-id() == unique-id(); c: to-upper-case(\"#{\u{1}}\")}",
    "@each $k in (\u{1}) {a{b-#{$k}: str-length(\"#{$k}\")}}",
    "@function f($a) {@return str-length(\"#{$a}\");} a{b: f(\u{1})}",
    "@mixin m($a) {c-#{$a}: \"#{$a}\";} a{@include m(\u{1})}",
    "a{b: \u{1}}",
    "a{b: \u{1} !important; c: \u{1}, \u{1}; d: \u{1} \u{1}}",
    "a{b: type-of(\"#{\u{1}}\") length(\"#{\u{1}}\")}",
    "/* loud #{\u{1}} */ a{b:c}",
    "/*! kept #{\u{1}} */ a{b:c}",
    "a{b: str-length(quote(\u{1}))}",
    "a{@extend .x-#{\u{1}} !optional; b: c}",
    "@supports (a: #{\u{1}}) {a{b:c}}",
    "@keyframes k-#{\u{1}} {from{a:b}}",
    "a{b: \"#{\u{1}}\" + \"#{\u{1}}\"}",
];

struct Pair {
    exp: Outcome,
    cmp: Outcome,
    log_exp: Vec<LogEvent>,
    log_cmp: Vec<LogEvent>,
}

fn run_both(src: &str, syn: Syn) -> Pair {
    let le = CollectLogger::new();
    let lc = CollectLogger::new();
    let cfg = Cfg { syntax: Some(syn), quiet: false, ..Cfg::default() };
    let exp = compile_env(src, &cfg, &Env { fs: &grass_compiler::NullFs, logger: &le });
    let cmp = compile_env(src, &cfg.clone().compressed(true), &Env { fs: &grass_compiler::NullFs, logger: &lc });
    Pair { exp, cmp, log_exp: le.take(), log_cmp: lc.take() }
}

/// compare; returns (class, description)
fn judge(p: &Pair) -> Option<(&'static str, String)> {
    match (&p.exp, &p.cmp) {
        (Outcome::Panic(m), _) | (_, Outcome::Panic(m)) => return Some(("panic", format!("panic: {}", m))),
        (Outcome::Ok(_), Outcome::Err(e)) => return Some(("ok-vs-err", format!("expanded compiles, compressed fails: {}", e.message))),
        (Outcome::Err(e), Outcome::Ok(_)) => return Some(("err-vs-ok", format!("compressed compiles, expanded fails: {}", e.message))),
        // both fail: the property asks for the same classification, not the same message text
        (Outcome::Err(_), Outcome::Err(_)) => {}
        (Outcome::Ok(a), Outcome::Ok(b)) => {
            let ca = canon::canon(a, false);
            let cb = canon::canon(b, false);
            match (ca, cb) {
                (Ok(ta), Ok(tb)) => {
                    if let Some(d) = canon::first_diff(&ta, &tb) {
                        return Some(("css", format!("expanded and compressed output describe different CSS: {}", d)));
                    }
                }
                // both unreadable: the stylesheet interpolated text that is not CSS (outside the
                // property's domain of CSS-representable values) - nothing to compare structurally
                (Err(_), Err(_)) => return Some(("excluded-not-css", String::new())),
                (Err(e), _) => return Some(("unreadable", format!("expanded output unreadable: {}", e.0))),
                (_, Err(e)) => return Some(("unreadable", format!("compressed output unreadable: {}", e.0))),
            }
        }
    }
    let la: Vec<(&str, &str)> = p.log_exp.iter().map(|e| (e.kind, e.message.as_str())).collect();
    let lb: Vec<(&str, &str)> = p.log_cmp.iter().map(|e| (e.kind, e.message.as_str())).collect();
    if la != lb {
        return Some(("log", format!("@warn/@debug messages differ between styles: {:?} vs {:?}", la, lb)));
    }
    None
}

pub fn run(ctx: &Ctx) {
    // the watchdog's clock also covers the harness's own oracle work (reference models, DOM enumeration);
    // the limit is generous so that machine load cannot turn a slow case into a verdict
    ctx.hang_limit_s.store(300, std::sync::atomic::Ordering::Relaxed);
    // ---- golden corpus ------------------------------------------------------------------
    let corp = corpus::load();
    let sub = "corpus";
    par(
        ctx,
        sub,
        corp.len() as u64,
        |i| json!({"file": corp[i as usize].file, "name": corp[i as usize].name}),
        |i, l| {
            let c = &corp[i as usize];
            if c.input.contains("unique-id") || c.input.contains("random(") {
                l.count("excluded_random", 1);
                return;
            }
            l.evals += 2;
            let p = run_both(&c.input, c.syntax);
            l.outcome(p.exp.digest() ^ p.cmp.digest().rotate_left(1));
            l.validated += 1;
            if p.exp.is_ok() {
                l.nontrivial += 1;
            }
            if let Some((class, what)) = judge(&p) {
                if class == "excluded-not-css" {
                    l.count("excluded_output_not_css", 1);
                    return;
                }
                ctx.violation(sub, &format!("style:corpus:{}:{}:{}", c.file, c.name, class), &what, json!({"input": c.input, "syntax": c.syntax.name(), "expanded": p.exp.brief(), "compressed": p.cmp.brief()}));
            }
        },
    );
    ctx.bound(sub, "every golden-corpus input compiled expanded and compressed", true);
    ctx.sample(sub, json!({"file": "color.rs", "oracle": "canonical trees equal, logs equal, same ok/error class"}));

    // ---- style-sensitivity grammar -----------------------------------------------------------
    let sub = "sensitivity";
    let (nv, ns) = (VALUES.len() as u64, SITES.len() as u64);
    par(
        ctx,
        sub,
        nv * ns,
        |i| json!({"site": SITES[(i / nv) as usize], "value": VALUES[(i % nv) as usize]}),
        |i, l| {
            let site = SITES[(i / nv) as usize];
            let v = VALUES[(i % nv) as usize];
            let src = site.replace('\u{1}', v);
            l.evals += 2;
            let p = run_both(&src, Syn::Scss);
            l.outcome(p.exp.digest() ^ p.cmp.digest().rotate_left(1));
            l.validated += 1;
            if p.exp.is_ok() {
                l.nontrivial += 1;
            }
            if let Some((class, what)) = judge(&p) {
                if class == "excluded-not-css" {
                    l.count("excluded_output_not_css", 1);
                    return;
                }
                ctx.violation(sub, &format!("style:site:{}:value:{}:{}", site.replace('\u{1}', "<v>"), v, class), &what, json!({"input": src, "expanded": p.exp.brief(), "compressed": p.cmp.brief(), "log_expanded": p.log_exp.iter().map(|e| e.json()).collect::<Vec<_>>(), "log_compressed": p.log_cmp.iter().map(|e| e.json()).collect::<Vec<_>>()}));
            }
        },
    );
    ctx.bound(sub, &format!("{} value spellings x {} value-to-text sites", nv, ns), true);
    ctx.sample(sub, json!({"input": "a{b: str-length(\"#{0.5}\")}", "oracle": "same canonical CSS in both styles"}));

    // ---- numbers near the printing boundaries in both styles -----------------------------------
    let sub = "number-lattice";
    let mut lits: Vec<String> = Vec::new();
    for m in 1..=999u32 {
        for e in [-11i32, -10, -9, -5, -3, -2, -1, 0] {
            let s = m.to_string();
            let lit = if e == 0 {
                s
            } else {
                let k = (-e) as usize;
                let mut t = s;
                while t.len() <= k {
                    t.insert(0, '0');
                }
                t.insert(t.len() - k, '.');
                t
            };
            lits.push(lit.clone());
            lits.push(format!("-{}", lit));
        }
    }
    let batch = 50usize;
    let nb = (lits.len() + batch - 1) / batch;
    par(
        ctx,
        sub,
        nb as u64,
        |i| json!({"first": lits[i as usize * batch]}),
        |i, l| {
            let chunk = &lits[i as usize * batch..((i as usize + 1) * batch).min(lits.len())];
            let src = format!("a{{{}}}", chunk.iter().enumerate().map(|(k, x)| format!("p{}: {} {}px ({} + 0);", k, x, x, x)).collect::<String>());
            l.evals += 2;
            let p = run_both(&src, Syn::Scss);
            l.validated += chunk.len() as u64;
            l.nontrivial += chunk.len() as u64;
            l.outcome(p.exp.digest());
            if let Some((class, what)) = judge(&p) {
                ctx.violation(sub, &format!("style:numbers:{}:{}", chunk[0], class), &what, json!({"input": src}));
            }
        },
    );
    ctx.bound(sub, "every 1-3 digit mantissa at 8 decimal scales, both signs, printed in both styles", true);
    ctx.sample(sub, json!({"input": "a{p0: 0.99999999999 0.99999999999px (0.99999999999 + 0);}"}));
    ctx.assume("canonicalisation erases only: whitespace, optional semicolons, comments other than /*!, leading/trailing zeros of numbers, colour name / short hex / long hex spellings, @charset/BOM");
}
