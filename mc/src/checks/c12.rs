//! C12 — modules load once, stay isolated and expose only public members.
//! (1) the lib/mid/entry matrix: 12 kinds of forwarding edge x 3 kinds of @use x member probes
//! against a visibility model; (2) all module DAGs over 4 modules with {none, use, use as *,
//! forward} edges: load-once, CSS order, reachability of every member through every namespace,
//! shared assignment; (3) spellings of one module; (4) `with` configuration; (5) cycles;
//! (6) built-in modules against their global aliases.

use crate::core::*;
use crate::models::css;
use serde_json::json;
use std::collections::BTreeSet;

const LIB: &str = "$pub: 1; $-priv: 2; $_upriv: 2; @function f() { @return 3; } @function -g() { @return 4; } @mixin m { x: 5; } @mixin -n { x: 6; } lib { marker: 1; }";

/// (name, source of mid.scss)
const MIDS: &[(&str, &str)] = &[
    ("use", "@use \"lib\"; $mv: 7; mid { marker: lib.$pub; }"),
    ("forward", "@forward \"lib\"; $mv: 7; mid { marker: 1; }"),
    ("show-var", "@forward \"lib\" show $pub; $mv: 7;"),
    ("show-fn", "@forward \"lib\" show f; $mv: 7;"),
    ("show-mixin", "@forward \"lib\" show m; $mv: 7;"),
    ("show-two", "@forward \"lib\" show $pub, m; $mv: 7;"),
    ("hide-var", "@forward \"lib\" hide $pub; $mv: 7;"),
    ("hide-fn", "@forward \"lib\" hide f; $mv: 7;"),
    ("hide-mixin", "@forward \"lib\" hide m; $mv: 7;"),
    ("prefix", "@forward \"lib\" as p-*; $mv: 7;"),
    ("prefix-show", "@forward \"lib\" as p-* show $p-pub; $mv: 7;"),
    ("prefix-hide", "@forward \"lib\" as p-* hide p-f; $mv: 7;"),
];

type Member = (&'static str, &'static str); // (kind, name)

fn exposed(mid: &str) -> BTreeSet<Member> {
    let all: [Member; 3] = [("var", "pub"), ("fn", "f"), ("mixin", "m")];
    let mut s: BTreeSet<Member> = BTreeSet::new();
    s.insert(("var", "mv"));
    match mid {
        "use" => {}
        "forward" => s.extend(all),
        "show-var" => {
            s.insert(("var", "pub"));
        }
        "show-fn" => {
            s.insert(("fn", "f"));
        }
        "show-mixin" => {
            s.insert(("mixin", "m"));
        }
        "show-two" => {
            s.insert(("var", "pub"));
            s.insert(("mixin", "m"));
        }
        "hide-var" => {
            s.insert(("fn", "f"));
            s.insert(("mixin", "m"));
        }
        "hide-fn" => {
            s.insert(("var", "pub"));
            s.insert(("mixin", "m"));
        }
        "hide-mixin" => {
            s.insert(("var", "pub"));
            s.insert(("fn", "f"));
        }
        "prefix" => {
            s.insert(("var", "p-pub"));
            s.insert(("fn", "p-f"));
            s.insert(("mixin", "p-m"));
        }
        "prefix-show" => {
            s.insert(("var", "p-pub"));
        }
        "prefix-hide" => {
            s.insert(("var", "p-pub"));
            s.insert(("mixin", "p-m"));
        }
        _ => {}
    }
    s
}

const PROBES: &[Member] = &[
    ("var", "pub"), ("var", "mv"), ("fn", "f"), ("mixin", "m"), ("var", "p-pub"), ("fn", "p-f"), ("mixin", "p-m"), ("var", "-priv"), ("var", "_upriv"), ("fn", "-g"),
    ("mixin", "-n"), ("var", "p--priv"), ("var", "nope"),
];

fn compile_project(files: &[(String, String)], entry: &str) -> (Outcome, Vec<LogEvent>) {
    let mut fs = MemFs::new();
    for (p, c) in files {
        fs.add(p, c);
    }
    let lg = CollectLogger::new();
    let cfg = Cfg { syntax: None, quiet: false, ..Cfg::default() };
    let o = compile_path(entry, &cfg, &Env { fs: &fs, logger: &lg });
    (o, lg.take())
}

fn decl_value(out: &str, sel: &str, prop: &str) -> Option<String> {
    css::flatten(&css::parse(out).ok()?).into_iter().filter(|b| b.selector == sel).flat_map(|b| b.decls).find(|d| d.0 == prop).map(|d| d.1)
}

pub fn run(ctx: &Ctx) {
    // the watchdog's clock also covers the harness's own oracle work (reference models, DOM enumeration);
    // the limit is generous so that machine load cannot turn a slow case into a verdict
    ctx.hang_limit_s.store(600, std::sync::atomic::Ordering::Relaxed);
    // ---- (1) lib / mid / entry matrix ----------------------------------------------------------
    let sub = "forward-matrix";
    let uses: [(&str, &str, &str); 3] = [("ns", "@use \"mid\";", "mid."), ("as", "@use \"mid\" as q;", "q."), ("star", "@use \"mid\" as *;", "")];
    let (nm, nu, np) = (MIDS.len() as u64, 3u64, PROBES.len() as u64);
    par(
        ctx,
        sub,
        nm * nu * np,
        |i| json!({"mid": MIDS[(i / (nu * np)) as usize].1, "use": uses[((i / np) % nu) as usize].1, "probe": format!("{:?}", PROBES[(i % np) as usize])}),
        |i, l| {
            let (mk, mid_src) = MIDS[(i / (nu * np)) as usize];
            let (uk, use_line, ns) = uses[((i / np) % nu) as usize];
            let (kind, name) = PROBES[(i % np) as usize];
            let body = match kind {
                "var" => format!("t {{ v: {}${}; }}", ns, name),
                "fn" => format!("t {{ v: {}{}(); }}", ns, name),
                _ => format!("t {{ @include {}{}; }}", ns, name),
            };
            let files = vec![("e.scss".to_string(), format!("{} {}", use_line, body)), ("mid.scss".to_string(), mid_src.to_string()), ("lib.scss".to_string(), LIB.to_string())];
            l.evals += 1;
            let (o, _) = fresh_thread(|| compile_project(&files, "e.scss"));
            l.outcome(o.digest());
            l.validated += 1;
            let visible = exposed(mk).contains(&(kind, name));
            let key = format!("forward:{}:{}:{}:{}", mk, uk, kind, name);
            // an invisible, non-private function called without namespace is a plain CSS function
            let plaincss = uk == "star" && kind == "fn" && !visible;
            match &o {
                Outcome::Panic(p) => ctx.violation(sub, &key, &format!("panic: {}", p), json!({"files": files})),
                Outcome::Ok(c) => {
                    if visible {
                        l.nontrivial += 1;
                        let want = match (kind, name) {
                            ("var", "pub") | ("var", "p-pub") => Some(("v", "1")),
                            ("var", "mv") => Some(("v", "7")),
                            ("fn", _) => Some(("v", "3")),
                            ("mixin", _) => Some(("x", "5")),
                            _ => None,
                        };
                        if let Some((p, v)) = want {
                            let got = decl_value(c, "t", p);
                            if got.as_deref() != Some(v) {
                                ctx.violation(sub, &key, &format!("visible member `{}` has value {:?}, expected {}", name, got, v), json!({"files": files, "output": c}));
                            }
                        }
                    } else if plaincss {
                        let got = decl_value(c, "t", "v").unwrap_or_default();
                        if !got.starts_with(&format!("{}(", name)) {
                            ctx.violation(sub, &key, &format!("hidden function `{}` was evaluated: v = {}", name, got), json!({"files": files, "output": c}));
                        }
                    } else {
                        ctx.violation(
                            sub,
                            &key,
                            &format!("member {} `{}` must not be reachable through `{}` of a module containing `{}` but the compile succeeded", kind, name, use_line, mid_src),
                            json!({"files": files, "output": c}),
                        );
                    }
                }
                Outcome::Err(e) => {
                    if visible {
                        ctx.violation(sub, &key, &format!("member {} `{}` must be reachable through `{}` of a module containing `{}`: {}", kind, name, use_line, mid_src, e.message), json!({"files": files}));
                    } else {
                        l.count("correctly_unreachable", 1);
                    }
                }
            }
        },
    );
    ctx.bound(sub, "12 forwarding shapes (plain, show/hide of each member kind, prefix, prefix+show/hide, plain @use) x 3 @use forms x 13 member probes (public, private with - and _, prefixed, missing)", true);
    ctx.sample(sub, json!({"mid.scss": "@forward \"lib\" show $pub;", "e.scss": "@use \"mid\"; t { v: mid.f(); }", "expected": "error: f is not forwarded"}));

    // ---- (2) all DAGs over 4 modules -------------------------------------------------------------
    let sub = "dags";
    let nmod = ctx.pick(3usize, 4usize);
    // edges (i, j) with i < j in lexicographic order; each in {none, use, star, forward}
    let edge_list: Vec<(usize, usize)> = (0..nmod).flat_map(|i| ((i + 1)..nmod).map(move |j| (i, j))).collect();
    let ne = edge_list.len() as u32;
    let ngraphs = 4u64.pow(ne);
    par(
        ctx,
        sub,
        ngraphs,
        |i| json!({"graph_index": i}),
        |i, l| {
            let kinds: Vec<u8> = (0..ne).map(|k| ((i >> (2 * k)) & 3) as u8).collect();
            let edge = |a: usize, b: usize| -> u8 { edge_list.iter().position(|e| *e == (a, b)).map(|p| kinds[p]).unwrap_or(0) };
            // sources
            let src_of = |m: usize, extra: &str| -> String {
                let mut s = String::new();
                for j in (m + 1)..nmod {
                    match edge(m, j) {
                        1 => s.push_str(&format!("@use \"m{}\";\n", j)),
                        2 => s.push_str(&format!("@use \"m{}\" as *;\n", j)),
                        3 => s.push_str(&format!("@forward \"m{}\";\n", j)),
                        _ => {}
                    }
                }
                s.push_str(&format!("$v{m}: {m}0; $-p{m}: -{m}; @function f{m}() {{ @return {m}1; }} @mixin x{m} {{ k: {m}2; }}\n@debug \"load m{m}\";\n.m{m} {{ id: {m}; }}\n", m = m));
                s.push_str(extra);
                s
            };
            // reference: reachable set and load order (post-order DFS, edges in textual order)
            let mut order: Vec<usize> = Vec::new();
            fn dfs(m: usize, nmod: usize, edge: &dyn Fn(usize, usize) -> u8, order: &mut Vec<usize>) {
                for j in (m + 1)..nmod {
                    if edge(m, j) != 0 && !order.contains(&j) {
                        dfs(j, nmod, edge, order);
                    }
                }
                if !order.contains(&m) {
                    order.push(m);
                }
            }
            dfs(0, nmod, &edge, &mut order);
            // exposed(k): modules whose public members are visible through k's namespace
            fn exposed_mods(k: usize, nmod: usize, edge: &dyn Fn(usize, usize) -> u8) -> BTreeSet<usize> {
                let mut s = BTreeSet::new();
                s.insert(k);
                for j in (k + 1)..nmod {
                    if edge(k, j) == 3 {
                        s.extend(exposed_mods(j, nmod, edge));
                    }
                }
                s
            }
            // name conflicts: two `as *` uses in the entry exposing the same module's members is fine
            // (same origin). No other conflicts can arise because member names carry the module index.
            // probes from the entry
            let mut probes: Vec<(String, Option<String>)> = Vec::new(); // (extra source, expected value or None = error)
            for k in 1..nmod {
                let ek = edge(0, k);
                let ex = exposed_mods(k, nmod, &edge);
                for j in 1..nmod {
                    let vis = ex.contains(&j);
                    match ek {
                        1 => {
                            probes.push((format!("t {{ v: m{}.$v{}; }}", k, j), if vis { Some(format!("{}0", j)) } else { None }));
                            probes.push((format!("t {{ v: m{}.f{}(); }}", k, j), if vis { Some(format!("{}1", j)) } else { None }));
                            probes.push((format!("t {{ @include m{}.x{}; }}", k, j), if vis { Some(format!("{}2", j)) } else { None }));
                        }
                        _ => {
                            // no namespace m<k> in the entry
                            if ek != 1 && j == k {
                                probes.push((format!("t {{ v: m{}.$v{}; }}", k, j), None));
                            }
                        }
                    }
                }
                if ek == 1 {
                    probes.push((format!("t {{ v: m{}.$-p{}; }}", k, k), None));
                    // assignment through the namespace: only to a variable the namespace exposes
                    probes.push((format!("m{}.$nope: 1; t {{ v: 1; }}", k), None));
                    for j in 1..nmod {
                        let vis = ex.contains(&j);
                        probes.push((format!("m{k}.$v{j}: 77; t {{ v: m{k}.$v{j}; }}", k = k, j = j), if vis { Some("77".into()) } else { None }));
                    }
                }
            }
            // bare names in the entry: visible iff some star-used module exposes them
            let mut star_vis: BTreeSet<usize> = BTreeSet::new();
            for k in 1..nmod {
                if edge(0, k) == 2 {
                    star_vis.extend(exposed_mods(k, nmod, &edge));
                }
            }
            for j in 1..nmod {
                probes.push((format!("t {{ v: $v{}; }}", j), if star_vis.contains(&j) { Some(format!("{}0", j)) } else { None }));
                probes.push((format!("t {{ @include x{}; }}", j), if star_vis.contains(&j) { Some(format!("{}2", j)) } else { None }));
                // a private member of another module is never reachable, whatever that module uses or forwards
                probes.push((format!("t {{ v: $-p{}; }}", j), None));
            }
            // shared assignment: through two different namespaces that expose the same variable
            let used: Vec<usize> = (1..nmod).filter(|k| edge(0, *k) == 1).collect();
            for a in &used {
                for b in &used {
                    if a == b {
                        continue;
                    }
                    let common: Vec<usize> = exposed_mods(*a, nmod, &edge).intersection(&exposed_mods(*b, nmod, &edge)).copied().collect();
                    for j in common {
                        probes.push((format!("m{a}.$v{j}: 99; t {{ v: m{b}.$v{j}; }}", a = a, b = b, j = j), Some("99".into())));
                    }
                }
            }
            // base compile: load-once and order
            let files_base: Vec<(String, String)> = (0..nmod).map(|m| (format!("m{}.scss", m), src_of(m, ""))).collect();
            l.evals += 1;
            let (o, logs) = fresh_thread(|| compile_project(&files_base, "m0.scss"));
            l.outcome(o.digest());
            l.validated += 1;
            let gkey = format!("dag:{}", kinds.iter().map(|k| k.to_string()).collect::<String>());
            match &o {
                Outcome::Ok(c) => {
                    l.nontrivial += 1;
                    let debugs: Vec<String> = logs.iter().filter(|e| e.kind == "debug").map(|e| e.message.clone()).collect();
                    let want_debug: Vec<String> = order.iter().map(|m| format!("\"load m{}\"", m)).collect();
                    if debugs != want_debug {
                        ctx.violation(sub, &format!("{}:load-once", gkey), &format!("modules evaluated {:?}, expected each reachable module once in dependency order {:?}", debugs, want_debug), json!({"files": files_base}));
                    }
                    let blocks = css::flatten(&css::parse(c).unwrap_or_default());
                    let markers: Vec<String> = blocks.iter().filter(|b| b.selector.starts_with(".m")).map(|b| b.selector.clone()).collect();
                    let want_markers: Vec<String> = order.iter().map(|m| format!(".m{}", m)).collect();
                    if markers != want_markers {
                        ctx.violation(sub, &format!("{}:css-order", gkey), &format!("module CSS emitted as {:?}, expected {:?}", markers, want_markers), json!({"files": files_base, "output": c}));
                    }
                }
                other => {
                    ctx.violation(sub, &format!("{}:base", gkey), &format!("module graph does not compile: {}", other.brief()), json!({"files": files_base}));
                    return;
                }
            }
            for (extra, want) in probes {
                let files: Vec<(String, String)> = (0..nmod).map(|m| (format!("m{}.scss", m), src_of(m, if m == 0 { &extra } else { "" }))).collect();
                l.evals += 1;
                let (o, _) = fresh_thread(|| compile_project(&files, "m0.scss"));
                l.validated += 1;
                let pkey = format!("{}:{}", gkey, extra);
                match (&o, &want) {
                    (Outcome::Panic(p), _) => ctx.violation(sub, &pkey, &format!("panic: {}", p), json!({"files": files})),
                    (Outcome::Ok(c), Some(v)) => {
                        let got = decl_value(c, "t", "v").or_else(|| decl_value(c, "t", "k"));
                        if got.as_deref() != Some(v.as_str()) {
                            ctx.violation(sub, &pkey, &format!("probe `{}` gives {:?}, expected {}", extra, got, v), json!({"files": files, "output": c}));
                        }
                    }
                    (Outcome::Ok(c), None) => ctx.violation(sub, &pkey, &format!("probe `{}` must fail (member not reachable) but compiled", extra), json!({"files": files, "output": c})),
                    (Outcome::Err(e), Some(v)) => ctx.violation(sub, &pkey, &format!("probe `{}` must give {} but failed: {}", extra, v, e.message), json!({"files": files})),
                    (Outcome::Err(_), None) => l.count("correctly_unreachable", 1),
                }
            }
        },
    );
    ctx.bound(sub, "all 4^3 (quick) / 4^6 (thorough) graphs over 3 / 4 modules (edges i<j in {none, @use, @use as *, @forward}); per graph: load-once via @debug, CSS order, and every variable/function/mixin probe through every namespace and bare, every module's private variable through its namespace and bare, assignment of every (and of an undefined) variable through every namespace, plus shared assignment through pairs of namespaces", true);
    ctx.sample(sub, json!({"m0.scss": "@use \"m1\"; @use \"m2\"; ...", "m1.scss": "@forward \"m3\"; ...", "m2.scss": "@use \"m3\"; ...", "oracle": "m3 evaluated once, .m3 first"}));

    // ---- (3) one module reached by different spellings ---------------------------------------------
    let sub = "spellings";
    let sp = ["lib", "./lib", "lib.scss", "_lib", "./_lib.scss", "sub/../lib"];
    let nsps = sp.len() as u64;
    par(
        ctx,
        sub,
        nsps * nsps,
        |i| json!({"a": sp[(i / nsps) as usize], "b": sp[(i % nsps) as usize]}),
        |i, l| {
            let (a, b) = (sp[(i / nsps) as usize], sp[(i % nsps) as usize]);
            let files = vec![
                ("e.scss".to_string(), format!("@use \"{}\" as one; @use \"x\"; t {{ a: one.$n; b: x.get(); }}", a)),
                ("x.scss".to_string(), format!("@use \"{}\" as two; @function get() {{ @return two.$n; }} two.$n: 5;", b)),
                ("_lib.scss".to_string(), "$n: 1; @debug \"load lib\"; .lib { k: v; }".to_string()),
                ("sub/keep.scss".to_string(), String::new()),
            ];
            l.evals += 1;
            let (o, logs) = fresh_thread(|| compile_project(&files, "e.scss"));
            l.outcome(o.digest());
            l.validated += 1;
            let key = format!("spelling:{}:{}", a, b);
            match &o {
                Outcome::Ok(c) => {
                    l.nontrivial += 1;
                    let nload = logs.iter().filter(|e| e.message == "\"load lib\"").count();
                    let ncss = css::flatten(&css::parse(c).unwrap_or_default()).iter().filter(|b| b.selector == ".lib").count();
                    // x.scss assigns two.$n: 5 while loading; the entry reads the one shared variable
                    let av = decl_value(c, "t", "a");
                    if nload != 1 || ncss != 1 || av.as_deref() != Some("5") {
                        ctx.violation(sub, &key, &format!("module reached as \"{}\" and \"{}\": evaluated {} times, CSS emitted {} times, shared variable reads {:?} (expected 1, 1, 5)", a, b, nload, ncss, av), json!({"files": files, "output": c}));
                    }
                }
                other => ctx.violation(sub, &key, &format!("project fails: {}", other.brief()), json!({"files": files})),
            }
        },
    );
    ctx.bound(sub, "6 spellings of one partial x 6 spellings from a second importer", true);
    ctx.sample(sub, json!({"e.scss": "@use \"lib\" as one; @use \"x\";", "x.scss": "@use \"./_lib.scss\" as two; two.$n: 5;"}));

    // ---- (4) with(...) configuration ----------------------------------------------------------------
    let sub = "with";
    let lib_cfg = "$cfg: 1 !default; $other: 2 !default; $fixed: 3; $-hidden: 4 !default; lib { c: $cfg; o: $other; f: $fixed; }";
    // (entry, extra files, expected: Ok(c value, o value) or Err)
    let cases: Vec<(&str, Vec<(&str, &str)>, Option<(&str, &str)>)> = vec![
        ("@use \"lib\";", vec![], Some(("1", "2"))),
        ("@use \"lib\" with ($cfg: 5);", vec![], Some(("5", "2"))),
        ("@use \"lib\" with ($cfg: 5, $other: 6);", vec![], Some(("5", "6"))),
        ("@use \"lib\" with ($other: null);", vec![], Some(("1", "2"))),
        ("@use \"lib\" with ($fixed: 5);", vec![], None),
        ("@use \"lib\" with ($nope: 5);", vec![], None),
        ("@use \"lib\" with ($cfg: 5, $cfg: 6);", vec![], None),
        ("@use \"first\"; @use \"lib\" with ($cfg: 5);", vec![("first.scss", "@use \"lib\";")], None),
        ("@use \"lib\" with ($cfg: 5); @use \"second\";", vec![("second.scss", "@use \"lib\"; second { c: lib.$cfg; }")], Some(("5", "2"))),
        ("@use \"fw\" with ($cfg: 5);", vec![("fw.scss", "@forward \"lib\";")], Some(("5", "2"))),
        ("@use \"fw\" with ($cfg: 5);", vec![("fw.scss", "@forward \"lib\" with ($cfg: 8 !default);")], Some(("5", "2"))),
        ("@use \"fw\";", vec![("fw.scss", "@forward \"lib\" with ($cfg: 8 !default);")], Some(("8", "2"))),
        ("@use \"fw\" with ($cfg: 5);", vec![("fw.scss", "@forward \"lib\" with ($cfg: 8);")], None),
        ("@use \"fw\" with ($p-cfg: 5);", vec![("fw.scss", "@forward \"lib\" as p-*;")], Some(("5", "2"))),
        ("@use \"fw\" with ($cfg: 5);", vec![("fw.scss", "@forward \"lib\" as p-*;")], None),
        ("@use \"fw\" with ($cfg: 5);", vec![("fw.scss", "@forward \"lib\" hide $cfg;")], None),
        ("@use \"fw\" with ($own: 5);", vec![("fw.scss", "@forward \"lib\" as p-*; $own: 0 !default; fw { own: $own; }")], Some(("1", "2"))),
        ("@use \"fw\" with ($p-own: 5);", vec![("fw.scss", "@forward \"lib\" as p-*; $own: 0 !default; fw { own: $own; }")], None),
        ("@use \"fw\" with ($own: 5);", vec![("fw.scss", "@forward \"lib\" show $cfg; $own: 0 !default; fw { own: $own; }")], Some(("1", "2"))),
    ];
    par(
        ctx,
        sub,
        cases.len() as u64,
        |i| json!({"entry": cases[i as usize].0}),
        |i, l| {
            let (entry, extra, want) = &cases[i as usize];
            let mut files = vec![("e.scss".to_string(), entry.to_string()), ("lib.scss".to_string(), lib_cfg.to_string())];
            for (p, c) in extra {
                files.push((p.to_string(), c.to_string()));
            }
            l.evals += 1;
            let (o, _) = fresh_thread(|| compile_project(&files, "e.scss"));
            l.outcome(o.digest());
            l.validated += 1;
            l.nontrivial += 1;
            let key = format!("with:{}:{}", entry, extra.iter().map(|e| e.1).collect::<Vec<_>>().join("|"));
            match (&o, want) {
                (Outcome::Panic(p), _) => ctx.violation(sub, &key, &format!("panic: {}", p), json!({"files": files})),
                (Outcome::Ok(c), Some((cv, ov))) => {
                    let (gc, go) = (decl_value(c, "lib", "c"), decl_value(c, "lib", "o"));
                    if gc.as_deref() != Some(*cv) || go.as_deref() != Some(*ov) {
                        ctx.violation(sub, &key, &format!("configured module has $cfg = {:?}, $other = {:?}; expected {} and {}", gc, go, cv, ov), json!({"files": files, "output": c}));
                    }
                    if entry.contains("$own: 5") {
                        let own = decl_value(c, "fw", "own");
                        if own.as_deref() != Some("5") {
                            ctx.violation(sub, &format!("{}:own", key), &format!("the forwarding module's own !default variable is {:?}, expected 5", own), json!({"files": files, "output": c}));
                        }
                    }
                }
                (Outcome::Ok(c), None) => ctx.violation(sub, &key, "invalid `with` configuration accepted", json!({"files": files, "output": c})),
                (Outcome::Err(e), Some(_)) => ctx.violation(sub, &key, &format!("valid `with` configuration rejected: {}", e.message), json!({"files": files})),
                (Outcome::Err(_), None) => l.count("rejected_as_expected", 1),
            }
        },
    );
    ctx.bound(sub, "19 `with` shapes: !default / non-default / unknown / private / duplicate variables, already-loaded modules, configuration through plain, prefixed, show/hide and pre-configured @forward", true);
    ctx.sample(sub, json!({"entry": "@use \"lib\" with ($fixed: 5);", "expected": "error: not configurable"}));

    // ---- (5) cycles ------------------------------------------------------------------------------------
    let sub = "cycles";
    let kinds = ["@use", "@forward"];
    let mut cyc: Vec<Vec<(String, String)>> = Vec::new();
    for a in kinds {
        cyc.push(vec![("e.scss".into(), format!("{} \"e\";", a))]);
        for b in kinds {
            cyc.push(vec![("e.scss".into(), format!("{} \"b\";", a)), ("b.scss".into(), format!("{} \"e\";", b))]);
            for c in kinds {
                cyc.push(vec![("e.scss".into(), format!("{} \"b\";", a)), ("b.scss".into(), format!("{} \"c\";", b)), ("c.scss".into(), format!("{} \"e\";", c))]);
                cyc.push(vec![("e.scss".into(), format!("{} \"b\";", a)), ("b.scss".into(), format!("{} \"c\";", b)), ("c.scss".into(), format!("{} \"b\";", c))]);
            }
        }
    }
    par(
        ctx,
        sub,
        cyc.len() as u64,
        |i| json!({"files": cyc[i as usize]}),
        |i, l| {
            let files = &cyc[i as usize];
            l.evals += 1;
            let (o, _) = compile_project(files, "e.scss");
            l.outcome(o.digest());
            l.validated += 1;
            l.nontrivial += 1;
            match &o {
                Outcome::Err(_) => {}
                other => ctx.violation(sub, &format!("cycle:{}", files.iter().map(|f| f.1.clone()).collect::<Vec<_>>().join("|")), &format!("module cycle is not reported as an error: {}", other.brief()), json!({"files": files})),
            }
        },
    );
    ctx.bound(sub, "every 1-, 2- and 3-cycle (and 2-cycle behind an entry) over @use/@forward edges", true);
    ctx.sample(sub, json!({"e.scss": "@use \"b\";", "b.scss": "@forward \"e\";"}));

    // ---- (5b) fan-in: one module loaded k times is evaluated once and is not a cycle -------------------
    {
        let sub = "fan-in";
        // k loaders (each @use or @forward of the leaf) + optionally the entry itself loads the leaf, first or last
        let mut cases: Vec<(Vec<(String, String)>, usize)> = Vec::new();
        for k in 1..=4usize {
            for mask in 0..(1u32 << k) {
                for entry_direct in 0..3 {
                    let mut files: Vec<(String, String)> = Vec::new();
                    let mut entry = String::new();
                    if entry_direct == 1 {
                        entry.push_str("@use \"leaf\";\n");
                    }
                    for j in 0..k {
                        entry.push_str(&format!("@use \"l{}\";\n", j));
                        let rule = if mask & (1 << j) != 0 { "@forward \"leaf\";" } else { "@use \"leaf\";" };
                        files.push((format!("l{}.scss", j), format!("{}\n.l{} {{ x: y; }}\n", rule, j)));
                    }
                    if entry_direct == 2 {
                        entry.push_str("@use \"leaf\";\n");
                    }
                    entry.push_str("t { v: 1; }\n");
                    files.push(("e.scss".into(), entry));
                    files.push(("leaf.scss".into(), "@debug \"load leaf\";\n.leaf { x: y; }\n".into()));
                    cases.push((files, k + if entry_direct > 0 { 1 } else { 0 }));
                }
            }
        }
        par(
            ctx,
            sub,
            cases.len() as u64,
            |i| json!({"files": cases[i as usize].0, "loads": cases[i as usize].1}),
            |i, l| {
                let (files, loads) = &cases[i as usize];
                l.evals += 1;
                let (o, logs) = fresh_thread(|| compile_project(files, "e.scss"));
                l.outcome(o.digest());
                l.validated += 1;
                let key = format!("fan-in:{}", files.iter().map(|f| f.1.replace('\n', " ")).collect::<Vec<_>>().join("|"));
                match &o {
                    Outcome::Ok(c) => {
                        l.nontrivial += 1;
                        let n_debug = logs.iter().filter(|e| e.kind == "debug").count();
                        let n_css = css::flatten(&css::parse(c).unwrap_or_default()).into_iter().filter(|b| b.selector == ".leaf").count();
                        if n_debug != 1 || n_css != 1 {
                            ctx.violation(sub, &key, &format!("a module loaded {} times was evaluated {} times and its CSS emitted {} times", loads, n_debug, n_css), json!({"files": files, "output": c}));
                        }
                    }
                    other => ctx.violation(sub, &key, &format!("a module loaded {} times (no cycle) does not compile: {}", loads, other.brief()), json!({"files": files})),
                }
            },
        );
        ctx.bound(sub, "1..4 intermediate modules each loading the same leaf by @use or @forward (all 2^k choices), the entry loading the leaf itself first, last or not at all: the leaf is evaluated once, its CSS emitted once, no cycle is reported", true);
        ctx.sample(sub, json!({"e.scss": "@use \"l0\"; @use \"l1\"; @use \"l2\";", "l<j>.scss": "@use \"leaf\";"}));
    }

    // ---- (6) built-in modules vs global aliases ----------------------------------------------------------
    let sub = "builtin-aliases";
    let aliases: &[(&str, &str, &str)] = &[
        ("math.abs", "abs", "-3.5px"), ("math.ceil", "ceil", "1.2"), ("math.floor", "floor", "1.8"), ("math.round", "round", "2.5"), ("math.max", "max", "1px, 3px, 2px"), ("math.min", "min", "1px, 3px"),
        ("math.percentage", "percentage", "0.25"), ("math.unit", "unit", "3em"), ("math.is-unitless", "unitless", "3"), ("math.compatible", "comparable", "1px, 1in"),
        ("list.nth", "nth", "(a b c), 2"), ("list.length", "length", "a b c"), ("list.join", "join", "(a b), (c d)"), ("list.append", "append", "(a b), c"), ("list.index", "index", "(a b c), b"),
        ("list.separator", "list-separator", "(a, b)"), ("list.is-bracketed", "is-bracketed", "[a]"), ("list.set-nth", "set-nth", "(a b), 1, z"), ("list.zip", "zip", "(a b), (1 2)"),
        ("map.get", "map-get", "(a: 1), a"), ("map.has-key", "map-has-key", "(a: 1), b"), ("map.keys", "map-keys", "(a: 1, b: 2)"), ("map.values", "map-values", "(a: 1, b: 2)"), ("map.merge", "map-merge", "(a: 1), (b: 2)"),
        ("map.remove", "map-remove", "(a: 1, b: 2), a"),
        ("string.length", "str-length", "\"abc\""), ("string.slice", "str-slice", "\"abcd\", 2, 3"), ("string.index", "str-index", "\"abc\", \"c\""), ("string.insert", "str-insert", "\"abc\", \"X\", 2"),
        ("string.quote", "quote", "abc"), ("string.unquote", "unquote", "\"abc\""), ("string.to-upper-case", "to-upper-case", "\"abc\""), ("string.to-lower-case", "to-lower-case", "\"ABC\""),
        ("color.red", "red", "#123456"), ("color.green", "green", "#123456"), ("color.blue", "blue", "#123456"), ("color.hue", "hue", "#123456"), ("color.saturation", "saturation", "#123456"),
        ("color.lightness", "lightness", "#123456"), ("color.alpha", "alpha", "rgba(1,2,3,.4)"), ("color.mix", "mix", "red, blue, 30%"), ("color.invert", "invert", "#123456"), ("color.complement", "complement", "#123456"),
        ("color.grayscale", "grayscale", "#123456"), ("color.adjust", "adjust-color", "#123456, $red: 5"), ("color.scale", "scale-color", "#123456, $lightness: 10%"), ("color.change", "change-color", "#123456, $blue: 5"),
        ("color.ie-hex-str", "ie-hex-str", "#123456"),
        ("selector.nest", "selector-nest", "\".a\", \".b\""), ("selector.append", "selector-append", "\".a\", \".b\""), ("selector.extend", "selector-extend", "\".a .b\", \".b\", \".c\""),
        ("selector.replace", "selector-replace", "\".a .b\", \".b\", \".c\""), ("selector.unify", "selector-unify", "\".a\", \".b\""), ("selector.is-superselector", "is-superselector", "\".a\", \".a.b\""),
        ("selector.simple-selectors", "simple-selectors", "\".a.b\""), ("selector.parse", "selector-parse", "\".a .b, .c\""),
        ("meta.type-of", "type-of", "1px"), ("meta.inspect", "inspect", "(a: 1)"), ("meta.feature-exists", "feature-exists", "\"at-error\""), ("meta.variable-exists", "variable-exists", "\"nope\""),
        ("meta.function-exists", "function-exists", "\"abs\""), ("meta.mixin-exists", "mixin-exists", "\"nope\""), ("meta.global-variable-exists", "global-variable-exists", "\"nope\""),
    ];
    par(
        ctx,
        sub,
        aliases.len() as u64,
        |i| json!({"module": aliases[i as usize].0, "global": aliases[i as usize].1}),
        |i, l| {
            let (m, g, args) = aliases[i as usize];
            let modname = m.split('.').next().unwrap();
            let src = format!("@use \"sass:{}\";\na {{ m: inspect({}({})); g: inspect({}({})); }}", modname, m, args, g, args);
            l.evals += 1;
            let o = compile(&src, &Cfg::scss());
            l.outcome(o.digest());
            l.validated += 1;
            l.nontrivial += 1;
            match &o {
                Outcome::Ok(c) => {
                    let (a, b) = (decl_value(c, "a", "m"), decl_value(c, "a", "g"));
                    if a != b || a.is_none() {
                        ctx.violation(sub, &format!("alias:{}", m), &format!("{}({}) = {:?} but {}({}) = {:?}", m, args, a, g, args, b), json!({"input": src, "output": c}));
                    }
                }
                other => ctx.violation(sub, &format!("alias:{}", m), &format!("module function or alias unusable: {}", other.brief()), json!({"input": src})),
            }
        },
    );
    ctx.bound(sub, "64 module functions of sass:math/list/map/string/color/selector/meta against their global aliases on one representative call each (C14 compares list/map/string on full argument universes)", true);
    ctx.sample(sub, json!({"input": "a { m: math.round(2.5); g: round(2.5); }"}));
    ctx.assume("the in-memory Fs canonicalises paths lexically (one Fs, one module identity per file); member names carry the module index so that no accidental name conflicts arise in the DAG space");
}
