//! C03 — SassScript evaluation follows the language scoping and control-flow rules.
//! Four bounded grammars over SassCore (scoping, control flow, callables, operators); every
//! program is executed by grass and by the reference interpreter (models/interp.rs); emitted
//! probe declarations and the @debug/@warn log must be exactly equal (or both must fail).

use crate::core::*;
use crate::gen::core::*;
use crate::models::css;
use crate::models::interp::{Ev, Interp};
use serde_json::json;

pub struct Observed {
    pub probes: Vec<(usize, String)>,
    pub logs: Vec<(String, String, usize)>, // kind, message, line (1-based)
}

pub fn observe(src: &str) -> Result<Observed, Outcome> {
    observe_on(src, true)
}

/// `fresh`: run on a freshly spawned thread (empty thread-local identifier table); needed where the
/// order in which identifiers were first seen could reach the output (keyword arguments)
pub fn observe_on(src: &str, fresh: bool) -> Result<Observed, Outcome> {
    let src = src.to_string();
    let run = move || {
        let lg = CollectLogger::new();
        let cfg = Cfg { quiet: false, ..Cfg::scss() };
        let o = compile_env(&src, &cfg, &Env { fs: &grass_compiler::NullFs, logger: &lg });
        (o, lg.take())
    };
    let (o, logs) = if fresh { fresh_thread(run) } else { run() };
    match &o {
        Outcome::Ok(c) => {
            let mut probes = Vec::new();
            for b in css::flatten(&css::parse(c).map_err(|_| o.clone())?) {
                for (p, v) in b.decls {
                    if let Some(n) = p.strip_prefix('p') {
                        if let Ok(id) = n.parse::<usize>() {
                            probes.push((id, v));
                        }
                    }
                }
            }
            Ok(Observed { probes, logs: logs.into_iter().map(|e| (e.kind.to_string(), e.message, e.line + 1)).collect() })
        }
        _ => Err(o),
    }
}

/// compare one program; returns a description of the first difference
pub fn compare(prog: &[S]) -> (Option<String>, bool, String) {
    compare_on(prog, true)
}

pub fn compare_on(prog: &[S], fresh: bool) -> (Option<String>, bool, String) {
    let (src, lines) = print_program(prog);
    let reference = Interp::run(prog);
    let got = observe_on(&src, fresh);
    match (&reference, &got) {
        (Err(e), _) if e.0.starts_with("UNSPECIFIED") => (None, false, src),
        (Err(_), Err(Outcome::Err(_))) => (None, false, src),
        (Err(e), Err(Outcome::Panic(p))) => (Some(format!("panic: {} (reference: error {})", p, e.0)), false, src),
        (Err(e), Ok(_)) => (Some(format!("the reference evaluation fails ({}) but grass compiles", e.0)), false, src),
        (Ok(_), Err(o)) => (Some(format!("the reference evaluation succeeds but grass fails: {}", o.brief())), true, src),
        (Ok(evs), Ok(obs)) => {
            let want_probes: Vec<(usize, String)> = evs.iter().filter_map(|e| if let Ev::Probe(i, t) = e { Some((*i, t.clone())) } else { None }).collect();
            // probes inside functions are reported through @debug "pN=..."
            let mut want_logs: Vec<(String, String, usize)> = Vec::new();
            for e in evs {
                if let Ev::Log(k, m, id) = e {
                    want_logs.push((k.to_string(), m.clone(), lines.get(*id).copied().unwrap_or(0)));
                }
            }
            // split function probes (debug messages "pN=...") out of grass's log
            let mut got_probes = obs.probes.clone();
            let mut got_logs = Vec::new();
            let mut fn_probes: Vec<(usize, String)> = Vec::new();
            for (k, m, line) in &obs.logs {
                let inner: &str = if m.len() >= 2 && (m.starts_with('"') && m.ends_with('"') || m.starts_with('\'') && m.ends_with('\'')) { &m[1..m.len() - 1] } else { m };
                if k == "debug" && inner.starts_with('p') && inner.contains('=') && inner[1..inner.find('=').unwrap()].chars().all(|c| c.is_ascii_digit()) {
                    let (idt, val) = inner.split_once('=').unwrap();
                    fn_probes.push((idt[1..].parse().unwrap_or(usize::MAX), val.replace("\\\"", "\"")));
                } else {
                    got_logs.push((k.clone(), m.clone(), *line));
                }
            }
            // the reference reports all probes in one sequence; split by whether grass saw them as CSS or log
            let fn_ids: std::collections::BTreeSet<usize> = fn_probes.iter().map(|x| x.0).collect();
            let want_css: Vec<(usize, String)> = want_probes.iter().filter(|p| !fn_ids.contains(&p.0) && !is_fn_probe(prog, p.0)).cloned().collect();
            let want_fn: Vec<(usize, String)> = want_probes.iter().filter(|p| is_fn_probe(prog, p.0)).cloned().collect();
            let mut want_css = want_css;
            if has_decl(prog) {
                // plain declarations and nested rules are emitted in separate blocks whose order is C04's subject
                got_probes.sort_by_key(|x| x.0);
                want_css.sort_by_key(|x| x.0);
            }
            if got_probes != want_css {
                return (Some(format!("emitted probe declarations {:?} differ from the reference {:?}", got_probes, want_css)), true, src);
            }
            if fn_probes != want_fn {
                return (Some(format!("values observed inside functions {:?} differ from the reference {:?}", fn_probes, want_fn)), true, src);
            }
            if got_logs != want_logs {
                return (Some(format!("@debug/@warn log {:?} differs from the reference {:?}", got_logs, want_logs)), true, src);
            }
            (None, true, src)
        }
        (_, Err(Outcome::Ok(_))) => unreachable!(),
    }
}

fn has_decl(ss: &[S]) -> bool {
    ss.iter().any(|s| match s {
        S::Decl(_) => true,
        S::Rule(_, b) | S::Each(_, _, b) | S::For(_, _, _, _, b) | S::While(_, b) | S::MixinDef(_, _, b) | S::FuncDef(_, _, b) => has_decl(b),
        S::If(br, e) => br.iter().any(|x| has_decl(&x.1)) || e.as_ref().map(|x| has_decl(x)).unwrap_or(false),
        S::Include(_, _, Some((_, b))) => has_decl(b),
        _ => false,
    })
}

/// is probe `id` (static numbering) located inside a function body?
fn is_fn_probe(prog: &[S], id: usize) -> bool {
    fn walk(ss: &[S], next: &mut usize, in_fn: bool, id: usize, found: &mut Option<bool>) {
        for s in ss {
            match s {
                S::Probe(_) | S::Decl(_) | S::Debug(_) | S::Warn(_) => {
                    if *next == id && matches!(s, S::Probe(_)) {
                        *found = Some(in_fn);
                    }
                    *next += 1;
                }
                S::Rule(_, b) | S::Each(_, _, b) | S::For(_, _, _, _, b) | S::While(_, b) | S::MixinDef(_, _, b) => walk(b, next, in_fn, id, found),
                S::FuncDef(_, _, b) => walk(b, next, true, id, found),
                S::If(br, e) => {
                    for (_, b) in br {
                        walk(b, next, in_fn, id, found);
                    }
                    if let Some(b) = e {
                        walk(b, next, in_fn, id, found);
                    }
                }
                S::Include(_, _, Some((_, b))) => walk(b, next, in_fn, id, found),
                _ => {}
            }
        }
    }
    let mut next = 0;
    let mut found = None;
    walk(prog, &mut next, false, id, &mut found);
    found.unwrap_or(false)
}

fn set(var: &str, e: E) -> S {
    S::Set { var: var.into(), e, global: false, default: false }
}
fn noparams() -> Params {
    Params { params: vec![], rest: None }
}

// ---- 1. scoping ----------------------------------------------------------------------------------

fn scoping_space(ctx: &Ctx) -> (u64, impl Fn(u64) -> Option<Vec<S>> + Sync) {
    let stm: Vec<S> = vec![
        set("x", i(1)),
        set("x", b("+", v("x"), i(1))),
        S::Set { var: "x".into(), e: i(2), global: true, default: false },
        S::Set { var: "x".into(), e: i(3), global: false, default: true },
        set("y", v("x")),
        S::Probe(v("x")),
        S::Set { var: "z".into(), e: i(7), global: false, default: true },
        S::Probe(b("+", v("x"), v("y"))),
    ];
    let frames: [&'static str; 10] = ["rule", "if", "each", "for", "while", "mixin", "mixin-far", "func", "content", "else"];
    let wrap = |f: &str, body: Vec<S>, k: &mut usize| -> Vec<S> {
        *k += 1;
        match f {
            "rule" => vec![S::Rule("r".into(), body)],
            "if" => vec![S::If(vec![(E::Bool(true), body)], None)],
            "else" => vec![S::If(vec![(E::Bool(false), vec![S::Probe(i(0))])], Some(body))],
            "each" => vec![S::Each(vec!["i".into()], E::List(vec![i(1), i(2)], false), body)],
            "for" => vec![S::For("i".into(), i(1), i(2), true, body)],
            "while" => {
                let mut b2 = vec![S::Set { var: "go".into(), e: E::Bool(false), global: true, default: false }];
                b2.extend(body);
                vec![S::Set { var: "go".into(), e: E::Bool(true), global: true, default: false }, S::While(v("go"), b2)]
            }
            "mixin" => vec![S::MixinDef(format!("m{}", k), noparams(), body), S::Include(format!("m{}", k), vec![], None)],
            "mixin-far" => vec![S::Include(format!("far{}", k), vec![], None)], // defined in the prelude by the caller
            "func" => {
                let mut b2 = body;
                b2.push(S::Return(v("x")));
                vec![S::FuncDef(format!("f{}", k), noparams(), b2), S::Probe(E::Call(format!("f{}", k), vec![]))]
            }
            "content" => vec![S::Include("c".into(), vec![], Some((noparams(), body)))],
            _ => unreachable!(),
        }
    };
    let legal_in = |outer: &str, inner: &str| -> bool {
        // callable declarations are only legal at the root or directly inside style rules;
        // function bodies contain only assignments, control flow, @debug/@warn and @return
        match outer {
            "if" | "else" | "each" | "for" | "while" | "mixin" | "mixin-far" | "content" => !matches!(inner, "mixin" | "func"),
            "func" => matches!(inner, "if" | "else" | "each" | "for" | "while"),
            _ => true,
        }
    };
    let seed = vec![set("x", i(0)), set("y", i(0)), S::MixinDef("c".into(), noparams(), vec![S::Content(vec![])])];
    // bodies: sequences of <= 2 (thorough 3) simple statements; one nested frame holding <= 2 statements
    // before / after a statement (thorough: also between two statements)
    let mut bodies: Vec<Vec<(Option<&str>, Vec<S>)>> = Vec::new(); // list of items: (frame kind or None, stmts)
    let mut inner_bodies: Vec<Vec<S>> = Vec::new();
    for c in &stm {
        inner_bodies.push(vec![c.clone()]);
        for d in &stm {
            inner_bodies.push(vec![c.clone(), d.clone()]);
        }
    }
    for a in &stm {
        bodies.push(vec![(None, vec![a.clone()])]);
        for c in &stm {
            bodies.push(vec![(None, vec![a.clone()]), (None, vec![c.clone()])]);
            if ctx.thorough() {
                for d in &stm {
                    bodies.push(vec![(None, vec![a.clone()]), (None, vec![c.clone()]), (None, vec![d.clone()])]);
                }
            }
        }
        for f in frames {
            for ib in &inner_bodies {
                bodies.push(vec![(None, vec![a.clone()]), (Some(f), ib.clone())]);
                bodies.push(vec![(Some(f), ib.clone()), (None, vec![a.clone()])]);
                if ctx.thorough() && ib.len() == 1 {
                    for d in &stm {
                        bodies.push(vec![(None, vec![a.clone()]), (Some(f), ib.clone()), (None, vec![d.clone()])]);
                    }
                }
            }
        }
    }
    let n = (frames.len() * bodies.len() * 4) as u64;
    let nb = bodies.len();
    let build = move |idx: u64| -> Option<Vec<S>> {
        let idx = idx as usize;
        let variant = idx % 4;
        let body = &bodies[(idx / 4) % nb];
        let f = frames[idx / 4 / nb];
        if body.iter().any(|(k, _)| k.map(|k| !legal_in(f, k)).unwrap_or(false)) {
            return None;
        }
        // build: seed; [far mixin definitions]; frame(body)
        let mut k = 0usize;
        let mut prelude: Vec<S> = seed.clone();
        let mut inner: Vec<S> = Vec::new();
        for (kind, stmts) in body {
            match kind {
                None => inner.extend(stmts.clone()),
                Some("mixin-far") => {
                    k += 1;
                    prelude.push(S::MixinDef(format!("far{}", k + 1), noparams(), stmts.clone()));
                    inner.push(S::Include(format!("far{}", k + 1), vec![], None));
                }
                Some(kf) => inner.extend(wrap(kf, stmts.clone(), &mut k)),
            }
        }
        let framed: Vec<S> = if f == "mixin-far" {
            k += 1;
            prelude.push(S::MixinDef(format!("far{}", k + 1), noparams(), inner));
            vec![S::Include(format!("far{}", k + 1), vec![], None)]
        } else {
            wrap(f, inner, &mut k)
        };
        let mut prog = prelude;
        match variant {
            0 => prog.extend(framed),
            1 => {
                prog.push(set("x", i(5)));
                prog.extend(framed);
            }
            2 => {
                prog.extend(framed);
                prog.push(set("x", b("+", v("x"), i(10))));
            }
            _ => {
                // the frame inside a style rule
                prog.push(S::Rule("o".into(), framed));
            }
        }
        prog.push(S::Probe(v("x")));
        prog.push(S::Probe(v("y")));
        Some(prog)
    };
    (n, build)
}

// ---- 1b. closures --------------------------------------------------------------------------------

/// Sequences over {define function / mixin reading $x, assign, assign !global, call, include, probe}
/// inside 5 enclosing contexts: what a callable sees is the scope where it was written, as it is when
/// the callable runs.
fn closure_programs(ctx: &Ctx) -> Vec<Vec<S>> {
    #[derive(Clone, Copy, PartialEq)]
    enum A {
        DefF,
        DefM,
        Set,
        SetG,
        CallF,
        CallM,
        ProbeX,
        DeclX,
    }
    let alpha = [A::DefF, A::DefM, A::Set, A::SetG, A::CallF, A::CallM, A::ProbeX, A::DeclX];
    let maxlen = ctx.pick(5, 6);
    let mut seqs: Vec<Vec<A>> = vec![vec![]];
    let mut all: Vec<Vec<A>> = Vec::new();
    for _ in 0..maxlen {
        let mut next = Vec::new();
        for s in &seqs {
            for a in alpha {
                let mut t = s.clone();
                t.push(a);
                next.push(t);
            }
        }
        all.extend(next.iter().cloned());
        seqs = next;
    }
    let mut out = Vec::new();
    for seq in all {
        // calls only after a definition in the same sequence; at least one call
        let mut f = false;
        let mut m = false;
        let mut ok = true;
        let mut calls = 0;
        for a in &seq {
            match a {
                A::DefF => f = true,
                A::DefM => m = true,
                A::CallF => {
                    calls += 1;
                    ok &= f
                }
                A::CallM => {
                    calls += 1;
                    ok &= m
                }
                _ => {}
            }
        }
        if !ok || calls == 0 {
            continue;
        }
        let mut n = 0i64;
        let body: Vec<S> = seq
            .iter()
            .map(|a| {
                n += 1;
                match a {
                    A::DefF => S::FuncDef("f".into(), noparams(), vec![S::Return(v("x"))]),
                    A::DefM => S::MixinDef("m".into(), noparams(), vec![S::Probe(v("x")), set("x", b("+", v("x"), i(100)))]),
                    A::Set => set("x", i(n)),
                    A::SetG => S::Set { var: "x".into(), e: i(n * 10), global: true, default: false },
                    A::CallF => S::Probe(E::Call("f".into(), vec![])),
                    A::CallM => S::Include("m".into(), vec![], None),
                    A::ProbeX => S::Probe(v("x")),
                    A::DeclX => S::Decl(v("x")),
                }
            })
            .collect();
        for ctxk in 0..5 {
            // definitions of callables are only legal at the root and directly inside style rules
            let has_def = seq.iter().any(|a| matches!(a, A::DefF | A::DefM));
            let has_decl = seq.iter().any(|a| matches!(a, A::DeclX));
            if has_decl && !matches!(ctxk, 1 | 2) {
                continue; // a declaration needs an enclosing style rule
            }
            let mut prog = vec![set("x", i(0))];
            match ctxk {
                0 => prog.extend(body.clone()),
                1 => prog.push(S::Rule("r".into(), body.clone())),
                2 => prog.push(S::Rule("r".into(), vec![set("x", i(-1)), S::Rule("s".into(), body.clone())])),
                3 => {
                    if has_def {
                        // callables defined outside, used inside a mixin body
                        continue;
                    }
                    prog.push(S::MixinDef("w".into(), noparams(), body.clone()));
                    prog.push(S::Include("w".into(), vec![], None));
                }
                _ => {
                    if has_def {
                        continue;
                    }
                    prog.push(S::If(vec![(E::Bool(true), body.clone())], None));
                }
            }
            prog.push(S::Probe(v("x")));
            out.push(prog);
        }
    }
    out
}
// ---- 2. control flow -----------------------------------------------------------------------------

fn control_programs() -> Vec<Vec<S>> {
    let mut out: Vec<Vec<S>> = Vec::new();
    // @for over from,to in -2..3, to / through
    for from in -2..=3 {
        for to in -2..=3 {
            for through in [false, true] {
                out.push(vec![S::For("i".into(), i(from), i(to), through, vec![S::Probe(v("i"))]), S::Probe(i(99))]);
                // inside a function with @return from the loop
                out.push(vec![
                    S::FuncDef("f".into(), noparams(), vec![S::For("i".into(), i(from), i(to), through, vec![S::If(vec![(b("==", v("i"), i(1)), vec![S::Return(b("*", v("i"), i(10)))])], None), S::Probe(v("i"))]), S::Return(i(-1))]),
                    S::Probe(E::Call("f".into(), vec![])),
                ]);
            }
        }
    }
    // @each over lists / maps / nested lists with 1-3 variables
    let lists: Vec<E> = vec![
        E::List(vec![i(1), i(2), i(3)], false),
        E::List(vec![i(1), i(2)], true),
        E::List(vec![], true),
        i(5),
        E::Map(vec![(E::Ident("a".into()), i(1)), (E::Ident("b".into()), i(2))]),
        E::List(vec![E::List(vec![i(1), i(2)], false), E::List(vec![i(3), i(4), i(5)], false), i(6)], true),
        E::List(vec![E::Str("s".into()), E::Null, E::Bool(false)], false),
    ];
    for l in &lists {
        for nv in 1..=3 {
            let vars: Vec<String> = ["a", "b", "c"][..nv].iter().map(|s| s.to_string()).collect();
            let body: Vec<S> = vars.iter().map(|x| S::Probe(v(x))).collect();
            out.push(vec![S::Each(vars.clone(), l.clone(), body.clone())]);
            let mut fb = body.clone();
            fb.push(S::If(vec![(b("==", v("a"), i(3)), vec![S::Return(E::Ident("early".into()))])], None));
            out.push(vec![S::FuncDef("f".into(), noparams(), vec![S::Each(vars, l.clone(), fb), S::Return(E::Ident("end".into()))]), S::Probe(E::Call("f".into(), vec![]))]);
        }
    }
    // @while countdowns, nested loops with @return two levels up
    for n in 0..=3 {
        out.push(vec![set("n", i(n)), S::While(b(">", v("n"), i(0)), vec![S::Probe(v("n")), set("n", b("-", v("n"), i(1)))]), S::Probe(v("n"))]);
        out.push(vec![
            S::FuncDef(
                "f".into(),
                Params { params: vec![Param { name: "n".into(), default: None }], rest: None },
                vec![
                    S::While(b(">", v("n"), i(0)), vec![S::Each(vec!["k".into()], E::List(vec![i(1), i(2), i(3)], false), vec![S::If(vec![(b("==", b("+", v("k"), v("n")), i(4)), vec![S::Return(b("*", v("k"), i(100)))])], None)]), set("n", b("-", v("n"), i(1)))]),
                    S::Return(E::Ident("none".into())),
                ],
            ),
            S::Probe(E::Call("f".into(), vec![Arg::Pos(i(n))])),
        ]);
    }
    // @if / @else if / @else chains over truthiness classes
    let conds: Vec<E> = vec![E::Bool(true), E::Bool(false), E::Null, i(0), E::Str("".into()), E::List(vec![], true), E::Not(Box::new(E::Null)), b("==", i(1), i(1)), b("and", i(1), E::Null), b("or", E::Bool(false), i(0))];
    for c1 in &conds {
        for c2 in &conds {
            out.push(vec![S::If(vec![(c1.clone(), vec![S::Probe(i(1))]), (c2.clone(), vec![S::Probe(i(2))])], Some(vec![S::Probe(i(3))])), S::If(vec![(c1.clone(), vec![S::Probe(i(4))])], None)]);
        }
    }
    out
}

// ---- 3. callables --------------------------------------------------------------------------------

fn callable_programs(ctx: &Ctx) -> Vec<Vec<S>> {
    let mut out = Vec::new();
    // parameter kinds per slot: required, default constant, default referring to the previous parameter
    let names = ["a", "b", "c"];
    let mut plists: Vec<Params> = Vec::new();
    for n in 0..=3usize {
        let total = 3u32.pow(n as u32);
        for k in 0..total {
            let mut x = k;
            let mut ps = Vec::new();
            let mut ok = true;
            let mut seen_default = false;
            for slot in 0..n {
                let kind = x % 3;
                x /= 3;
                let d = match kind {
                    0 => {
                        if seen_default {
                            ok = false; // required after optional is a declaration error in Sass
                        }
                        None
                    }
                    1 => {
                        seen_default = true;
                        Some(i(10 + slot as i64))
                    }
                    _ => {
                        seen_default = true;
                        if slot == 0 {
                            Some(i(20))
                        } else {
                            Some(b("+", v(names[slot - 1]), i(100)))
                        }
                    }
                };
                ps.push(Param { name: names[slot].to_string(), default: d });
            }
            if !ok {
                continue;
            }
            for rest in [None, Some("r".to_string())] {
                plists.push(Params { params: ps.clone(), rest });
            }
        }
    }
    // call shapes
    let mut calls: Vec<Vec<Arg>> = Vec::new();
    let named_sets: Vec<Vec<(&str, i64)>> = vec![vec![], vec![("a", 7)], vec![("b", 8)], vec![("c", 9)], vec![("a", 7), ("b", 8)], vec![("b", 8), ("a", 7)], vec![("c", 9), ("a", 7)], vec![("zz", 6)], vec![("a", 7), ("zz", 6)]];
    for npos in 0..=3usize {
        for ns in &named_sets {
            let mut a: Vec<Arg> = (0..npos).map(|k| Arg::Pos(i(k as i64 + 1))).collect();
            for (n, val) in ns {
                a.push(Arg::Named(n.to_string(), i(*val)));
            }
            calls.push(a);
        }
    }
    // splats
    calls.push(vec![Arg::Splat(E::List(vec![i(1), i(2)], true))]);
    calls.push(vec![Arg::Pos(i(1)), Arg::Splat(E::List(vec![i(2), i(3)], false))]);
    calls.push(vec![Arg::Splat(E::Map(vec![(E::Ident("a".into()), i(7)), (E::Ident("b".into()), i(8))]))]);
    calls.push(vec![Arg::Pos(i(1)), Arg::Splat(E::Map(vec![(E::Ident("c".into()), i(9))]))]);
    calls.push(vec![Arg::Splat(E::List(vec![i(1), i(2), i(3), i(4)], true))]);
    calls.push(vec![Arg::Named("a_b".into(), i(1))]);
    let quick = ctx.quick();
    for (pi, p) in plists.iter().enumerate() {
        for (ci, c) in calls.iter().enumerate() {
            let _ = (quick, pi, ci);
            let mut body: Vec<S> = p.params.iter().map(|q| S::Probe(v(&q.name))).collect();
            if let Some(r) = &p.rest {
                body.push(S::Probe(v(r)));
                body.push(S::Probe(E::Call("keywords".into(), vec![Arg::Pos(v(r))])));
            }
            // function form
            let mut fb = body.clone();
            fb.push(S::Return(i(0)));
            out.push(vec![S::FuncDef("f".into(), p.clone(), fb), S::Probe(E::Call("f".into(), c.clone()))]);
            // mixin form
            out.push(vec![S::MixinDef("m".into(), p.clone(), body.clone()), S::Rule("o".into(), vec![S::Include("m".into(), c.clone(), None)])]);
        }
    }
    // @content with arguments
    for c in calls.iter().take(40) {
        for using in plists.iter().filter(|p| p.params.len() <= 2).take(12) {
            let body: Vec<S> = using.params.iter().map(|q| S::Probe(v(&q.name))).collect();
            out.push(vec![
                set("x", i(1)),
                S::MixinDef("m".into(), noparams(), vec![set("x", i(50)), S::Content(c.clone())]),
                S::Rule("o".into(), vec![S::Include("m".into(), vec![], Some((using.clone(), { let mut bb = body.clone(); bb.push(S::Probe(v("x"))); bb })))]),
            ]);
        }
    }
    out
}

// ---- 4. operators --------------------------------------------------------------------------------

fn operator_programs(ctx: &Ctx) -> Vec<(Vec<S>, E)> {
    let leaves: Vec<E> = vec![i(1), i(2), i(-3), E::Str("s".into()), E::Ident("t".into()), E::Bool(true), E::Bool(false), E::Null, i(0)];
    let ops = ["+", "-", "*", "%", "==", "!=", "<", ">", "<=", ">=", "and", "or"];
    let mut exprs: Vec<E> = Vec::new();
    // depth 1
    for op in ops {
        for l in &leaves {
            for r in &leaves {
                exprs.push(b(op, l.clone(), r.clone()));
            }
        }
    }
    for l in &leaves {
        exprs.push(E::Not(Box::new(l.clone())));
        exprs.push(E::Neg(Box::new(l.clone())));
    }
    // depth 2 / 3 over a smaller alphabet: precedence and associativity
    let small: Vec<E> = vec![i(1), i(2), i(3), E::Bool(false), E::Str("s".into())];
    let ops2 = ["+", "-", "*", "%", "==", "<", "and", "or"];
    for o1 in ops2 {
        for o2 in ops2 {
            for a in &small {
                for c in &small {
                    for d in &small {
                        exprs.push(b(o2, b(o1, a.clone(), c.clone()), d.clone()));
                        exprs.push(b(o1, a.clone(), b(o2, c.clone(), d.clone())));
                    }
                }
            }
        }
    }
    {
        // all five shapes of 3-operator trees (the minimal-parentheses spelling of each is a flat or
        // partly parenthesised chain whose natural parse must be that tree)
        let tiny: Vec<E> = if ctx.thorough() { vec![i(1), i(2), E::Bool(false), E::Str("s".into())] } else { vec![i(1), i(2), E::Bool(false)] };
        for o1 in ops2 {
            for o2 in ops2 {
                for o3 in ops2 {
                    for a in &tiny {
                        for c in &tiny {
                            exprs.push(b(o3, b(o2, b(o1, a.clone(), c.clone()), i(3)), i(2)));
                            exprs.push(b(o1, a.clone(), b(o2, c.clone(), b(o3, i(3), i(2)))));
                            exprs.push(b(o2, b(o1, a.clone(), c.clone()), b(o3, i(3), i(2))));
                            exprs.push(b(o3, b(o1, a.clone(), b(o2, c.clone(), i(3))), i(2)));
                            exprs.push(b(o1, a.clone(), b(o3, b(o2, c.clone(), i(3)), i(2))));
                            exprs.push(E::Not(Box::new(b(o2, b(o1, a.clone(), c.clone()), i(3)))));
                        }
                    }
                }
            }
        }
    }
    // short circuit observed through a @debug-ing function
    let tr = S::FuncDef("tr".into(), Params { params: vec![Param { name: "v".into(), default: None }], rest: None }, vec![S::Debug(v("v")), S::Return(v("v"))]);
    let mut out: Vec<(Vec<S>, E)> = exprs.into_iter().map(|e| (vec![S::Probe(e.clone())], e)).collect();
    let vals: Vec<E> = vec![i(1), E::Bool(false), E::Null, i(0)];
    for op in ["and", "or"] {
        for l in &vals {
            for r in &vals {
                for t in &vals {
                    let e = b(op, E::Call("tr".into(), vec![Arg::Pos(l.clone())]), b(if op == "and" { "or" } else { "and" }, E::Call("tr".into(), vec![Arg::Pos(r.clone())]), E::Call("tr".into(), vec![Arg::Pos(t.clone())])));
                    out.push((vec![tr.clone(), S::Probe(e.clone())], e));
                }
            }
        }
    }
    out
}

fn run_space(ctx: &Ctx, sub: &'static str, progs: &[Vec<S>], bound: &str) {
    run_space_fn(ctx, sub, progs.len() as u64, &|i| progs.get(i as usize).cloned(), bound)
}

/// `build(i)` constructs case i on the worker (None = the combination is not a legal program)
fn run_space_fn(ctx: &Ctx, sub: &'static str, n: u64, build: &(dyn Fn(u64) -> Option<Vec<S>> + Sync), bound: &str) {
    par(
        ctx,
        sub,
        n,
        |i| match build(i) {
            Some(p) => json!({"program": print_program(&p).0}),
            None => json!(null),
        },
        |i, l| {
            let prog = match build(i) {
                Some(p) => p,
                None => {
                    l.count("not_a_legal_program", 1);
                    return;
                }
            };
            // every case runs on the worker thread: since named arguments and scopes are insertion-ordered
            // (fix 72c4779, 43b1fde) no output of these programs depends on thread-local state, and C02 is the
            // check that owns history independence
            let (diff, produced_values, src) = compare_on(&prog, false);
            l.evals += 1;
            l.validated += 1;
            l.outcome(digest_str(&src));
            if produced_values {
                l.nontrivial += 1;
                l.count("programs_producing_values", 1);
            } else {
                l.count("programs_failing_in_both", 1);
            }
            if let Some(d) = diff {
                ctx.violation(sub, &format!("eval:{}", src.replace('\n', " ")), &d, json!({"program": src}));
            }
        },
    );
    ctx.bound(sub, bound, true);
    if let Some(p) = build(n / 2).or_else(|| build(0)) {
        ctx.sample(sub, json!({"program": print_program(&p).0}));
    }
}

pub fn run(ctx: &Ctx) {
    // the watchdog's clock also covers the harness's own oracle work (reference models, DOM enumeration);
    // the limit is generous so that machine load cannot turn a slow case into a verdict
    ctx.hang_limit_s.store(300, std::sync::atomic::Ordering::Relaxed);
    let (sn, sbuild) = scoping_space(ctx);
    run_space_fn(ctx, "scoping", sn, &sbuild, "10 frame kinds (rule, @if at root, @else, @each, @for, @while, mixin defined here / at root, function, content block) x bodies of <= 2 (thorough 3) statements from an 8-statement alphabet with one nested frame holding <= 2 statements before / after (thorough: between) x 4 placements; probes of $x and $y after every program");
    let clp = closure_programs(ctx);
    run_space(ctx, "closures", &clp, "every sequence of <= 5 (thorough 6) steps over {define a function / a mixin reading $x, assign $x, assign $x !global, call, include, probe} with calls after their definitions, at the root, in a style rule, in a nested style rule with a shadowing local, (definition-free sequences) in a mixin body and in @if");
    let cp = control_programs();
    run_space(ctx, "control-flow", &cp, "@for over from,to in -2..3 x {to, through} (plain and with @return from the loop); @each over 7 list/map shapes x 1-3 variables; @while countdowns and @return through nested loops; @if/@else if/@else over 10x10 truthiness classes");
    let kp = callable_programs(ctx);
    run_space(ctx, "callables", &kp, "all parameter lists with <= 3 parameters (required / constant default / default referring to the previous parameter / rest) x 42 call shapes (positional, named in both orders, unknown names, list / map splats), as function and as mixin; @content with arguments");
    let op = operator_programs(ctx);
    // operators: minimal and full parenthesisation must agree with each other and with the reference
    let sub = "operators";
    par(
        ctx,
        sub,
        op.len() as u64,
        |i| json!({"expr": op[i as usize].1.scss()}),
        |i, l| {
            let (prog, e) = &op[i as usize];
            let (diff, ok, src) = compare_on(prog, false);
            l.evals += 1;
            l.validated += 1;
            l.outcome(digest_str(&src));
            if ok {
                l.nontrivial += 1;
            }
            if let Some(d) = diff {
                ctx.violation(sub, &format!("eval:{}", e.scss()), &d, json!({"program": src}));
                return;
            }
            // fully parenthesised spelling of the same tree
            let full = format!("q {{ p0: inspect({}); }}", e.scss_full());
            let min = format!("q {{ p0: inspect({}); }}", e.scss());
            if full != min && !src.contains("@function") {
                l.evals += 2;
                let a = compile(&full, &Cfg::scss());
                let b2 = compile(&min, &Cfg::scss());
                let same = match (&a, &b2) {
                    (Outcome::Ok(x), Outcome::Ok(y)) => x == y,
                    (Outcome::Err(_), Outcome::Err(_)) => true,
                    _ => false,
                };
                if !same {
                    ctx.violation(sub, &format!("eval:paren:{}", e.scss()), &format!("`{}` and its fully parenthesised form `{}` evaluate differently", e.scss(), e.scss_full()), json!({"minimal": min, "full": full}));
                }
            }
        },
    );
    ctx.bound(sub, "all binary expressions over 12 operators x 9x9 leaves, unary not/minus, all 2-operator trees (both associations) over 8 operators x 5^3 leaves, all five shapes of 3-operator trees over 8^3 operators x 3^2 (thorough 4^2) leaves, each against the reference and against its fully parenthesised spelling; and/or short-circuit observed through a logging function", true);
    ctx.sample(sub, json!({"expr": "1 + 2 * 3 == 7 and not false"}));
    ctx.assume("the reference interpreter (models/interp.rs) implements DESIGN A.1 and is part of the trusted base; values are restricted to integers, short strings, booleans, null, flat lists and maps whose inspect() form is unambiguous");
}
