use crate::core::Ctx;

pub mod c01;
pub mod c02;
pub mod c03;
pub mod c04;
pub mod c05;
pub mod c06;
pub mod c07;
pub mod c08;
pub mod c09;
pub mod c13;
pub mod c14;
pub mod c10;
pub mod c11;
pub mod c12;
pub mod c15;
pub mod c16;
pub mod c17;
pub mod c18;
pub mod c19;
pub mod c20;

pub fn lookup(prop: &str) -> Option<fn(&Ctx)> {
    Some(match prop {
        "C01" => c01::run,
        "C02" => c02::run,
        "C03" => c03::run,
        "C04" => c04::run,
        "C05" => c05::run,
        "C06" => c06::run,
        "C07" => c07::run,
        "C08" => c08::run,
        "C09" => c09::run,
        "C10" => c10::run,
        "C11" => c11::run,
        "C12" => c12::run,
        "C13" => c13::run,
        "C14" => c14::run,
        "C15" => c15::run,
        "C16" => c16::run,
        "C17" => c17::run,
        "C18" => c18::run,
        "C19" => c19::run,
        "C20" => c20::run,
        _ => return None,
    })
}

/// Isolated single-case executions (`mc --one <kind> ...`), used for cases that may abort
/// the process (stack overflow) or hang.
pub fn one(args: &[String]) -> i32 {
    match args.first().map(|s| s.as_str()) {
        Some("pump") => {
            let name = args.get(1).map(|s| s.as_str()).unwrap_or("");
            let d = args.get(2).and_then(|s| s.parse().ok()).unwrap_or(1);
            c01::one_pump(name, d)
        }
        Some("c02") => c02::zygote(),
        Some("c19-silent") => c19::one_silent(),
        Some("compile") => {
            // mc --one compile <scss|sass|css> <source> [compressed]
            let syn = match args.get(1).map(|s| s.as_str()) {
                Some("sass") => crate::core::Syn::Sass,
                Some("css") => crate::core::Syn::Css,
                _ => crate::core::Syn::Scss,
            };
            let src = args.get(2).cloned().unwrap_or_default();
            let cfg = crate::core::Cfg { syntax: Some(syn), compressed: args.get(3).map(|s| s == "compressed").unwrap_or(false), quiet: false, ..crate::core::Cfg::default() };
            let lg = crate::core::CollectLogger::new();
            let o = crate::core::compile_env(&src, &cfg, &crate::core::Env { fs: &grass_compiler::StdFs, logger: &lg });
            match &o {
                crate::core::Outcome::Ok(s) => println!("OK\n{}", s),
                crate::core::Outcome::Err(e) => println!("ERR\n{}", e.rendered),
                crate::core::Outcome::Panic(p) => println!("PANIC\n{}", p),
            }
            for e in lg.take() {
                println!("LOG {}", e.json());
            }
            0
        }
        _ => 2,
    }
}
