use crate::core::Ctx;

pub mod c17;

pub fn lookup(prop: &str) -> Option<fn(&Ctx)> {
    Some(match prop {
        "C17" => c17::run,
        _ => return None,
    })
}

/// Isolated single-case executions (`mc --one <kind> ...`), used for cases that may abort
/// the process (stack overflow) or hang.
pub fn one(_args: &[String]) -> i32 {
    2
}
