//! C04 — nesting, `&`, @at-root and bubbling at-rules flatten to equivalent flat CSS.
//! Every rule tree to a bounded depth/width is compiled; the emitted CSS is read by the independent
//! reader into (at-rule path, selector list, declarations) blocks and compared with the reference
//! flattener of DESIGN A.2.

use crate::core::*;
use crate::models::css;
use serde_json::json;

#[derive(Clone, Debug, PartialEq)]
pub enum N {
    Decl(String, String),
    NProp(String, Option<String>, Vec<N>),
    Rule(String, Vec<N>),
    Media(String, Vec<N>),
    Supports(String, Vec<N>),
    Unknown(String, Vec<N>),
    /// query: None = plain `@at-root { }`
    AtRoot(Option<String>, Vec<N>),
}

pub fn to_scss(nodes: &[N], ind: usize, out: &mut String) {
    let pad = "  ".repeat(ind);
    for n in nodes {
        match n {
            N::Decl(p, v) => out.push_str(&format!("{}{}: {};\n", pad, p, v)),
            N::NProp(p, v, ch) => {
                out.push_str(&format!("{}{}:{} {{\n", pad, p, v.as_ref().map(|x| format!(" {}", x)).unwrap_or_default()));
                to_scss(ch, ind + 1, out);
                out.push_str(&format!("{}}}\n", pad));
            }
            N::Rule(s, ch) => {
                out.push_str(&format!("{}{} {{\n", pad, s));
                to_scss(ch, ind + 1, out);
                out.push_str(&format!("{}}}\n", pad));
            }
            N::Media(q, ch) => {
                out.push_str(&format!("{}@media {} {{\n", pad, q));
                to_scss(ch, ind + 1, out);
                out.push_str(&format!("{}}}\n", pad));
            }
            N::Supports(q, ch) => {
                out.push_str(&format!("{}@supports {} {{\n", pad, q));
                to_scss(ch, ind + 1, out);
                out.push_str(&format!("{}}}\n", pad));
            }
            N::Unknown(h, ch) => {
                out.push_str(&format!("{}@{} {{\n", pad, h));
                to_scss(ch, ind + 1, out);
                out.push_str(&format!("{}}}\n", pad));
            }
            N::AtRoot(q, ch) => {
                out.push_str(&format!("{}@at-root{} {{\n", pad, q.as_ref().map(|x| format!(" {}", x)).unwrap_or_default()));
                to_scss(ch, ind + 1, out);
                out.push_str(&format!("{}}}\n", pad));
            }
        }
    }
}

// ---- reference flattener (A.2) --------------------------------------------------------------------

#[derive(Clone, Debug, PartialEq, Eq)]
pub struct Blk {
    pub path: Vec<String>,
    pub sel: Vec<String>,
    pub decls: Vec<(String, String)>,
}

pub struct ModelErr(pub String);

/// resolve a child selector list against the parent list
fn resolve(child: &str, parent: Option<&Vec<String>>, implicit: bool) -> Result<Vec<String>, ModelErr> {
    let cs: Vec<String> = css::split_top(child, ',').into_iter().map(|c| c.trim().to_string()).collect();
    let parent = match parent {
        None => {
            if child.contains('&') {
                return Err(ModelErr("top-level selector with &".into()));
            }
            return Ok(cs);
        }
        Some(p) => p,
    };
    let mut out: Vec<Vec<String>> = Vec::new();
    for c in &cs {
        if !c.contains('&') {
            if implicit {
                out.push(parent.iter().map(|p| format!("{} {}", p, c)).collect());
            } else {
                out.push(vec![c.clone()]);
            }
            continue;
        }
        if c.contains(":not(&)") {
            out.push(vec![c.replace(":not(&)", &format!(":not({})", parent.join(", ")))]);
            continue;
        }
        // `&suffix` extends the last simple selector of the parent; one with an argument cannot take a suffix
        let cb: Vec<char> = c.chars().collect();
        let has_suffix = cb.iter().enumerate().any(|(k, ch)| *ch == '&' && cb.get(k + 1).map(|n| n.is_ascii_alphanumeric() || *n == '-' || *n == '_').unwrap_or(false));
        if has_suffix && parent.iter().any(|p| p.ends_with(')') || p.ends_with(']') || p.ends_with('*')) {
            return Err(ModelErr("parent selector cannot take a suffix".into()));
        }
        // every `&` ranges over the parent list, leftmost varying slowest
        let n = c.matches('&').count();
        let mut res = Vec::new();
        let total = parent.len().pow(n as u32);
        for k in 0..total {
            let mut idx = Vec::new();
            let mut x = k;
            for _ in 0..n {
                idx.push(x % parent.len());
                x /= parent.len();
            }
            idx.reverse();
            let mut s = String::new();
            let mut it = idx.iter();
            for ch in c.chars() {
                if ch == '&' {
                    s.push_str(&parent[*it.next().unwrap()]);
                } else {
                    s.push(ch);
                }
            }
            res.push(s);
        }
        out.push(res);
    }
    // the per-child lists are interleaved "vertically": first results of every child, then second, ...
    let mut flat = Vec::new();
    let mut i = 0;
    while out.iter().any(|o| i < o.len()) {
        for o in &out {
            if i < o.len() {
                flat.push(o[i].clone());
            }
        }
        i += 1;
    }
    Ok(flat)
}

// The reference builds the output tree the way the language reference implementation describes it:
// every node is appended to a parent chosen by climbing "through" transparent ancestors; a parent that
// already has a visible following sibling is copied so that source order is kept; @at-root appends
// copies of the included ancestors at the end of the root it selects. The tree is then read off in
// document order.

#[derive(Clone, Debug, PartialEq)]
enum K {
    Root,
    Rule(Vec<String>),
    Media(String),
    Supports(String),
    Unknown(String),
    Decl(String, String),
}

struct T {
    kind: K,
    parent: Option<usize>,
    children: Vec<usize>,
}

struct Tree {
    n: Vec<T>,
    parent: usize,
    style_rule: Option<Vec<String>>, // ignoring @at-root
    at_root_excluding_style_rule: bool,
    media: Option<Vec<String>>, // features of the enclosing (merged) media query
    in_unknown: bool,
}

impl Tree {
    fn add(&mut self, kind: K, parent: usize) -> usize {
        self.n.push(T { kind, parent: Some(parent), children: vec![] });
        let id = self.n.len() - 1;
        self.n[parent].children.push(id);
        id
    }
    fn invisible(&self, id: usize) -> bool {
        match &self.n[id].kind {
            K::Decl(..) => false,
            K::Unknown(_) => false,
            _ => self.n[id].children.iter().all(|c| self.invisible(*c)),
        }
    }
    fn has_following_sibling(&self, id: usize) -> bool {
        match self.n[id].parent {
            None => false,
            Some(p) => {
                let sibs = &self.n[p].children;
                let at = sibs.iter().position(|x| *x == id).unwrap();
                sibs[at + 1..].iter().any(|s| !self.invisible(*s))
            }
        }
    }
    fn style_rule_now(&self) -> Option<Vec<String>> {
        if self.at_root_excluding_style_rule {
            None
        } else {
            self.style_rule.clone()
        }
    }
    /// append `kind` below the current parent, climbing through ancestors accepted by `through`
    fn add_child(&mut self, kind: K, through: Option<&dyn Fn(&K) -> bool>) -> usize {
        let mut parent = self.parent;
        if let Some(th) = through {
            while th(&self.n[parent].kind) {
                parent = self.n[parent].parent.expect("through() never accepts the root");
            }
            if self.has_following_sibling(parent) {
                let grand = self.n[parent].parent.unwrap();
                let last = *self.n[grand].children.last().unwrap();
                if self.n[last].kind == self.n[parent].kind {
                    parent = last;
                } else {
                    let copy = self.n[parent].kind.clone();
                    parent = self.add(copy, grand);
                }
            }
        }
        self.add(kind, parent)
    }
    fn with_parent<R>(&mut self, kind: K, through: Option<&dyn Fn(&K) -> bool>, f: impl FnOnce(&mut Self) -> R) -> R {
        let id = self.add_child(kind, through);
        let old = self.parent;
        self.parent = id;
        let r = f(self);
        self.parent = old;
        r
    }

    fn go(&mut self, nodes: &[N], prefix: &str) -> Result<(), ModelErr> {
        for n in nodes {
            match n {
                N::Decl(p, v) => {
                    if self.style_rule_now().is_none() && !self.in_unknown {
                        return Err(ModelErr("declaration outside a style rule".into()));
                    }
                    let par = self.parent;
                    self.add(K::Decl(format!("{}{}", prefix, p), v.clone()), par);
                }
                N::NProp(p, v, ch) => {
                    if self.style_rule_now().is_none() && !self.in_unknown {
                        return Err(ModelErr("declaration outside a style rule".into()));
                    }
                    if let Some(v) = v {
                        let par = self.parent;
                        self.add(K::Decl(format!("{}{}", prefix, p), v.clone()), par);
                    }
                    self.go(ch, &format!("{}{}-", prefix, p))?;
                }
                N::Rule(s, ch) => {
                    if !prefix.is_empty() {
                        return Err(ModelErr("style rule inside nested properties".into()));
                    }
                    let resolved = resolve(s, self.style_rule.as_ref(), !self.at_root_excluding_style_rule)?;
                    let old_excl = self.at_root_excluding_style_rule;
                    self.at_root_excluding_style_rule = false;
                    let old_rule = self.style_rule.replace(resolved.clone());
                    let r = self.with_parent(K::Rule(resolved), Some(&|k: &K| matches!(k, K::Rule(_))), |t| t.go(ch, ""));
                    self.style_rule = old_rule;
                    self.at_root_excluding_style_rule = old_excl;
                    r?;
                }
                N::Media(q, ch) => {
                    if !prefix.is_empty() {
                        return Err(ModelErr("at-rule inside nested properties".into()));
                    }
                    let merged: Option<Vec<String>> = self.media.as_ref().map(|m| {
                        let mut v = m.clone();
                        v.push(q.clone());
                        v
                    });
                    let is_merged = merged.is_some();
                    let feats = merged.unwrap_or_else(|| vec![q.clone()]);
                    let hdr = format!("@media {}", feats.join(" and "));
                    let old_media = self.media.replace(feats);
                    let through = move |k: &K| matches!(k, K::Rule(_)) || (is_merged && matches!(k, K::Media(_)));
                    let r = self.with_parent(K::Media(hdr), Some(&through), |t| match t.style_rule_now() {
                        Some(sr) => t.with_parent(K::Rule(sr), None, |t| t.go(ch, "")),
                        None => t.go(ch, ""),
                    });
                    self.media = old_media;
                    r?;
                }
                N::Supports(q, ch) => {
                    if !prefix.is_empty() {
                        return Err(ModelErr("at-rule inside nested properties".into()));
                    }
                    self.with_parent(K::Supports(format!("@supports {}", q)), Some(&|k: &K| matches!(k, K::Rule(_))), |t| match t.style_rule_now() {
                        Some(sr) => t.with_parent(K::Rule(sr), None, |t| t.go(ch, "")),
                        None => t.go(ch, ""),
                    })?;
                }
                N::Unknown(h, ch) => {
                    if !prefix.is_empty() {
                        return Err(ModelErr("at-rule inside nested properties".into()));
                    }
                    let was = self.in_unknown;
                    self.in_unknown = true;
                    let r = self.with_parent(K::Unknown(format!("@{}", h)), Some(&|k: &K| matches!(k, K::Rule(_))), |t| match t.style_rule_now() {
                        Some(sr) => t.with_parent(K::Rule(sr), None, |t| t.go(ch, "")),
                        None => t.go(ch, ""),
                    });
                    self.in_unknown = was;
                    r?;
                }
                N::AtRoot(q, ch) => {
                    if !prefix.is_empty() {
                        return Err(ModelErr("@at-root inside nested properties".into()));
                    }
                    let query = Query::parse(q.as_deref())?;
                    let mut included: Vec<usize> = Vec::new();
                    let mut cur = self.parent;
                    while let Some(p) = self.n[cur].parent {
                        if !query.excludes(&self.n[cur].kind) {
                            included.push(cur);
                        }
                        cur = p;
                    }
                    let root = self.trim_included(&mut included);
                    if root == self.parent {
                        self.go(ch, "")?;
                        continue;
                    }
                    let mut inner = root;
                    for node in included.iter().rev() {
                        let copy = self.n[*node].kind.clone();
                        inner = self.add(copy, inner);
                    }
                    let old_parent = self.parent;
                    let old_excl = self.at_root_excluding_style_rule;
                    let old_media = self.media.clone();
                    let old_unknown = self.in_unknown;
                    self.parent = inner;
                    if query.excludes_style_rules() {
                        self.at_root_excluding_style_rule = true;
                    }
                    if self.media.is_some() && query.excludes_name("media") {
                        self.media = None;
                    }
                    if self.in_unknown && !included.iter().any(|i| matches!(self.n[*i].kind, K::Unknown(_))) {
                        self.in_unknown = false;
                    }
                    let r = self.go(ch, "");
                    self.parent = old_parent;
                    self.at_root_excluding_style_rule = old_excl;
                    self.media = old_media;
                    self.in_unknown = old_unknown;
                    r?;
                }
            }
        }
        Ok(())
    }

    /// the innermost node of the run of included ancestors that reaches the root without a gap is
    /// reused as it is (and the run is removed from `nodes`); only the rest is copied
    fn trim_included(&self, nodes: &mut Vec<usize>) -> usize {
        if nodes.is_empty() {
            return 0;
        }
        let mut parent = self.parent;
        let mut innermost: Option<usize> = None;
        for i in 0..nodes.len() {
            while parent != nodes[i] {
                innermost = None;
                parent = self.n[parent].parent.expect("included nodes are ancestors");
            }
            innermost = innermost.or(Some(i));
            parent = self.n[parent].parent.expect("included nodes are below the root");
        }
        if parent != 0 {
            return 0;
        }
        let k = innermost.unwrap();
        let root = nodes[k];
        nodes.truncate(k);
        root
    }

    fn read_off(&self, id: usize, path: &mut Vec<String>, out: &mut Vec<Blk>) {
        let mut run: Vec<(String, String)> = Vec::new();
        let sel: Vec<String> = match &self.n[id].kind {
            K::Rule(s) => s.clone(),
            _ => vec![],
        };
        for c in &self.n[id].children {
            match &self.n[*c].kind {
                K::Decl(p, v) => run.push((p.clone(), v.clone())),
                k => {
                    if !run.is_empty() {
                        out.push(Blk { path: path.clone(), sel: sel.clone(), decls: std::mem::take(&mut run) });
                    }
                    match k {
                        K::Media(h) | K::Supports(h) | K::Unknown(h) => {
                            path.push(h.clone());
                            self.read_off(*c, path, out);
                            path.pop();
                        }
                        _ => self.read_off(*c, path, out),
                    }
                }
            }
        }
        if !run.is_empty() {
            out.push(Blk { path: path.clone(), sel, decls: run });
        }
    }
}

struct Query {
    include: bool,
    names: Vec<String>,
}

impl Query {
    fn parse(q: Option<&str>) -> Result<Query, ModelErr> {
        let q = match q {
            None => return Ok(Query { include: false, names: vec!["rule".into()] }),
            Some(q) => q.trim().trim_start_matches('(').trim_end_matches(')').to_string(),
        };
        let (kw, rest) = q.split_once(':').ok_or_else(|| ModelErr("query outside the model".into()))?;
        let include = match kw.trim() {
            "with" => true,
            "without" => false,
            _ => return Err(ModelErr("query outside the model".into())),
        };
        Ok(Query { include, names: rest.split_whitespace().map(|s| s.to_lowercase()).collect() })
    }
    fn all(&self) -> bool {
        self.names.iter().any(|n| n == "all")
    }
    fn excludes_name(&self, name: &str) -> bool {
        (self.all() || self.names.iter().any(|n| n == name)) != self.include
    }
    fn excludes_style_rules(&self) -> bool {
        (self.all() || self.names.iter().any(|n| n == "rule")) != self.include
    }
    fn excludes(&self, k: &K) -> bool {
        if self.all() {
            return !self.include;
        }
        match k {
            K::Rule(_) => self.excludes_style_rules(),
            K::Media(_) => self.excludes_name("media"),
            K::Supports(_) => self.excludes_name("supports"),
            K::Unknown(h) => self.excludes_name(&h.trim_start_matches('@').split_whitespace().next().unwrap_or("").to_lowercase()),
            _ => false,
        }
    }
}

pub fn model(nodes: &[N]) -> Result<Vec<Blk>, ModelErr> {
    let mut t = Tree { n: vec![T { kind: K::Root, parent: None, children: vec![] }], parent: 0, style_rule: None, at_root_excluding_style_rule: false, media: None, in_unknown: false };
    t.go(nodes, "")?;
    let mut out = Vec::new();
    t.read_off(0, &mut Vec::new(), &mut out);
    Ok(out.into_iter().filter(|b| !b.decls.is_empty()).collect())
}

pub fn read(cssout: &str) -> Result<Vec<Blk>, String> {
    let nodes = css::parse(cssout).map_err(|e| e.0)?;
    Ok(css::flatten(&nodes)
        .into_iter()
        .filter(|b| !b.decls.is_empty() && !b.decls[0].0.starts_with('@'))
        .map(|b| Blk { path: b.path, sel: if b.selector.is_empty() { vec![] } else { css::split_top(&b.selector, ',').into_iter().map(|s| css::squash_ws(&s)).collect() }, decls: b.decls })
        .collect())
}

// ---- generator -------------------------------------------------------------------------------------

const SELS_IN_RULE: &[&str] = &["b", "&", "& c", "&-s", "&.k", "d &", "b, c", "& + &", ":not(&)", "&:hover, e", "& > b, c &", "b &-s", "c, & + &", "& & &, d, &.k"];
const SELS_TOP: &[&str] = &["b", "b, c"];
const AT_ROOT_Q: &[Option<&str>] = &[None, Some("(without: media)"), Some("(with: rule)"), Some("(without: all)"), Some("(without: supports)"), Some("(with: media)"), Some("(without: rule)")];

struct Gen {
    sels: usize,
    queries: usize,
    pairs: bool,
}

impl Gen {
    /// all child lists for a block at remaining depth `depth`
    fn lists(&self, depth: usize, in_rule: bool, in_at: usize, in_style: bool) -> Vec<Vec<N>> {
        let mut singles: Vec<N> = Vec::new();
        if in_rule {
            singles.push(N::Decl(format!("p{}", depth), "v".into()));
            singles.push(N::NProp("np".into(), None, vec![N::Decl("q".into(), "w".into())]));
            if depth >= 1 {
                singles.push(N::NProp("f".into(), Some("u".into()), vec![N::Decl("g".into(), "w".into()), N::NProp("h".into(), None, vec![N::Decl("i".into(), "x".into())])]));
                // declarations after an inner nested block, two and three levels deep
                singles.push(N::NProp("j".into(), None, vec![N::NProp("k".into(), None, vec![N::Decl("l".into(), "x".into())]), N::Decl("m".into(), "w".into())]));
                singles.push(N::NProp("j".into(), None, vec![N::Decl("a".into(), "w".into()), N::NProp("k".into(), Some("u".into()), vec![N::NProp("l".into(), None, vec![N::Decl("n".into(), "x".into())]), N::Decl("o".into(), "y".into())]), N::Decl("m".into(), "w".into())]));
            }
        }
        if depth > 0 {
            let sels: Vec<&str> = if in_rule { SELS_IN_RULE[..self.sels.min(SELS_IN_RULE.len())].to_vec() } else { SELS_TOP.to_vec() };
            for s in sels {
                for ch in self.lists(depth - 1, true, in_at, true) {
                    singles.push(N::Rule(s.to_string(), ch));
                }
            }
            if in_at < 2 {
                for ch in self.lists(depth - 1, in_rule, in_at + 1, in_style) {
                    singles.push(N::Media(if in_at == 0 { "(m)".into() } else { "(n)".into() }, ch.clone()));
                    singles.push(N::Supports("(s: t)".into(), ch.clone()));
                    singles.push(N::Unknown("x y".into(), ch));
                }
            }
            // @at-root wherever a style rule encloses it (also directly inside another @at-root)
            if in_style {
                for q in &AT_ROOT_Q[..self.queries.min(AT_ROOT_Q.len())] {
                    let inner_rule = matches!(q, Some("(without: media)") | Some("(with: rule)") | Some("(without: supports)"));
                    for ch in self.lists(depth - 1, inner_rule && in_rule, in_at, in_style) {
                        singles.push(N::AtRoot(q.map(|s| s.to_string()), ch));
                    }
                }
            }
        }
        let mut out: Vec<Vec<N>> = singles.iter().map(|s| vec![s.clone()]).collect();
        if self.pairs {
            let mut sib: Vec<N> = Vec::new();
            if in_rule {
                sib.push(N::Decl("z".into(), "y".into()));
            }
            sib.push(N::Rule("g".into(), vec![N::Decl("h".into(), "i".into())]));
            for s in &singles {
                for t in &sib {
                    out.push(vec![s.clone(), t.clone()]);
                    out.push(vec![t.clone(), s.clone()]);
                }
                if in_rule {
                    out.push(vec![sib[0].clone(), s.clone(), sib[0].clone()]);
                }
            }
        }
        out
    }
}

fn judge(tree: &[N], l: &mut Local) -> Option<String> {
    let mut src = String::new();
    to_scss(tree, 0, &mut src);
    l.evals += 1;
    let got = compile(&src, &Cfg::scss());
    l.validated += 1;
    let want = model(tree);
    match (&want, &got) {
        (Err(_), Outcome::Err(_)) => {
            l.count("rejected_by_both", 1);
            l.outcome(1);
            None
        }
        (Err(e), Outcome::Ok(c)) => Some(format!("the tree is not legal ({}) but compiles to {:?}", e.0, css::squash_ws(c))),
        (_, Outcome::Panic(p)) => Some(format!("panic: {}", p)),
        (Ok(w), Outcome::Err(e)) => Some(format!("flattening by hand gives {} blocks but grass fails: {}", w.len(), e.message)),
        (Ok(w), Outcome::Ok(c)) => {
            l.outcome(digest_str(c));
            l.nontrivial += 1;
            match read(c) {
                Err(e) => Some(format!("the output is not readable CSS: {}", e)),
                Ok(g) => {
                    if &g == w {
                        None
                    } else {
                        let mut gs = g.clone();
                        let mut ws = w.clone();
                        gs.sort_by(|a, b| format!("{:?}", a).cmp(&format!("{:?}", b)));
                        ws.sort_by(|a, b| format!("{:?}", a).cmp(&format!("{:?}", b)));
                        let kind = if gs == ws { "block order" } else { "content" };
                        Some(format!("{} differs: expected {:?}, got {:?}", kind, w, g))
                    }
                }
            }
        }
    }
}

fn run_trees(ctx: &Ctx, sub: &'static str, bound: &str, trees: &[Vec<N>]) {
    par(
        ctx,
        sub,
        trees.len() as u64,
        |i| {
            let mut s = String::new();
            to_scss(&trees[i as usize], 0, &mut s);
            json!({"input": s})
        },
        |i, l| {
            if let Some(d) = judge(&trees[i as usize], l) {
                let mut s = String::new();
                to_scss(&trees[i as usize], 0, &mut s);
                ctx.violation(sub, &format!("flat:{}", css::squash_ws(&s)), &d, json!({"input": s}));
            }
        },
    );
    ctx.bound(sub, bound, true);
    if !trees.is_empty() {
        let mut s = String::new();
        to_scss(&trees[trees.len() / 2], 0, &mut s);
        ctx.sample(sub, json!({"input": s}));
    }
}

pub fn run(ctx: &Ctx) {
    // the watchdog's clock also covers the harness's own oracle work (reference models, DOM enumeration);
    // the limit is generous so that machine load cannot turn a slow case into a verdict
    ctx.hang_limit_s.store(300, std::sync::atomic::Ordering::Relaxed);
    // depth 2, full alphabet, sibling pairs
    let g2 = Gen { sels: 14, queries: 7, pairs: true };
    let t2 = g2.lists(2, false, 0, false);
    run_trees(ctx, "depth2", "all trees of depth <= 2 below the root (style rules with 14 selector forms incl. `&` alone / suffix / compound / repeated / repeated inside a list / in :not() / in lists, nested properties with and without a value, @media, @supports, unknown at-rule, @at-root with 7 queries, declarations), each child list alone and with a declaration / rule sibling before, after and around", &t2);
    // depth 3, reduced alphabets
    let g3 = Gen { sels: ctx.pick(5, 12), queries: 7, pairs: false };
    let t3 = g3.lists(3, false, 0, false);
    run_trees(ctx, "depth3", "all single-child chains of depth 3 over the first 5 (thorough 12) selector forms and all 7 @at-root queries", &t3);
    let g3p = Gen { sels: ctx.pick(2, 4), queries: ctx.pick(4, 7), pairs: true };
    let t3p = g3p.lists(3, false, 0, false);
    run_trees(ctx, "depth3-siblings", "all trees of depth 3 with a declaration / rule sibling before, after and around at every level over 2 (thorough 4) selector forms and 4 (thorough 7) @at-root queries", &t3p);
    let g4 = Gen { sels: ctx.pick(2, 4), queries: 7, pairs: false };
    let t4 = g4.lists(4, false, 0, false);
    run_trees(ctx, "depth4", "all single-child chains of depth 4 over 2 (thorough 4) selector forms and all 7 @at-root queries (two nested at-rules around a rule around @at-root)", &t4);
    {
        // @at-root directly inside @at-root, with statements after the inner one
        let leaf = |sel: &str| N::Rule(sel.to_string(), vec![N::Decl("p".into(), "v".into())]);
        let inner_bodies: Vec<Vec<N>> = vec![vec![leaf("c")], vec![leaf("& c")], vec![N::Media("(n)".into(), vec![leaf("c")])], vec![N::Supports("(s: t)".into(), vec![leaf("c")])]];
        let afters: Vec<Vec<N>> = vec![
            vec![leaf("g")],
            vec![leaf("&-g")],
            vec![N::Media("(n)".into(), vec![leaf("g")])],
            vec![N::Supports("(s: t)".into(), vec![leaf("g")])],
            vec![N::Unknown("x y".into(), vec![leaf("g")])],
            vec![N::AtRoot(None, vec![leaf("g")]), leaf("h")],
        ];
        let mut trees: Vec<Vec<N>> = Vec::new();
        for q1 in AT_ROOT_Q {
            for q2 in AT_ROOT_Q {
                for ib in &inner_bodies {
                    for af in &afters {
                        for befores in [false, true] {
                            let mut outer_body: Vec<N> = Vec::new();
                            if befores {
                                outer_body.push(leaf("e"));
                            }
                            outer_body.push(N::AtRoot(q2.map(|s| s.to_string()), ib.clone()));
                            outer_body.extend(af.clone());
                            let outer = N::AtRoot(q1.map(|s| s.to_string()), outer_body);
                            trees.push(vec![N::Rule("b".into(), vec![outer.clone()])]);
                            trees.push(vec![N::Rule("b, c".into(), vec![N::Decl("z".into(), "y".into()), outer.clone(), N::Decl("z2".into(), "y".into())])]);
                            trees.push(vec![N::Media("(m)".into(), vec![N::Rule("b".into(), vec![outer.clone()])])]);
                            trees.push(vec![N::Rule("b".into(), vec![N::Supports("(s: t)".into(), vec![outer.clone()])])]);
                        }
                    }
                }
            }
        }
        run_trees(ctx, "at-root-nesting", "7 x 7 @at-root queries nested directly in each other x 4 inner bodies x 6 kinds of statements after the inner one x with / without a rule before x 4 enclosing contexts", &trees);
    }
    {
        // three levels of at-rules around a style rule, with a later sibling: a parent that already has
        // a following sibling is copied where it stands (inside the outer at-rule), not at the root
        let leaf = |sel: &str| N::Rule(sel.to_string(), vec![N::Decl("p".into(), "v".into())]);
        let wrap = |kind: usize, body: Vec<N>| -> N {
            match kind {
                0 => N::Media("(m)".into(), body),
                1 => N::Supports("(s: t)".into(), body),
                _ => N::Unknown("x y".into(), body),
            }
        };
        let inners: Vec<N> = vec![
            N::Media("(n)".into(), vec![N::Decl("q".into(), "w".into())]),
            N::Supports("(u: v)".into(), vec![N::Decl("q".into(), "w".into())]),
            N::Unknown("z w".into(), vec![N::Decl("q".into(), "w".into())]),
            N::AtRoot(Some("(without: media)".into()), vec![N::Decl("q".into(), "w".into())]),
            N::AtRoot(Some("(without: supports)".into()), vec![N::Decl("q".into(), "w".into())]),
            N::AtRoot(Some("(with: rule)".into()), vec![N::Decl("q".into(), "w".into())]),
            N::Rule("&-n".into(), vec![N::Media("(n)".into(), vec![N::Decl("q".into(), "w".into())])]),
        ];
        let laters: Vec<Vec<N>> = vec![vec![leaf("g")], vec![N::Decl("z".into(), "y".into())], vec![leaf("& g"), N::Decl("z".into(), "y".into())]];
        let mut trees: Vec<Vec<N>> = Vec::new();
        for y in 0..3 {
            for x in 0..3 {
                for inner in &inners {
                    for later in &laters {
                        for before in [false, true] {
                            let mut body: Vec<N> = Vec::new();
                            if before {
                                body.push(N::Decl("f".into(), "h".into()));
                            }
                            body.push(inner.clone());
                            body.extend(later.clone());
                            // Y { X { a { ... } } },  Y { a { X { ... } } },  a { Y { X { ... } } }
                            trees.push(vec![wrap(y, vec![wrap(x, vec![N::Rule("a".into(), body.clone())])])]);
                            trees.push(vec![wrap(y, vec![N::Rule("a".into(), vec![wrap(x, body.clone())])])]);
                            trees.push(vec![N::Rule("a, b".into(), vec![wrap(y, vec![wrap(x, body.clone())])])]);
                            trees.push(vec![wrap(y, vec![leaf("e"), wrap(x, vec![N::Rule("a".into(), body.clone())]), leaf("h")])]);
                        }
                    }
                }
            }
        }
        run_trees(ctx, "at-rule-nesting", "3 x 3 outer at-rule pairs (@media, @supports, unknown) around a style rule in 4 arrangements x 7 inner statements that make the parent gain a following sibling (nested @media / @supports / unknown at-rule, @at-root with 3 queries, a nested rule holding @media) x 3 kinds of later siblings x with / without a declaration before", &trees);
    }
    let g5 = Gen { sels: ctx.pick(1, 3), queries: 7, pairs: false };
    let t5 = g5.lists(5, false, 0, false);
    run_trees(ctx, "depth5", "all single-child chains of depth 5 over 1 (thorough 3) selector forms and all 7 @at-root queries (e.g. @media > rule > @at-root > @media > rule)", &t5);
    if ctx.thorough() {
        let g4p = Gen { sels: 1, queries: 3, pairs: true };
        let t4p = g4p.lists(4, false, 0, false);
        run_trees(ctx, "depth4-siblings", "all trees of depth 4 with sibling pairs at every level over 1 selector form and 3 @at-root queries", &t4p);
    }
    ctx.assume("reference flattener of DESIGN A.2 (a style rule's block receives all its direct declarations; children follow in source order; nested @media joins features with `and`); selector lists are compared in order");
}
