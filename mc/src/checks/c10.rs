//! C10 — @extend makes extenders match wherever the target matched, nothing else.
//! Stylesheets of 2-4 rules with 1-3 @extend directives over a selector alphabet; every emitted
//! selector is parsed by the independent selector reader and judged against EVERY DOM tree of
//! <= 3 (thorough 4) elements over the features the program mentions, under extend crediting.

use crate::core::*;
use crate::models::css;
use crate::models::sel::*;
use serde_json::json;
use std::collections::BTreeSet;

#[derive(Clone, Debug)]
pub struct Prog {
    /// (selector text, extends declared in that rule (target text, optional), in @media?)
    pub rules: Vec<(String, Vec<(String, bool)>, bool)>,
}

impl Prog {
    pub fn source(&self) -> String {
        let mut s = String::new();
        for (i, (sel, exts, media)) in self.rules.iter().enumerate() {
            let body = format!("{}{{m:r{};{}}}", sel, i, exts.iter().map(|(t, opt)| format!("@extend {}{};", t, if *opt { " !optional" } else { "" })).collect::<String>());
            if *media {
                s.push_str(&format!("@media screen{{{}}}\n", body));
            } else {
                s.push_str(&body);
                s.push('\n');
            }
        }
        s
    }
}

/// read back: rule index -> (selector list, inside @media?)
fn read_rules(cssout: &str) -> Result<Vec<(usize, List, bool)>, String> {
    let tree = css::parse(cssout).map_err(|e| e.0)?;
    let blocks = css::flatten(&tree);
    let mut out = Vec::new();
    for b in blocks {
        if let Some((_, v)) = b.decls.iter().find(|d| d.0 == "m") {
            let idx: usize = v.trim_start_matches('r').parse().map_err(|_| format!("bad marker {}", v))?;
            let l = parse_list(&b.selector).map_err(|e| e.0)?;
            out.push((idx, l, !b.path.is_empty()));
        }
    }
    Ok(out)
}

/// crediting fixed point: elements matching an extender's selector are credited with its target
fn credit_fixpoint(f: &Features, dom: &[El], exts: &[(List, Simple)]) -> Credit {
    let mut credit: Credit = vec![BTreeSet::new(); dom.len()];
    loop {
        let mut changed = false;
        for (e_sel, target) in exts {
            for e in 0..dom.len() {
                if !credit[e].contains(target) && m_list(f, dom, e, e_sel, &credit) {
                    credit[e].insert(target.clone());
                    changed = true;
                }
            }
        }
        if !changed {
            return credit;
        }
    }
}

pub struct Verdict {
    pub problems: Vec<(String, String)>, // (class, description)
    pub doms: u64,
}

/// judge one program against its output
pub fn judge_program(p: &Prog, cssout: &str, maxn: usize) -> Verdict {
    let mut problems: Vec<(String, String)> = Vec::new();
    let orig: Vec<List> = match p.rules.iter().map(|r| parse_list(&r.0)).collect::<Result<Vec<_>, _>>() {
        Ok(o) => o,
        Err(e) => return Verdict { problems: vec![("harness".into(), e.0)], doms: 0 },
    };
    let new = match read_rules(cssout) {
        Ok(n) => n,
        Err(e) => return Verdict { problems: vec![("unreadable-output".into(), e)], doms: 0 },
    };
    // extensions: (extender rule's selector, target simple)
    let mut exts: Vec<(List, Simple)> = Vec::new();
    for (i, (_, es, _)) in p.rules.iter().enumerate() {
        for (t, _) in es {
            if let Ok(c) = parse_compound(t) {
                for s in c {
                    exts.push((orig[i].clone(), s));
                }
            }
        }
    }
    // crediting is a least fixed point of a monotone operator only when extenders do not use :not()
    if exts.iter().any(|(e, _)| mentions_not(e)) {
        return Verdict { problems, doms: 0 };
    }
    let single = exts.iter().all(|(e, _)| e.iter().all(|cx| compounds_in(cx) == 1));
    // (v) no placeholder in the output
    for (i, l, _) in &new {
        if has_placeholder(l) {
            problems.push(("placeholder-in-output".into(), format!("rule {} is emitted with a placeholder selector", i)));
        }
    }
    let targets: Vec<List> = exts.iter().map(|(_, t)| vec![vec![Part::C(vec![t.clone()])]]).collect();
    let mut all: Vec<&List> = orig.iter().collect();
    all.extend(targets.iter());
    for (_, l, _) in &new {
        all.push(l);
    }
    let feat = collect_features(&all);
    // keep the DOM space enumerable
    let nl = label_count(&feat);
    let mut maxn = if nl > 64 { maxn.min(2) } else if nl > 24 { maxn.min(3) } else { maxn };
    // an extender of three compounds woven into a two-compound rule needs four elements for a witness
    let deep = exts.iter().any(|(e, _)| e.iter().any(|cx| cx.iter().filter(|p| matches!(p, Part::C(_))).count() >= 3));
    if deep && nl <= 32 {
        maxn = maxn.max(4);
    }
    let mut first: Option<(String, String)> = None;
    let doms = for_each_dom(&feat, maxn, |dom| {
        let credit = credit_fixpoint(&feat, dom, &exts);
        let none: Credit = vec![BTreeSet::new(); dom.len()];
        for (i, s_orig) in orig.iter().enumerate() {
            let out_lists: Vec<&List> = new.iter().filter(|n| n.0 == i).map(|n| &n.1).collect();
            let ph = has_placeholder(s_orig);
            let with_not = mentions_not(s_orig);
            // a target under :not() x a complex extender is left unchanged by Sass on purpose
            // (complex selectors inside :not() were not portable): outside the judged space
            if with_not && exts.iter().any(|(es, _)| es.iter().any(|cx| compounds_in(cx) > 1)) {
                continue;
            }
            for e in 0..dom.len() {
                let a = m_list(&feat, dom, e, s_orig, &credit);
                let b = out_lists.iter().any(|l| m_list(&feat, dom, e, l, &none));
                let describe = || {
                    let els: Vec<String> = dom
                        .iter()
                        .map(|x| {
                            let mut d = feat.types[x.ty].clone();
                            if let Some(k) = x.id {
                                d.push_str(&format!("#{}", feat.ids[k]));
                            }
                            for (k, fl) in feat.flags.iter().enumerate() {
                                if x.flags & (1 << k) != 0 {
                                    d.push_str(&match fl {
                                        Simple::Class(c) => format!(".{}", c),
                                        Simple::Attr(a) => a.clone(),
                                        Simple::Pseudo(pn) => pn.clone(),
                                        _ => String::new(),
                                    });
                                }
                            }
                            format!("<{} parent={:?}>", d, x.parent)
                        })
                        .collect();
                    format!("DOM [{}], element {}", els.join(" "), e)
                };
                if b && !a {
                    first = Some(("unsound".into(), format!("rule {} (`{}`) now matches an element it must not match: {}", i, p.rules[i].0, describe())));
                    return false;
                }
                if a && !b && single && !(with_not && exts.iter().any(|(es, _)| es.iter().any(|cx| compounds_in(cx) > 1))) {
                    first = Some(("incomplete".into(), format!("rule {} (`{}`) does not match an element that matches it once extenders are credited with their targets: {}", i, p.rules[i].0, describe())));
                    return false;
                }
                if !ph && !with_not && m_list(&feat, dom, e, s_orig, &none) && !b {
                    first = Some(("first-law".into(), format!("rule {} (`{}`) lost an element it matched before extension: {}", i, p.rules[i].0, describe())));
                    return false;
                }
            }
        }
        true
    });
    if let Some(f) = first {
        problems.push(f);
    }
    // (iv) second law: generated complexes are at least as specific as their extender
    let min_spec = exts.iter().flat_map(|(e, _)| e.iter().map(spec_complex)).min().unwrap_or(0);
    for (i, l, _) in &new {
        for cx in l {
            if !orig[*i].contains(cx) && spec_complex(cx) < min_spec {
                problems.push(("second-law".into(), format!("generated selector in rule {} has specificity {} < extender specificity {}", i, spec_complex(cx), min_spec)));
            }
        }
    }
    Verdict { problems, doms }
}

const COMPOUNDS: &[&str] = &[".x", ".y", "a", "a.x", ".x.y", "#i", ".x:hover", ":not(.x)", ":is(.x, .y)", "b.y", "%p", "[t]", ".x::before", "a#i"];
const COMPLEXES: &[&str] = &[".x .y", ".y > .x", "a + .x", ".z ~ .x", ".x .x", ".x > .y .x", "a .x", ".x, .y", "a > .y, .x"];
const EXTENDERS: &[&str] = &[".z", "b", ".z.y", ".z .w", "b > .z", "#j", ".z + .w", ".z, .w", ".z:hover", ":focus"];
/// extenders of three compounds with two combinator levels (judged on DOMs of 4 elements against a
/// reduced set of rules)
const DEEP_EXTENDERS: &[&str] = &["b > .z + .w", "b .z > .w", "b + .z ~ .w", "b > .z .w"];
const DEEP_RULES: &[&str] = &[".x", "a .x", "a > .x", "a + .x", ".y > a + .x", "a .x .y"];
const TARGETS: &[&str] = &[".x", ".y", "a", "#i", "%p", ":hover", "[t]", "::before"];

fn programs(ctx: &Ctx) -> Vec<Prog> {
    let mut v = Vec::new();
    let sels: Vec<&str> = COMPOUNDS.iter().chain(COMPLEXES.iter()).copied().collect();
    // one target rule, one extender, one extend; both rule orders
    for s1 in &sels {
        for e1 in EXTENDERS {
            for t in TARGETS {
                for order in 0..2 {
                    let a = (s1.to_string(), vec![], false);
                    let b = (e1.to_string(), vec![(t.to_string(), true)], false);
                    v.push(Prog { rules: if order == 0 { vec![a, b] } else { vec![b, a] } });
                }
            }
        }
    }
    for s1 in DEEP_RULES {
        for e1 in DEEP_EXTENDERS {
            for order in 0..2 {
                let a = (s1.to_string(), vec![], false);
                let b = (e1.to_string(), vec![(".x".to_string(), true)], false);
                v.push(Prog { rules: if order == 0 { vec![a, b] } else { vec![b, a] } });
            }
        }
    }
    // two extends: chains, two extenders of one target, self extension, cycles
    let s2: Vec<&str> = if ctx.quick() { vec![".x", ".x.y", ".x .y", "a.x", ":not(.x)"] } else { sels.clone() };
    for s1 in &s2 {
        for (e1, t1, e2, t2) in [
            (".z", ".x", ".w", ".z"),      // chain
            (".z", ".x", ".w", ".x"),      // two extenders
            (".z", ".x", ".z .w", ".z"),   // chain with complex
            ("b", ".x", ".z", "b"),        // chain through type
            (".z", ".x", ".x", ".z"),      // cycle with a rule that is itself .x
            (".z .w", ".x", ".v", ".w"),   // extending a compound inside a complex extender
            (".z", ".y", ".w", ".x"),      // independent
            (".z", ".x", ".z", ".y"),      // same extender, two targets (two rules)
        ] {
            for perm in 0..if ctx.quick() { 2 } else { 6 } {
                let r = vec![(s1.to_string(), vec![], false), (e1.to_string(), vec![(t1.to_string(), true)], false), (e2.to_string(), vec![(t2.to_string(), true)], false)];
                let order: [usize; 3] = [[0, 1, 2], [2, 1, 0], [1, 0, 2], [1, 2, 0], [0, 2, 1], [2, 0, 1]][perm];
                v.push(Prog { rules: order.iter().map(|k| r[*k].clone()).collect() });
            }
        }
        // one rule with two extends
        v.push(Prog { rules: vec![(s1.to_string(), vec![], false), (".f.g".into(), vec![], false), (".q".into(), vec![(".f".into(), true), (".g".into(), true), (".x".into(), true)], false)] });
        // self extension
        v.push(Prog { rules: vec![(s1.to_string(), vec![(".x".into(), true)], false)] });
    }
    // two target rules sharing a pseudo selector argument, extend afterwards / before
    for (a, b) in [(".x:not(.t)", ".y:not(.t)"), (".x:is(.t)", ".y:is(.t)"), (".a > .b, .a > .c .t", ".b")] {
        v.push(Prog { rules: vec![(a.into(), vec![], false), (b.into(), vec![], false), (".e".into(), vec![(".t".into(), true)], false)] });
        v.push(Prog { rules: vec![(".e".into(), vec![(".t".into(), true)], false), (a.into(), vec![], false), (b.into(), vec![], false)] });
    }
    // superselector / trimming shapes
    for (a, ext, t) in [(".a > .b, .a > .c .t", ".b", ".t"), ("a ~ c, a ~ b .d", "c", ".d"), (".f.g", ".x", ".f"), ("[a=b i]", ".c", "[a=b]")] {
        v.push(Prog { rules: vec![(a.into(), vec![], false), (ext.into(), vec![(t.into(), true)], false)] });
        v.push(Prog { rules: vec![(ext.into(), vec![(t.into(), true)], false), (a.into(), vec![], false)] });
    }
    v
}

pub fn run(ctx: &Ctx) {
    // the watchdog's clock also covers the harness's own oracle work (reference models, DOM enumeration);
    // the limit is generous so that machine load cannot turn a slow case into a verdict
    ctx.hang_limit_s.store(ctx.pick(300, 3600), std::sync::atomic::Ordering::Relaxed);
    let progs = programs(ctx);
    let maxn = ctx.pick(3, 4);
    let sub = "extend-programs";
    let total_doms = std::sync::atomic::AtomicU64::new(0);
    par(
        ctx,
        sub,
        progs.len() as u64,
        |i| json!({"program": progs[i as usize].source()}),
        |i, l| {
            let p = &progs[i as usize];
            let src = p.source();
            l.evals += 1;
            let o = fresh_thread(|| compile(&src, &Cfg::scss()));
            l.outcome(o.digest());
            l.validated += 1;
            let key = format!("extend:{}", src.replace('\n', " "));
            match &o {
                Outcome::Ok(c) => {
                    let v = judge_program(p, c, maxn);
                    total_doms.fetch_add(v.doms, std::sync::atomic::Ordering::Relaxed);
                    l.nontrivial += 1;
                    // structural family: an extension chain (an extender that is itself extended) whose
                    // extending rules all precede the rule that mentions the first target
                    let chain_before_target = {
                        let ext_rules: Vec<usize> = p.rules.iter().enumerate().filter(|(_, r)| !r.1.is_empty()).map(|(k, _)| k).collect();
                        let is_chain = ext_rules.iter().any(|a| ext_rules.iter().any(|b| a != b && p.rules[*b].1.iter().any(|(t, _)| p.rules[*a].0.contains(t.as_str()))));
                        let last_ext = ext_rules.iter().max().copied().unwrap_or(0);
                        is_chain && p.rules.iter().enumerate().any(|(k, r)| r.1.is_empty() && k > last_ext)
                    };
                    for (class, what) in v.problems {
                        let chain_through_type = p.rules.iter().any(|r| r.1.iter().any(|(t, _)| t.chars().all(|c| c.is_ascii_alphabetic()) && p.rules.iter().any(|r2| !r2.1.is_empty() && r2.0 == *t)));
                        let k = if (class == "incomplete" || class == "unsound") && chain_before_target {
                            format!("extend:chain-before-target:{}", class)
                        } else if class == "incomplete" && chain_through_type {
                            "extend:chain-through-type:incomplete".to_string()
                        } else {
                            format!("{}:{}", key, class)
                        };
                        ctx.violation(sub, &k, &what, json!({"program": src, "output": c}));
                    }
                }
                Outcome::Err(e) => {
                    ctx.violation(sub, &format!("{}:error", key), &format!("extend program with !optional extends fails: {}", e.message), json!({"program": src}));
                }
                Outcome::Panic(pn) => ctx.violation(sub, &format!("{}:panic", key), &format!("panic: {}", pn), json!({"program": src})),
            }
        },
    );
    ctx.add(sub, "doms_judged", total_doms.load(std::sync::atomic::Ordering::Relaxed));
    ctx.bound(sub, &format!("{} programs: 23 target selectors x 10 extenders x 8 targets x 2 rule orders; 6 rules x 4 three-compound extenders (DOMs of 4 elements); 8 two-extend shapes (chains, cycles, shared targets) x rule permutations; shared pseudo arguments; trimming shapes. Each judged on every DOM of <= {} elements over the program's features (soundness, completeness for single-compound extenders, first and second law, no placeholders)", progs.len(), maxn), true);
    ctx.sample(sub, json!({"program": ".x .y{m:r0;}\n.z{m:r1;@extend .y !optional;}", "oracle": "for every DOM and element: output matches iff source matches with crediting"}));

    // ---- (vi) rule-order invariance of match sets is covered by enumerating both orders above:
    // each order is judged against the same semantic oracle.

    // ---- a rule partly inside a nested at-rule is one rule: both parts get the same extension ----------
    {
        let sub = "nested-at-rule-parts";
        let tsels = [".t", ".t.u", "a .t", "%t", ".t, .v"];
        let ats = ["@media screen", "@supports (a: b)", "@x y"];
        let exts = [".e", ".e .f", ".e:hover", "b"];
        let n = (tsels.len() * ats.len() * exts.len() * 2) as u64;
        par(
            ctx,
            sub,
            n,
            |i| json!({"index": i}),
            |i, l| {
                let i = i as usize;
                let ts = tsels[i % tsels.len()];
                let at = ats[(i / tsels.len()) % ats.len()];
                let ex = exts[(i / tsels.len() / ats.len()) % exts.len()];
                let before = i / tsels.len() / ats.len() / exts.len() == 1;
                let target = if ts.starts_with('%') { "%t" } else { ".t" };
                let rule = format!("{} {{ a: b; {} {{ p: q; }} }}", ts, at);
                let ext = format!("{} {{ @extend {}; k: l; }}", ex, target);
                let src = if before { format!("{}\n{}\n", ext, rule) } else { format!("{}\n{}\n", rule, ext) };
                l.evals += 1;
                let o = fresh_thread(|| compile(&src, &Cfg::scss()));
                l.outcome(o.digest());
                l.validated += 1;
                let key = format!("extend:nested-at-rule:{}", src.replace('\n', " "));
                match &o {
                    Outcome::Ok(c) => {
                        l.nontrivial += 1;
                        let blocks = css::flatten(&css::parse(c).unwrap_or_default());
                        let outer = blocks.iter().find(|b| b.path.is_empty() && b.decls.iter().any(|d| d.0 == "a")).map(|b| b.selector.clone());
                        let inner = blocks.iter().find(|b| !b.path.is_empty() && b.decls.iter().any(|d| d.0 == "p")).map(|b| b.selector.clone());
                        if outer.is_none() || outer != inner {
                            ctx.violation(sub, &key, &format!("the declarations of one style rule are emitted under different selectors: {:?} at the top level, {:?} inside `{}`", outer, inner, at), json!({"input": src, "output": c}));
                        }
                    }
                    other => ctx.violation(sub, &key, &format!("the program must compile: {}", other.brief()), json!({"input": src})),
                }
            },
        );
        ctx.bound(sub, "5 target rules (class, compound, descendant, placeholder, list) holding a declaration and a nested @media / @supports / unknown at-rule with a declaration x 4 extenders x @extend before / after: the part inside the at-rule carries the same selector as the part outside", true);
        ctx.sample(sub, json!({"input": ".t { a: b; @media screen { p: q; } }\n.e { @extend .t; k: l; }"}));
    }

    // ---- (viii) missing targets; (vii) media scoping ------------------------------------------------
    let sub = "errors-and-scope";
    let cases: Vec<(&str, &str, bool)> = vec![
        // (source, key, must_fail)
        (".a{x:y} .b{@extend .missing;}", "missing-target", true),
        (".a{x:y} .b{@extend .missing !optional;}", "missing-target-optional", false),
        (".b{@extend %nope;}", "missing-placeholder", true),
        (".a{x:y} .b{@extend .a.missing;}", "missing-compound-target", true),
        (".a{x:y} .b{@extend .a;}", "present-target", false),
        (".a{x:y} @media screen{.b{@extend .a;}}", "extend-outside-media-from-inside", true),
        ("@media screen{.a{x:y} .b{@extend .a;}}", "extend-inside-same-media", false),
        ("@media screen{.a{x:y}} .b{@extend .a;}", "extend-into-media-from-outside", false),
        (".a{x:y} @media screen{.b{@extend .a !optional;}}", "extend-outside-media-optional", false),
        (".a{x:y} .b{@extend .a .c;}", "complex-target", true),
        (".a{x:y} .b{@extend .a, .x;}", "list-target-one-missing", true),
    ];
    par(
        ctx,
        sub,
        cases.len() as u64,
        |i| json!({"input": cases[i as usize].0}),
        |i, l| {
            let (src, key, must_fail) = cases[i as usize];
            l.evals += 1;
            let o = compile(src, &Cfg::scss());
            l.outcome(o.digest());
            l.validated += 1;
            l.nontrivial += 1;
            match (&o, must_fail) {
                (Outcome::Panic(p), _) => ctx.violation(sub, &format!("extend:{}", key), &format!("panic: {}", p), json!({"input": src})),
                (Outcome::Ok(c), true) => ctx.violation(sub, &format!("extend:{}", key), &format!("`{}` must be an error but compiled to {:?}", src, c), json!({"input": src, "output": c})),
                (Outcome::Err(e), false) => ctx.violation(sub, &format!("extend:{}", key), &format!("`{}` must compile but failed: {}", src, e.message), json!({"input": src})),
                (Outcome::Ok(c), false) => {
                    // media scoping: an extend declared inside @media only rewrites rules of that block
                    if key == "extend-outside-media-optional" && c.contains(".b") && c.split("@media").next().map(|pre| pre.contains(".b")).unwrap_or(false) {
                        ctx.violation(sub, &format!("extend:{}:leak", key), "an @extend declared inside @media rewrote a rule outside it", json!({"input": src, "output": c}));
                    }
                }
                _ => {}
            }
        },
    );
    ctx.bound(sub, "11 shapes: missing targets with and without !optional, complex targets, extension across and inside @media", true);
    ctx.sample(sub, json!({"input": ".a{x:y} .b{@extend .missing;}", "expected": "error"}));
    ctx.assume("complex extenders are judged for soundness only (Sass omits interleavings); a target under :not() with a complex extender is not judged for completeness; DOM size is capped by the number of distinct element labels the program's features allow");
}
