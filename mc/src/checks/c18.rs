//! C18 — the three input syntaxes and insignificant source variations agree.
//! (1) every tree of a bounded statement grammar printed by two independent printers (SCSS,
//! indented) compiles to identical CSS or both fail; (2) corpus inputs under newline-style,
//! BOM and @charset rewrites; (3) plain CSS as CSS vs as SCSS; (4) Sass-only constructs are
//! rejected in CSS mode; (5) whitespace / silent comments inserted at statement boundaries;
//! (6) `_` and `-` exchanged in variable, function and mixin names.

use crate::core::*;
use crate::gen::corpus;
use crate::gen::tree::{self, Node, Tpl};
use serde_json::json;

fn d(p: &str, v: &str) -> Node {
    Node::Decl(p.into(), v.into())
}

pub fn templates() -> Vec<Tpl> {
    vec![
        Tpl::Leaf(d("p", "1px")),
        Tpl::Leaf(d("q", "$x + 1")),
        Tpl::Leaf(d("r", "\"s\" + a")),
        Tpl::Leaf(Node::Var("x".into(), "2".into())),
        Tpl::Leaf(Node::Var("x".into(), "$x * 2 !global".into())),
        Tpl::Leaf(Node::Comment("c".into())),
        Tpl::Leaf(Node::NestedProp("font".into(), Some("bold".into()), vec![("size".into(), "1em".into())])),
        Tpl::Leaf(Node::Include("m".into(), "3".into(), None)),
        Tpl::Leaf(Node::Extend(".e".into())),
        Tpl::Leaf(d("w", "f(2)")),
        Tpl::Leaf(Node::Debug("$x".into())),
        Tpl::Inner(|c| Node::Rule("a".into(), c), "rule"),
        Tpl::Inner(|c| Node::Rule("&:hover, b &".into(), c), "rule-amp"),
        Tpl::Inner(|c| Node::Rule(".e".into(), c), "rule"),
        Tpl::Inner(|c| Node::At("media".into(), "(min-width: 1px)".into(), c), "media"),
        Tpl::Inner(|c| Node::If("$x > 1".into(), c, None), "if"),
        Tpl::Inner(|c| Node::If("$x == 0".into(), vec![d("never", "0")], Some(c)), "else"),
        Tpl::Inner(|c| Node::Each("k".into(), "a, b".into(), c), "each"),
        Tpl::Inner(|c| Node::For("i".into(), "1".into(), "2".into(), true, c), "for"),
        Tpl::Inner(|c| Node::At("at-root".into(), "".into(), c), "at-root"),
        Tpl::Inner(|c| Node::Include("wrap".into(), "".into(), Some(c)), "content"),
    ]
}

const PRELUDE_SCSS: &str = "$x: 1;\n@mixin m($a) {\n  mixed: $a;\n}\n@mixin wrap {\n  .w {\n    @content;\n  }\n}\n@function f($n) {\n  @return $n * 10;\n}\n";
const PRELUDE_SASS: &str = "$x: 1\n@mixin m($a)\n  mixed: $a\n@mixin wrap\n  .w\n    @content\n@function f($n)\n  @return $n * 10\n";

/// legality of nesting and the per-level sub-alphabets that keep the space enumerable
fn allow(parent: Option<&'static str>, ti: usize, level: usize) -> bool {
    let tp = templates();
    let inner_label = match &tp[ti] {
        Tpl::Inner(_, l) => Some(*l),
        _ => None,
    };
    match level {
        0 => parent.is_none() && (inner_label.map(|l| l != "rule-amp").unwrap_or(false) || matches!(&tp[ti], Tpl::Leaf(Node::Var(..)) | Tpl::Leaf(Node::Comment(..)) | Tpl::Leaf(Node::Debug(..)))),
        1 => matches!(ti, 0 | 1 | 3 | 6 | 7 | 8) || matches!(inner_label, Some("rule-amp" | "media" | "if" | "each" | "content")),
        _ => matches!(ti, 0 | 1 | 4),
    }
}

fn syntax_pairs(ctx: &Ctx) -> Vec<(String, String, Vec<Node>)> {
    let tpls = templates();
    // quick: forests of <= 2 top-level statements with <= 2 children each; thorough adds the forests of
    // <= 3 top-level statements with <= 1 child each (3 x 2 children would be 5e9 forests)
    let mut forests = tree::enumerate(&tpls, 2, &[1, 2, 2], &allow);
    if ctx.thorough() {
        let mut seen: std::collections::BTreeSet<String> = forests.iter().map(|f| tree::scss(f)).collect();
        for f in tree::enumerate(&tpls, 2, &[1, 3, 1], &allow) {
            if seen.insert(tree::scss(&f)) {
                forests.push(f);
            }
        }
    }
    let mut out = Vec::new();
    for f in forests {
        // declarations must be inside a rule somewhere up the chain: wrap top-level forests whose
        // control-flow children hold declarations into a rule
        let needs_rule = fn_has_bare_decl(&f);
        let forest = if needs_rule { vec![Node::Rule("z".into(), f)] } else { f };
        out.push((format!("{}{}", PRELUDE_SCSS, tree::scss(&forest)), format!("{}{}", PRELUDE_SASS, tree::sass(&forest)), forest));
    }
    out
}

fn fn_has_bare_decl(f: &[Node]) -> bool {
    fn walk(n: &Node, in_rule: bool) -> bool {
        match n {
            Node::Decl(..) | Node::NestedProp(..) | Node::Extend(..) => !in_rule,
            Node::Include(name, _, None) if name == "m" => !in_rule,
            Node::Rule(_, c) => c.iter().any(|x| walk(x, true)),
            Node::Include(_, _, Some(c)) => c.iter().any(|x| walk(x, true)), // wrap provides .w
            other => other.children().iter().any(|x| walk(x, in_rule)),
        }
    }
    f.iter().any(|n| walk(n, false))
}

fn rewrite_newlines(s: &str, nl: &str) -> String {
    // every existing terminator (\r\n | \r | \n | \f) is rewritten as a unit
    let mut out = String::with_capacity(s.len() + 16);
    let b: Vec<char> = s.chars().collect();
    let mut i = 0;
    while i < b.len() {
        match b[i] {
            '\r' => {
                if b.get(i + 1) == Some(&'\n') {
                    i += 1;
                }
                out.push_str(nl);
            }
            '\n' | '\x0c' => out.push_str(nl),
            c => out.push(c),
        }
        i += 1;
    }
    out
}

/// offsets just after `{`, `;` or `}` at paren depth 0, outside strings, comments and interpolation
fn safe_points(s: &str) -> Vec<usize> {
    let b = s.as_bytes();
    let mut out = Vec::new();
    let mut i = 0;
    let mut paren = 0i32;
    let mut interp = 0i32;
    while i < b.len() {
        match b[i] {
            b'"' | b'\'' => {
                let q = b[i];
                i += 1;
                while i < b.len() && b[i] != q {
                    if b[i] == b'\\' {
                        i += 1;
                    } else if b[i] == b'#' && b.get(i + 1) == Some(&b'{') {
                        // interpolation inside a string: give up on this input (conservative)
                        return vec![];
                    }
                    i += 1;
                }
            }
            b'/' if b.get(i + 1) == Some(&b'*') => {
                i += 2;
                while i + 1 < b.len() && !(b[i] == b'*' && b[i + 1] == b'/') {
                    i += 1;
                }
                i += 1;
            }
            b'/' if b.get(i + 1) == Some(&b'/') => {
                while i < b.len() && b[i] != b'\n' {
                    i += 1;
                }
            }
            b'\\' => i += 1,
            b'#' if b.get(i + 1) == Some(&b'{') => {
                interp += 1;
                i += 1;
            }
            b'(' | b'[' => paren += 1,
            b')' | b']' => paren -= 1,
            b'}' if interp > 0 => interp -= 1,
            b'{' | b';' | b'}' if paren == 0 && interp == 0 => out.push(i + 1),
            _ => {}
        }
        i += 1;
    }
    out
}

/// offsets inside round parentheses where whitespace is insignificant: just after `(`, just before
/// `)`, and on both sides of a `,` at paren depth >= 1; outside strings, comments, interpolation,
/// `url(`; inputs with interpolation inside strings are skipped
fn paren_points(s: &str) -> Vec<usize> {
    let b = s.as_bytes();
    let mut out = Vec::new();
    let mut i = 0;
    let mut stack: Vec<bool> = Vec::new(); // per open paren: is it one we may touch?
    let mut interp = 0i32;
    while i < b.len() {
        match b[i] {
            b'"' | b'\'' => {
                let q = b[i];
                i += 1;
                while i < b.len() && b[i] != q {
                    if b[i] == b'\\' {
                        i += 1;
                    } else if b[i] == b'#' && b.get(i + 1) == Some(&b'{') {
                        return vec![];
                    }
                    i += 1;
                }
            }
            b'/' if b.get(i + 1) == Some(&b'*') => {
                i += 2;
                while i + 1 < b.len() && !(b[i] == b'*' && b[i + 1] == b'/') {
                    i += 1;
                }
                i += 1;
            }
            b'/' if b.get(i + 1) == Some(&b'/') => {
                while i < b.len() && b[i] != b'\n' {
                    i += 1;
                }
            }
            b'\\' => i += 1,
            b'#' if b.get(i + 1) == Some(&b'{') => {
                interp += 1;
                i += 1;
            }
            b'}' if interp > 0 => interp -= 1,
            b'(' => {
                let is_url = i >= 3 && s[..i].to_ascii_lowercase().ends_with("url");
                let ok = !is_url && interp == 0 && stack.iter().all(|x| *x);
                stack.push(ok);
                if ok {
                    out.push(i + 1);
                }
            }
            b')' => {
                if let Some(ok) = stack.pop() {
                    if ok {
                        out.push(i);
                    }
                }
            }
            b',' => {
                if !stack.is_empty() && stack.iter().all(|x| *x) && interp == 0 {
                    out.push(i);
                    out.push(i + 1);
                }
            }
            _ => {}
        }
        i += 1;
    }
    out.sort();
    out.dedup();
    // keep the points of statements whose parentheses hold SassScript (argument lists, expressions):
    // text of selectors, queries, @import modifiers and anything interpolated is kept verbatim by Sass
    let bounds: Vec<usize> = safe_points(s).into_iter().map(|p| p - 1).collect();
    out.retain(|p| {
        let start = bounds.iter().rev().find(|b| **b < *p).map(|b| *b + 1).unwrap_or(0);
        let term = bounds.iter().find(|b| **b >= *p).copied();
        let end = term.unwrap_or(s.len());
        let stmt = s[start..end].trim_start();
        // special functions keep their argument text verbatim
        let low = stmt.to_ascii_lowercase();
        if stmt.contains("#{") || ["url(", "expression(", "progid:", "element(", "-calc("].iter().any(|k| low.contains(k)) {
            return false;
        }
        let opens_block = term.map(|t| s.as_bytes()[t] == b'{').unwrap_or(false);
        let head = stmt.split(|c: char| c.is_whitespace() || c == '(').next().unwrap_or("");
        if opens_block {
            matches!(head, "@mixin" | "@function" | "@include" | "@if" | "@else" | "@each" | "@for" | "@while")
        } else if head.starts_with('@') {
            matches!(head, "@include" | "@return" | "@debug" | "@warn" | "@error" | "@if" | "@else" | "@content")
        } else {
            // a declaration or a variable assignment
            stmt.contains(':')
        }
    });
    out
}

/// offsets of single ASCII spaces that separate tokens: outside strings, comments, `url(`, not next to
/// another whitespace character (a run of whitespace is one separator already)
fn space_points(s: &str) -> Vec<usize> {
    let b = s.as_bytes();
    let mut out = Vec::new();
    let mut i = 0;
    let mut url_depth: Option<i32> = None;
    let mut paren = 0i32;
    while i < b.len() {
        match b[i] {
            b'"' | b'\'' => {
                let q = b[i];
                i += 1;
                while i < b.len() && b[i] != q {
                    if b[i] == b'\\' {
                        i += 1;
                    } else if b[i] == b'#' && b.get(i + 1) == Some(&b'{') {
                        return vec![];
                    }
                    i += 1;
                }
            }
            b'/' if b.get(i + 1) == Some(&b'*') => {
                i += 2;
                while i + 1 < b.len() && !(b[i] == b'*' && b[i + 1] == b'/') {
                    i += 1;
                }
                i += 1;
            }
            b'/' if b.get(i + 1) == Some(&b'/') => {
                while i < b.len() && b[i] != b'\n' {
                    i += 1;
                }
            }
            b'\\' => i += 1,
            b'(' => {
                if url_depth.is_none() && i >= 3 && s[..i].to_ascii_lowercase().ends_with("url") {
                    url_depth = Some(paren);
                }
                paren += 1;
            }
            b')' => {
                paren -= 1;
                if url_depth == Some(paren) {
                    url_depth = None;
                }
            }
            b' ' if url_depth.is_none() => {
                let prev_ws = i > 0 && (b[i - 1] as char).is_ascii_whitespace();
                let next_ws = b.get(i + 1).map(|c| (*c as char).is_ascii_whitespace()).unwrap_or(true);
                if !prev_ws && !next_ws {
                    out.push(i);
                }
            }
            _ => {}
        }
        i += 1;
    }
    out
}

const SASS_ONLY: &[&str] = &[
    "$a: 1;",
    "a { b: $x; }",
    "a { b { c: d; } }",
    "a { &:hover { c: d; } }",
    "a { b: #{c}; }",
    "a#{b} { c: d; }",
    "@mixin m { a: b; }",
    "a { @include m; }",
    "@if true { a { b: c; } }",
    "@each $i in a { b { c: d; } }",
    "@for $i from 1 through 2 { a { b: c; } }",
    "@while false { a { b: c; } }",
    "@function f() { @return 1; }",
    "// silent\na { b: c; }",
    "%p { a: b; }",
    "a { @extend .b; }",
    "a { b: 1 + 2; }",
    "a { b: (1, 2); }",
    "a { b: { c: d; } }",
    "@use \"sass:math\";",
    "@forward \"x\";",
    "@debug 1;",
    "@warn 1;",
    "@error 1;",
    "a { b: lighten(red, 10%); }",
    "a { b: math.div(1, 2); }",
    "@at-root { a { b: c; } }",
    "a { b: if(true, 1, 2); }",
    "a { b: 1 == 1; }",
    "a { b: not a; }",
];

pub fn run(ctx: &Ctx) {
    // the watchdog's clock also covers the harness's own oracle work (reference models, DOM enumeration);
    // the limit is generous so that machine load cannot turn a slow case into a verdict
    ctx.hang_limit_s.store(300, std::sync::atomic::Ordering::Relaxed);
    // ---- (1) SCSS vs indented on generated trees ---------------------------------------------
    let sub = "scss-vs-sass";
    let pairs = syntax_pairs(ctx);
    par(
        ctx,
        sub,
        pairs.len() as u64,
        |i| json!({"scss": pairs[i as usize].0, "sass": pairs[i as usize].1}),
        |i, l| {
            let (scss, sass, _) = &pairs[i as usize];
            l.evals += 2;
            // one fresh thread per case: thread-local state (the identifier interner) starts empty, and all
            // spellings of the program meet its identifiers in the same order
            let wss: &[&str] = if ctx.quick() { &["  "] } else { &["  ", " ", "      "] };
            let (a, b, cs) = fresh_thread(|| {
                let a = compile(scss, &Cfg::syn(Syn::Scss));
                let b = compile(sass, &Cfg::syn(Syn::Sass));
                let cs: Vec<Outcome> = wss.iter().map(|ws| compile(&sass.replace('\n', &format!("\n{}\n", ws)), &Cfg::syn(Syn::Sass))).collect();
                (a, b, cs)
            });
            l.evals += 3;
            l.outcome(a.digest());
            l.validated += 1;
            let same = match (&a, &b) {
                (Outcome::Ok(x), Outcome::Ok(y)) => {
                    l.nontrivial += 1;
                    x == y
                }
                (Outcome::Err(x), Outcome::Err(y)) => {
                    l.count("both_fail", 1);
                    x.message == y.message
                }
                _ => false,
            };
            if !same {
                ctx.violation(sub, &format!("syntax:{}", scss[PRELUDE_SCSS.len()..].replace('\n', " ")), "the same program printed as SCSS and as indented syntax compiles differently", json!({"scss": scss, "sass": sass, "scss_result": a.brief(), "sass_result": b.brief()}));
                return;
            }
            // whitespace-only lines between the lines of the indented text are insignificant
            for (ws, c) in wss.iter().zip(cs.iter()) {
                let noisy = sass.replace('\n', &format!("\n{}\n", ws));
                let same = match (&b, c) {
                    (Outcome::Ok(x), Outcome::Ok(y)) => x == y,
                    (Outcome::Err(x), Outcome::Err(y)) => x.message == y.message,
                    _ => false,
                };
                if !same {
                    ctx.violation(sub, &format!("syntax:blank-lines:{:?}:{}", ws, scss[PRELUDE_SCSS.len()..].replace('\n', " ")), "inserting whitespace-only lines between the lines of an indented-syntax program changes the result", json!({"sass": sass, "with_blank_lines": noisy, "result": b.brief(), "with_blank_lines_result": c.brief()}));
                    return;
                }
            }
        },
    );
    ctx.bound(sub, &format!("all statement trees of depth <= 2 (2 children at level 1 and 2 at level 2{}) over a 21-template alphabet (level sub-alphabets 13 / 11 / 3), two independent printers; the indented text also with whitespace-only lines (2 spaces; thorough: 1, 2 and 6) after every line", ctx.pick("", "; thorough: also 3 at level 1 with 1 at level 2")), true);
    if let Some(p) = pairs.get(pairs.len() / 2) {
        ctx.sample(sub, json!({"scss": p.0, "sass": p.1}));
    }

    // ---- (2) corpus x newline styles, BOM, @charset --------------------------------------------
    let corp = corpus::load();
    let sub = "source-variants";
    let variants = ["crlf", "cr", "ff", "bom", "charset", "trailing-ws", "lead-newlines"];
    let nv = variants.len() as u64;
    par(
        ctx,
        sub,
        corp.len() as u64 * nv,
        |i| json!({"corpus_case": corp[(i / nv) as usize].name, "variant": variants[(i % nv) as usize]}),
        |i, l| {
            let c = &corp[(i / nv) as usize];
            let var = variants[(i % nv) as usize];
            if c.input.contains("unique-id") || c.input.contains("random(") {
                return;
            }
            let cfg = Cfg { syntax: Some(c.syntax), compressed: c.compressed, ..Cfg::default() };
            let rewritten = match var {
                "crlf" => rewrite_newlines(&c.input, "\r\n"),
                "cr" => rewrite_newlines(&c.input, "\r"),
                "ff" => rewrite_newlines(&c.input, "\x0c"),
                "bom" => format!("\u{feff}{}", c.input),
                "charset" => {
                    if c.syntax == Syn::Sass {
                        format!("@charset \"UTF-8\"\n{}", c.input)
                    } else {
                        format!("@charset \"UTF-8\";\n{}", c.input)
                    }
                }
                "trailing-ws" => format!("{}\n\n  \n", c.input),
                _ => {
                    if c.syntax == Syn::Sass {
                        format!("\n\n{}", c.input)
                    } else {
                        format!("\n\n{}", c.input)
                    }
                }
            };
            // the form feed is a newline only outside strings; inputs with multi-line strings or
            // comments print their newlines back, so compare those through the LF-normalised output
            l.evals += 2;
            let base = compile(&c.input, &cfg);
            if !matches!(var, "crlf" | "cr" | "ff") && (!base.is_ok() || c.input.starts_with('\u{feff}') || c.input.starts_with("@charset")) {
                // a prefix/suffix changes what "start/end of the document" is for inputs that fail there
                l.count("prefix_suffix_variants_only_for_compiling_inputs", 1);
                return;
            }
            let got = compile(&rewritten, &cfg);
            l.outcome(got.digest());
            l.validated += 1;
            let norm = |o: &Outcome| match o {
                Outcome::Ok(s) => format!("OK {}", s),
                Outcome::Err(e) => format!("ERR {}", e.message),
                Outcome::Panic(p) => format!("PANIC {}", p),
            };
            if base.is_ok() {
                l.nontrivial += 1;
            }
            if norm(&base) != norm(&got) {
                ctx.violation(sub, &format!("variant:{}:{}:{}", var, c.file, c.name), &format!("result changes under the `{}` rewrite of the source", var), json!({"input": c.input, "rewritten": rewritten, "syntax": c.syntax.name(), "original_result": base.brief(), "rewritten_result": got.brief()}));
            }
        },
    );
    ctx.bound(sub, "every corpus input x {CRLF, CR, FF line terminators, BOM prefix, @charset prefix, trailing blank lines, leading blank lines}", true);
    ctx.sample(sub, json!({"variant": "crlf", "input": "a {\\r\\n  b: c;\\r\\n}"}));

    // ---- (3) plain CSS parsed as CSS and as SCSS -----------------------------------------------
    let sub = "css-vs-scss";
    par(
        ctx,
        sub,
        corp.len() as u64,
        |i| json!({"corpus_case": corp[i as usize].name}),
        |i, l| {
            let c = &corp[i as usize];
            if c.syntax == Syn::Sass {
                return;
            }
            l.evals += 1;
            let as_css = compile(&c.input, &Cfg::syn(Syn::Css));
            let Outcome::Ok(css_out) = &as_css else {
                l.count("not_plain_css", 1);
                if let Outcome::Panic(p) = &as_css {
                    ctx.violation(sub, &format!("css-mode:{}:{}:panic", c.file, c.name), &format!("panic: {}", p), json!({"input": c.input}));
                }
                return;
            };
            l.evals += 1;
            let as_scss = compile(&c.input, &Cfg::syn(Syn::Scss));
            l.validated += 1;
            l.nontrivial += 1;
            l.outcome(as_css.digest());
            match &as_scss {
                Outcome::Ok(s) if s == css_out => {}
                other => {
                    // plain CSS never evaluates: inputs that SCSS evaluates (`1 + 2`, `and`, functions)
                    // are accepted by the CSS parser only as plain text; they are not "plain CSS that
                    // uses no Sass features". Decide by whether the SCSS result canonically equals.
                    let same = match other {
                        Outcome::Ok(s) => crate::models::canon::canon(s, true).ok() == crate::models::canon::canon(css_out, true).ok(),
                        _ => false,
                    };
                    if same {
                        l.count("equal_modulo_spelling", 1);
                    } else if uses_sass_feature(&c.input) {
                        l.count("excluded_sass_feature_in_css_accepted_text", 1);
                    } else {
                        ctx.violation(sub, &format!("css-mode:{}:{}", c.file, c.name), "plain CSS compiles differently as CSS and as SCSS", json!({"input": c.input, "as_css": as_css.brief(), "as_scss": other.brief()}));
                    }
                }
            }
        },
    );
    ctx.bound(sub, "every corpus input that the CSS parser accepts, compiled as CSS and as SCSS", true);
    ctx.sample(sub, json!({"input": "a { b: c; } @media screen { d { e: f } }"}));

    // ---- (4) Sass-only constructs are rejected in CSS mode ---------------------------------------
    let sub = "sass-only-rejected";
    par(
        ctx,
        sub,
        SASS_ONLY.len() as u64,
        |i| json!({"input": SASS_ONLY[i as usize]}),
        |i, l| {
            let src = SASS_ONLY[i as usize];
            l.evals += 2;
            let as_css = compile(src, &Cfg::syn(Syn::Css));
            let as_scss = compile(src, &Cfg::syn(Syn::Scss));
            l.outcome(as_css.digest());
            l.validated += 1;
            l.nontrivial += 1;
            match (&as_css, &as_scss) {
                (Outcome::Panic(p), _) => ctx.violation(sub, &format!("sass-only:{}", src), &format!("panic: {}", p), json!({"input": src})),
                (Outcome::Ok(c), _) => {
                    // accepted as CSS: it must then at least not have been *evaluated* as Sass
                    let evaluated = match &as_scss {
                        Outcome::Ok(s) => s == c && !src.contains("@debug") && !src.contains("@use"),
                        _ => false,
                    };
                    if evaluated || src.starts_with('$') || src.starts_with("@mixin") || src.starts_with("@if") || src.starts_with("//") {
                        ctx.violation(sub, &format!("sass-only:{}", src), &format!("Sass-only construct accepted in CSS mode: {:?}", c), json!({"input": src, "output": c}));
                    } else {
                        l.count("accepted_as_unevaluated_text", 1);
                    }
                }
                (Outcome::Err(_), _) => l.count("rejected", 1),
            }
        },
    );
    ctx.bound(sub, "30 Sass-only constructs (one template each) compiled in CSS mode", true);
    ctx.sample(sub, json!({"input": "a { b { c: d; } }", "expected": "error in CSS mode"}));

    // ---- (5) whitespace and silent comments at statement boundaries ---------------------------------
    let sub = "noise";
    let noise = [" ", "\n", "\n\n  ", "\t", " // n\n", "/**/"];
    let cases: Vec<(usize, usize)> = corp
        .iter()
        .enumerate()
        .filter(|(_, c)| c.syntax == Syn::Scss && !c.is_error && c.input.len() < 600 && !c.input.contains("unique-id") && !c.input.contains("random(") && !c.input.contains("--"))
        .flat_map(|(ci, c)| {
            let pts = safe_points(&c.input);
            let n = pts.len();
            (0..n).map(move |k| (ci, k)).chain(std::iter::once((ci, usize::MAX)))
        })
        .collect();
    let nn = noise.len() as u64;
    par(
        ctx,
        sub,
        cases.len() as u64 * nn,
        |i| json!({"corpus_case": corp[cases[(i / nn) as usize].0].name, "noise": noise[(i % nn) as usize]}),
        |i, l| {
            let (ci, k) = cases[(i / nn) as usize];
            let nz = noise[(i % nn) as usize];
            let c = &corp[ci];
            let pts = safe_points(&c.input);
            if pts.is_empty() {
                return;
            }
            // `/**/` is a loud comment: it is printed; only use it where output drops it? -> skip loud here
            if nz == "/**/" {
                return;
            }
            let mut rewritten = String::new();
            if k == usize::MAX {
                // all boundaries at once
                let mut last = 0;
                for p in &pts {
                    rewritten.push_str(&c.input[last..*p]);
                    rewritten.push_str(nz);
                    last = *p;
                }
                rewritten.push_str(&c.input[last..]);
            } else {
                let p = pts[k];
                rewritten.push_str(&c.input[..p]);
                rewritten.push_str(nz);
                rewritten.push_str(&c.input[p..]);
            }
            let cfg = Cfg { syntax: Some(Syn::Scss), compressed: c.compressed, ..Cfg::default() };
            l.evals += 2;
            let base = compile(&c.input, &cfg);
            let got = compile(&rewritten, &cfg);
            l.validated += 1;
            l.outcome(got.digest());
            let Outcome::Ok(b) = &base else { return };
            l.nontrivial += 1;
            // comments in the source keep their own line structure; compare canonically with all comments
            let same = match &got {
                Outcome::Ok(g) => g == b || crate::models::canon::canon(g, true).ok() == crate::models::canon::canon(b, true).ok(),
                _ => false,
            };
            if !same {
                ctx.violation(sub, &format!("noise:{}:{}:{}:{:?}", c.file, c.name, if k == usize::MAX { "all".to_string() } else { k.to_string() }, nz), "inserting whitespace / a silent comment at a statement boundary changes the result", json!({"input": c.input, "rewritten": rewritten, "original_result": base.brief(), "rewritten_result": got.brief()}));
            }
        },
    );
    ctx.bound(sub, "every successfully compiling SCSS corpus input (< 600 bytes): each of 5 noise strings inserted after each `{` `;` `}` at nesting-safe positions, one position at a time and at all positions", true);
    ctx.sample(sub, json!({"input": "a { // n\n b: c; }"}));

    // ---- (5a) the kind of whitespace between two tokens ------------------------------------------------
    {
        let sub = "space-kinds";
        // (a silent comment is not among the replacements: selectors, at-rule preludes and keyframe names keep
        // `//` as text; inputs with escapes are left out: the space after a hex escape belongs to it)
        let repl = ["\n", " \n", "\t", "\r\n"];
        let inputs: Vec<&corpus::CorpusCase> = corp
            .iter()
            .filter(|c| c.syntax == Syn::Scss && !c.is_error && !c.compressed && c.input.len() < 300 && !c.input.contains("unique-id") && !c.input.contains("random(") && !c.input.contains("--") && !c.input.contains("@charset") && !c.input.contains('\\'))
            .collect();
        let cases: Vec<(usize, usize)> = inputs
            .iter()
            .enumerate()
            .flat_map(|(ci, c)| {
                let n = space_points(&c.input).len();
                (0..n).map(move |k| (ci, k)).chain(if n > 0 { Some((ci, usize::MAX)) } else { None })
            })
            .collect();
        let nr = repl.len() as u64;
        par(
            ctx,
            sub,
            cases.len() as u64 * nr,
            |i| json!({"corpus_case": inputs[cases[(i / nr) as usize].0].name, "point": cases[(i / nr) as usize].1 as i64, "replacement": repl[(i % nr) as usize]}),
            |i, l| {
                let (ci, k) = cases[(i / nr) as usize];
                let r = repl[(i % nr) as usize];
                let c = inputs[ci];
                let pts = space_points(&c.input);
                let mut rewritten = String::new();
                let mut last = 0;
                for (n, p) in pts.iter().enumerate() {
                    if k == usize::MAX || k == n {
                        rewritten.push_str(&c.input[last..*p]);
                        rewritten.push_str(r);
                        last = *p + 1;
                    }
                }
                rewritten.push_str(&c.input[last..]);
                l.evals += 2;
                let base = compile(&c.input, &Cfg::scss());
                let got = compile(&rewritten, &Cfg::scss());
                l.validated += 1;
                l.outcome(got.digest());
                let Outcome::Ok(b) = &base else { return };
                l.nontrivial += 1;
                let same = match &got {
                    Outcome::Ok(g) => g == b || crate::models::canon::canon(g, true).ok() == crate::models::canon::canon(b, true).ok(),
                    _ => false,
                };
                if !same {
                    ctx.violation(sub, &format!("space-kind:{}:{}:{}:{:?}", c.file, c.name, if k == usize::MAX { "all".to_string() } else { k.to_string() }, r), "replacing a space between two tokens by other whitespace changes the result", json!({"input": c.input, "rewritten": rewritten, "original_result": base.brief(), "rewritten_result": got.brief()}));
                }
            },
        );
        ctx.bound(sub, "every compiling SCSS corpus input (< 300 bytes): each single space between two tokens (outside strings, comments, url()) replaced by a newline, space + newline, tab or CRLF, one at a time and all at once (inputs with escapes excluded)", true);
        ctx.sample(sub, json!({"input": "a { b: 1\n-2; }", "must_equal": "a { b: 1 -2; }"}));
    }

    // ---- (5c) adjacent comment / statement lines in the indented syntax -------------------------------
    {
        let sub = "sass-line-adjacency";
        // (indented line(s), SCSS twin, needs an enclosing rule)
        let items: Vec<(&str, &str, bool)> = vec![
            ("// s", "// s", false),
            ("/* l */", "/* l */", false),
            ("r\n  p: q", "r { p: q; }", false),
            ("$v: 1", "$v: 1;", false),
            ("d: e", "d: e;", true),
            ("// t\n// u", "// t\n// u", false),
            ("@debug 1", "@debug 1;", false),
        ];
        let ni = items.len();
        let mut seqs: Vec<Vec<usize>> = Vec::new();
        for a in 0..ni {
            for b2 in 0..ni {
                seqs.push(vec![a, b2]);
                for c in 0..ni {
                    seqs.push(vec![a, b2, c]);
                }
            }
        }
        let n = seqs.len() as u64 * 2;
        par(
            ctx,
            sub,
            n,
            |i| json!({"items": seqs[(i / 2) as usize].iter().map(|k| items[*k].0).collect::<Vec<_>>(), "nested": i % 2 == 1}),
            |i, l| {
                let seq = &seqs[(i / 2) as usize];
                let nested = i % 2 == 1;
                if !nested && seq.iter().any(|k| items[*k].2) {
                    return;
                }
                let (mut sass, mut scss) = (String::new(), String::new());
                if nested {
                    sass.push_str("x\n");
                    scss.push_str("x {\n");
                }
                for k in seq {
                    let (a, b2, _) = items[*k];
                    for line in a.split('\n') {
                        if nested {
                            sass.push_str("  ");
                        }
                        sass.push_str(line);
                        sass.push('\n');
                    }
                    scss.push_str(b2);
                    scss.push('\n');
                }
                if nested {
                    scss.push_str("}\n");
                }
                l.evals += 2;
                let a = compile(&scss, &Cfg::syn(Syn::Scss));
                let b2 = compile(&sass, &Cfg::syn(Syn::Sass));
                l.validated += 1;
                l.outcome(b2.digest());
                let same = match (&a, &b2) {
                    (Outcome::Ok(x), Outcome::Ok(y)) => {
                        l.nontrivial += 1;
                        x == y || crate::models::canon::canon(x, true).ok() == crate::models::canon::canon(y, true).ok()
                    }
                    (Outcome::Err(x), Outcome::Err(y)) => x.message == y.message,
                    _ => false,
                };
                if !same {
                    ctx.violation(sub, &format!("sass-lines:{}:{}", nested, sass.replace('\n', "|")), "the same lines in SCSS and in the indented syntax compile differently", json!({"scss": scss, "sass": sass, "scss_result": a.brief(), "sass_result": b2.brief()}));
                }
            },
        );
        ctx.bound(sub, "every sequence of 2 or 3 lines over 7 line kinds (silent comment, loud comment, two silent comments, rule, variable, declaration, @debug) at the top level and inside a rule, in the indented syntax and as SCSS", true);
        ctx.sample(sub, json!({"sass": "// s\n/* l */\n", "scss": "// s\n/* l */\n"}));
    }

    // ---- (5d) nested @if / @else chains in both syntaxes -----------------------------------------------
    {
        let sub = "if-else-nesting";
        #[derive(Clone)]
        enum I {
            D(usize),
            If(bool, Vec<I>, Option<Vec<I>>),
        }
        fn gen(depth: usize, counter: &mut usize) -> Vec<I> {
            // all nodes of nesting depth <= depth
            let mut out = vec![I::D(0)];
            if depth == 0 {
                return out;
            }
            let inner = gen(depth - 1, counter);
            let mut bodies: Vec<Vec<I>> = inner.iter().map(|x| vec![x.clone()]).collect();
            if depth == 1 {
                bodies.push(vec![I::D(0), I::D(1)]);
            } else {
                // a declaration before / after a nested @if
                for x in inner.iter().filter(|x| matches!(x, I::If(..))).take(6) {
                    bodies.push(vec![I::D(1), x.clone()]);
                    bodies.push(vec![x.clone(), I::D(1)]);
                }
            }
            for c in [true, false] {
                for t in &bodies {
                    out.push(I::If(c, t.clone(), None));
                    for e in bodies.iter().take(if depth == 1 { 3 } else { 8 }) {
                        out.push(I::If(c, t.clone(), Some(e.clone())));
                    }
                }
            }
            let _ = counter;
            out
        }
        fn print(n: &I, ind: usize, sass: bool, k: &mut usize, out: &mut String) {
            let pad = "  ".repeat(ind);
            match n {
                I::D(_) => {
                    *k += 1;
                    out.push_str(&format!("{}p{}: v{}\n", pad, k, if sass { "" } else { ";" }));
                }
                I::If(c, t, e) => {
                    out.push_str(&format!("{}@if {}{}\n", pad, c, if sass { "" } else { " {" }));
                    for x in t {
                        print(x, ind + 1, sass, k, out);
                    }
                    match e {
                        Some(eb) => {
                            out.push_str(&format!("{}{}\n", pad, if sass { "@else" } else { "} @else {" }));
                            for x in eb {
                                print(x, ind + 1, sass, k, out);
                            }
                            if !sass {
                                out.push_str(&format!("{}}}\n", pad));
                            }
                        }
                        None => {
                            if !sass {
                                out.push_str(&format!("{}}}\n", pad));
                            }
                        }
                    }
                }
            }
        }
        let mut cnt = 0;
        let nodes: Vec<I> = gen(ctx.pick(2, 3), &mut cnt).into_iter().filter(|x| matches!(x, I::If(..))).collect();
        par(
            ctx,
            sub,
            nodes.len() as u64 * 2,
            |i| {
                let mut s2 = String::from("a\n");
                let mut k = 0;
                print(&nodes[(i / 2) as usize], 1, true, &mut k, &mut s2);
                json!({"sass": s2, "followed_by_declaration": i % 2 == 1})
            },
            |i, l| {
                let n = &nodes[(i / 2) as usize];
                let tail = i % 2 == 1;
                let (mut sass, mut scss) = (String::from("a\n"), String::from("a {\n"));
                let (mut k1, mut k2) = (0, 0);
                print(n, 1, true, &mut k1, &mut sass);
                print(n, 1, false, &mut k2, &mut scss);
                if tail {
                    sass.push_str("  z: y\n");
                    scss.push_str("  z: y;\n");
                }
                scss.push_str("}\n");
                l.evals += 2;
                let a = compile(&scss, &Cfg::syn(Syn::Scss));
                let b2 = compile(&sass, &Cfg::syn(Syn::Sass));
                l.validated += 1;
                l.outcome(b2.digest());
                let same = match (&a, &b2) {
                    (Outcome::Ok(x), Outcome::Ok(y)) => {
                        l.nontrivial += 1;
                        x == y
                    }
                    (Outcome::Err(x), Outcome::Err(y)) => x.message == y.message,
                    _ => false,
                };
                if !same {
                    ctx.violation(sub, &format!("if-else:{}", sass.replace('\n', "|")), "the same @if/@else nesting in SCSS and in the indented syntax compiles differently", json!({"scss": scss, "sass": sass, "scss_result": a.brief(), "sass_result": b2.brief()}));
                }
            },
        );
        ctx.bound(sub, "every @if [/@else] tree of nesting depth <= 2 (thorough 3) over true/false conditions, bodies of one declaration, two declarations, a nested @if alone / before / after a declaration, with and without a declaration after the outermost @if, inside a rule, in both syntaxes", true);
        ctx.sample(sub, json!({"sass": "a\n  @if false\n    @if true\n      p1: v\n  @else\n    p2: v\n"}));
    }

    // ---- (5e) the syntax of a loaded file comes from its extension, whatever the entry's syntax option --
    {
        let sub = "mixed-syntax-loads";
        // library content in the three syntaxes (same meaning)
        let libs: [(&str, &str); 3] = [("scss", "$t: 1px; @mixin m { q: r; } .lib { a: b; }\n"), ("sass", "$t: 1px\n@mixin m\n  q: r\n.lib\n  a: b\n"), ("css", ".lib { a: b; }\n")];
        // entries: (syntax, source using the library through rule R)
        let rules = ["@import \"lib\"", "@use \"lib\" as *", "@use \"lib\"", "@forward \"lib\""];
        let entries: [(Syn, &str); 2] = [(Syn::Scss, "{R};\n.e { c: d; }\n"), (Syn::Sass, "{R}\n.e\n  c: d\n")];
        let n = (libs.len() * rules.len() * entries.len() * 2) as u64;
        par(
            ctx,
            sub,
            n,
            |i| json!({"index": i}),
            |i, l| {
                let i = i as usize;
                let (lext, lsrc) = libs[i % 3];
                let rule = rules[(i / 3) % 4];
                let (esyn, etpl) = entries[(i / 12) % 2];
                let explicit = i / 24 == 1; // syntax given through the option, or derived from the entry's extension
                let ename = if esyn == Syn::Scss { "e.scss" } else { "e.sass" };
                let mut fs = MemFs::new();
                fs.add(ename, &etpl.replace("{R}", rule));
                fs.add(&format!("_lib.{}", lext), lsrc);
                let cfg = Cfg { syntax: if explicit { Some(esyn) } else { None }, ..Cfg::default() };
                l.evals += 2;
                let got = compile_path(ename, &cfg, &Env { fs: &fs, logger: &grass_compiler::NullLogger });
                // twin: the library in the entry's own syntax (plain-CSS libraries: SCSS reads CSS)
                let mut fs2 = MemFs::new();
                fs2.add(ename, &etpl.replace("{R}", rule));
                let twin_ext = if lext == "css" { "css" } else if esyn == Syn::Scss { "scss" } else { "sass" };
                fs2.add(&format!("_lib.{}", twin_ext), libs.iter().find(|x| x.0 == twin_ext).unwrap().1);
                let want = compile_path(ename, &Cfg { syntax: None, ..Cfg::default() }, &Env { fs: &fs2, logger: &grass_compiler::NullLogger });
                l.validated += 1;
                l.outcome(got.digest());
                let same = match (&got, &want) {
                    (Outcome::Ok(x), Outcome::Ok(y)) => {
                        l.nontrivial += 1;
                        x == y
                    }
                    (Outcome::Err(x), Outcome::Err(y)) => x.message == y.message,
                    _ => false,
                };
                if !same {
                    ctx.violation(sub, &format!("mixed-syntax:{}:{}:{}:{}", esyn.name(), lext, rule, explicit), &format!("an entry in {} syntax ({}) loading _lib.{} gives {}; with the library written in the entry's syntax it gives {}", esyn.name(), if explicit { "syntax option set" } else { "from the extension" }, lext, got.brief(), want.brief()), json!({"files": fs.json()}));
                }
            },
        );
        ctx.bound(sub, "entry in SCSS / indented syntax (syntax from the option or from the extension) x library in .scss / .sass / .css x @import / @use as * / @use / @forward: the result equals the one with the library written in the entry's own syntax", true);
        ctx.sample(sub, json!({"entry": "e.sass with the indented-syntax option", "library": "_lib.scss"}));
    }

    // ---- (5b) whitespace and comments inside parentheses ---------------------------------------------
    let sub = "paren-noise";
    let pnoise = [" ", "\n  ", "/**/", " /* c */ "];
    let mut extra: Vec<String> = vec![
        "@function sum($a...) { @return length($a); } $l: 1 2 3; a { b: sum($l...); }".into(),
        "@function sum($a...) { @return length($a); } $l: 1 2 3; $m: (k: 1); a { b: sum($l..., $m...); }".into(),
        "@mixin m($a...) { b: $a; } $l: 1 2 3; a { @include m($l...); }".into(),
        "@mixin m($a, $b: 2, $r...) { b: $a $b $r; } a { @include m(1, $b: 3); @include m(1, 2, 3, 4); }".into(),
        "@function f($a, $b: 2) { @return $a + $b; } a { b: f(1); c: f($a: 1, $b: 5); d: f(1, 2); }".into(),
        "a { b: if(true, 1, 2); c: rgba(1, 2, 3, 0.5); d: (1, 2, 3); e: (k: v, l: w); f: nth((1, 2), 1); }".into(),
        "@mixin c { @content(1, 2); } a { @include c using ($x, $y) { b: $x $y; } }".into(),
        "a:not(.b, .c) { d: e; } @media (min-width: 1px) and (max-width: 2px) { a { b: c; } } @supports (a: b) { c { d: e; } }".into(),
    ];
    let pcases_src: Vec<String> = corp
        .iter()
        .filter(|c| c.syntax == Syn::Scss && !c.is_error && !c.compressed && c.input.len() < 400 && c.input.contains('(') && !c.input.contains("unique-id") && !c.input.contains("random(") && !c.input.contains("--"))
        .map(|c| c.input.clone())
        .collect();
    extra.extend(pcases_src);
    let pcases: Vec<(usize, usize)> = extra
        .iter()
        .enumerate()
        .flat_map(|(ci, src)| {
            let n = paren_points(src).len();
            (0..n).map(move |k| (ci, k)).chain(if n > 0 { Some((ci, usize::MAX)) } else { None })
        })
        .collect();
    let pn = pnoise.len() as u64;
    par(
        ctx,
        sub,
        pcases.len() as u64 * pn,
        |i| json!({"input": extra[pcases[(i / pn) as usize].0], "point": pcases[(i / pn) as usize].1 as i64, "noise": pnoise[(i % pn) as usize]}),
        |i, l| {
            let (ci, k) = pcases[(i / pn) as usize];
            let nz = pnoise[(i % pn) as usize];
            let src = &extra[ci];
            let pts = paren_points(src);
            let mut rewritten = String::new();
            if k == usize::MAX {
                let mut last = 0;
                for p in &pts {
                    rewritten.push_str(&src[last..*p]);
                    rewritten.push_str(nz);
                    last = *p;
                }
                rewritten.push_str(&src[last..]);
            } else {
                let p = pts[k];
                rewritten.push_str(&src[..p]);
                rewritten.push_str(nz);
                rewritten.push_str(&src[p..]);
            }
            l.evals += 2;
            let base = compile(src, &Cfg::scss());
            let got = compile(&rewritten, &Cfg::scss());
            l.validated += 1;
            l.outcome(got.digest());
            let Outcome::Ok(b) = &base else { return };
            l.nontrivial += 1;
            let same = match &got {
                Outcome::Ok(g) => g == b || crate::models::canon::canon(g, false).ok() == crate::models::canon::canon(b, false).ok(),
                _ => false,
            };
            if !same {
                ctx.violation(sub, &format!("paren-noise:{}:{}:{:?}", crate::models::css::squash_ws(src), if k == usize::MAX { "all".to_string() } else { k.to_string() }, nz), "inserting whitespace / a comment next to a parenthesis or a comma inside parentheses changes the result", json!({"input": src, "rewritten": rewritten, "original_result": base.brief(), "rewritten_result": got.brief()}));
            }
        },
    );
    ctx.bound(sub, "8 call / include / selector / query templates with rest, keyword and default arguments plus every compiling SCSS corpus input (< 400 bytes) containing parentheses: each of 4 noise strings (space, newline, empty comment, comment) inserted after each `(`, before each `)` and on both sides of each `,` inside parentheses, one position at a time and at all positions", true);
    ctx.sample(sub, json!({"input": "a { b: sum($l... ); }"}));

    // ---- (6) `_` <-> `-` in variable, function and mixin names -------------------------------------
    let sub = "underscore-hyphen";
    let names = [("a-b", "a_b"), ("a_b", "a-b"), ("a-b_c", "a_b-c"), ("-a-b", "-a_b"), ("a--b", "a__b")];
    // template: definition name D and use name U substituted independently
    let tpls = [
        "$\u{1}: 1; x { y: $\u{2}; }",
        "$\u{1}: 1; $\u{2}: 2; x { y: $\u{1} $\u{2}; }",
        "$\u{1}: 1 !default; $\u{2}: 2 !default; x { y: $\u{1}; }",
        "@function \u{1}($n) { @return $n + 1; } x { y: \u{2}(1); }",
        "@mixin \u{1}($n) { y: $n; } x { @include \u{2}(1); }",
        "@function f($\u{1}) { @return $\u{2}; } x { y: f(1); z: f($\u{2}: 2); }",
        "@mixin m($\u{1}: 0) { y: $\u{2}; } x { @include m($\u{2}: 3); }",
        "$\u{1}: 1; x { y: variable-exists(\"\u{2}\") global-variable-exists(\"\u{2}\"); }",
        "@function \u{1}() { @return 1; } x { y: function-exists(\"\u{2}\"); z: call(get-function(\"\u{2}\")); }",
        "@mixin \u{1} { a: b; } x { y: mixin-exists(\"\u{2}\"); }",
        "$\u{1}: 1; x { $\u{2}: 2; y: $\u{1}; } z { w: $\u{1}; }",
        "$\u{1}: 1; x { $\u{2}: 2 !global; } z { w: $\u{1}; }",
    ];
    let nt = tpls.len() as u64;
    let nnm = names.len() as u64;
    par(
        ctx,
        sub,
        nt * nnm,
        |i| json!({"template": tpls[(i / nnm) as usize], "names": names[(i % nnm) as usize]}),
        |i, l| {
            let t = tpls[(i / nnm) as usize];
            let (n1, n2) = names[(i % nnm) as usize];
            let variants: Vec<String> = [(n1, n1), (n1, n2), (n2, n1), (n2, n2)].iter().map(|(d, u)| t.replace('\u{1}', d).replace('\u{2}', u)).collect();
            let outs: Vec<Outcome> = variants.iter().map(|s| compile(s, &Cfg::scss())).collect();
            l.evals += 4;
            l.validated += 1;
            l.outcome(outs[0].digest());
            if outs[0].is_ok() {
                l.nontrivial += 1;
            }
            // keywords() reports the name as written at the call site normalised to hyphens; the
            // property is about which definition a name refers to, so compare results only
            for k in 1..4 {
                let same = match (&outs[0], &outs[k]) {
                    (Outcome::Ok(a), Outcome::Ok(b)) => a == b,
                    (Outcome::Err(a), Outcome::Err(b)) => a.message.replace('_', "-") == b.message.replace('_', "-"),
                    _ => false,
                };
                if !same {
                    ctx.violation(sub, &format!("names:{}:{}:{}", t.replace('\u{1}', "<D>").replace('\u{2}', "<U>"), n1, k), "exchanging `_` and `-` in a name changes the result", json!({"original": variants[0], "variant": variants[k], "original_result": outs[0].brief(), "variant_result": outs[k].brief()}));
                }
            }
        },
    );
    ctx.bound(sub, "12 definition/use templates (variables, functions, mixins, parameters, keyword arguments, existence checks, scoping) x 5 name pairs x {definition, use, both} swapped", true);
    ctx.sample(sub, json!({"original": "$a-b: 1; x { y: $a-b; }", "variant": "$a-b: 1; x { y: $a_b; }"}));
    ctx.assume("the SCSS and indented printers are written independently in the harness; noise is only inserted where it is lexically insignificant (after `{`, `;`, `}` outside strings, comments, parentheses and interpolation)");
}

fn uses_sass_feature(s: &str) -> bool {
    for w in ["null", "true", "false", "not", "@use", "@forward", "@import", "@function", "@return", "@mixin", "@include", "@if", "@else"] {
        if s.contains(w) {
            return true;
        }
    }
    // operators, SassScript functions, and/or/not, variables: text the CSS parser passes through
    s.contains(" + ") || s.contains(" - ") || s.contains(" * ") || s.contains(" and ") || s.contains(" or ") || s.contains("not ") || s.contains('$') || s.contains("#{") || s.contains("==") || s.contains("(") || s.contains("!") || s.contains('/')
}
