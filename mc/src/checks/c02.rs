//! C02 — purity: same source + options + files => same bytes, whatever the history on the
//! thread, the schedule of concurrent compilations, or the hash seed.
//!
//! Oracle for all three dimensions: the observed result equals the result of the same
//! compilation in a fresh thread of a fresh process. Every execution (history, schedule,
//! baseline) runs in a child forked from a cold single-threaded zygote, so all executions
//! start from the identical process state.

use crate::core::sched::{run_schedule, successors};
use crate::core::*;
use crate::gen::corpus;
use serde_json::json;
use std::io::{BufRead, BufReader, Write};
use std::process::{Child, ChildStdin, ChildStdout, Command, Stdio};
use std::sync::Mutex;

/// Program alphabet: (name, entry source, extra files)
pub fn programs() -> Vec<(&'static str, &'static str, Vec<(&'static str, &'static str)>)> {
    vec![
        ("kw-zebra-first", "@function f($args...) { @return inspect(keywords($args)); } a { b: f($zebra: 1, $apple: 2); }", vec![]),
        ("vars-apple-first", "$apple: 1; $zebra: 2; a { b: $apple $zebra; }", vec![]),
        ("unknown-named-zz-yy", "@function g($a) { @return $a; } a { b: g(1, $zz: 1, $yy: 2); }", vec![]),
        ("vars-yy-first", "$yy: 1; $zz: 2; a { b: $yy + $zz; }", vec![]),
        (
            "module-listing",
            "@use \"sass:meta\"; @use \"m\"; a { v: inspect(meta.module-variables(\"m\")); f: inspect(meta.module-functions(\"m\")); }",
            vec![
                ("m.scss", "@forward \"p\"; @forward \"q\"; $mango: 1; @function kiwi() { @return 1; }"),
                ("p.scss", "$zebra: 1; $apple: 2; $cherry: 3; @function zeta() { @return 1; } @function alpha() { @return 2; }"),
                ("q.scss", "$banana: 4; $date: 5; @function beta() { @return 3; }"),
            ],
        ),
        ("extend-heavy", ".a { x: y; } .b { @extend .a; } .c .d { @extend .b; } .a.e { z: w; } .f { @extend .e; } .f.g { p: q; } .x { @extend .f; @extend .g; } .m > .n, .o { r: s; } .q { @extend .n; }", vec![]),
        ("get-function-call", "@function h($x) { @return $x * 2; } a { b: call(get-function(\"h\"), 2); c: inspect(get-function(\"abs\")) == inspect(get-function(\"abs\")); d: get-function(\"h\") == get-function(\"h\"); e: inspect(get-function(\"h\")); }", vec![]),
        ("failing", "$apple: 1px; $zebra: 1s; a { b: $zebra + $apple; }", vec![]),
        ("map-each", "$m: (zebra: 1, apple: 2, mango: 3); @each $k, $v in $m { a { #{$k}: $v; } } b { c: inspect(map-keys($m)); }", vec![]),
        ("mixin-keywords", "@mixin m($args...) { @each $k, $v in keywords($args) { #{$k}: $v; } } a { @include m($mango: 1, $banana: 2, $apple: 3); }", vec![]),
        ("kw-apple-first", "@function f($args...) { @return inspect(keywords($args)); } a { b: f($apple: 1, $zebra: 2, $mango: 3); }", vec![]),
        (
            "import-global",
            "$zebra: 0; @import \"lib\"; a { b: $zebra $apple; } .k { @extend %ph; }",
            vec![("_lib.scss", "$apple: 5; $zebra: 6 !global; %ph { u: v; } .a { @extend %ph; }")],
        ),
        ("selector-fns", "a { b: selector-extend(\".a .b\", \".b\", \".c .d\"); c: selector-unify(\".a.e\", \".f\"); d: is-superselector(\".a\", \".a.b\"); } .z:not(.a) { x: y; } .w { @extend .a; }", vec![]),
        ("error-arglist", "@mixin m($a) { b: $a; } a { @include m(1, $zebra: 2, $apple: 3); }", vec![]),
        // members of a module that are shadowed and removed by an @import-ed file's forwards
        (
            "import-forward-shadow",
            "@use \"sass:meta\"; @use \"lib\"; a { v: inspect(meta.module-variables(\"lib\")); f: inspect(meta.module-functions(\"lib\")); }",
            vec![
                ("_lib.scss", "$first: 1; $a: local; $b: local; $c: local; $d: local; $second: 2; $third: 3; $fourth: 4; $fifth: 5; @function fn-first() {@return 1} @function fa() {@return local} @function fb() {@return local} @function fc() {@return local} @function fn-second() {@return 2} @function fn-third() {@return 3} @function fn-fourth() {@return 4} @import \"legacy\";"),
                ("_legacy.scss", "@forward \"theme\";"),
                ("_theme.scss", "$a: theme; $b: theme; $c: theme; $d: theme; @function fa() {@return theme} @function fb() {@return theme} @function fc() {@return theme}"),
            ],
        ),
        // a built-in module's variable written through a forwarding module, then read by another compilation
        ("forward-builtin-assign", "@use \"mid\"; mid.$pi: 3; a { b: mid.$pi; c: mid.floor(2.5); }", vec![("_mid.scss", "@forward \"sass:math\";")]),
        ("builtin-var-read", "@use \"sass:math\"; a { pi: math.$pi; e: math.$e; c: math.$pi * 2; }", vec![]),
        // the same source and files under two option sets (the text after `@` in the name is the load path)
        ("theme@themes/light", "@import \"theme\"; a { b: $t; }", vec![("themes/light/_theme.scss", "$t: light;"), ("themes/dark/_theme.scss", "$t: dark;")]),
        ("theme@themes/dark", "@import \"theme\"; a { b: $t; }", vec![("themes/light/_theme.scss", "$t: light;"), ("themes/dark/_theme.scss", "$t: dark;")]),
    ]
}

fn fs_of(files: &[(&str, &str)]) -> MemFs {
    let mut fs = MemFs::new();
    for (p, c) in files {
        fs.add(p, c);
    }
    fs
}

/// compile program i (quiet, expanded) and return the byte-exact result text
fn run_prog(i: usize) -> String {
    let ps = programs();
    let (name, src, files) = &ps[i];
    let fs = fs_of(files);
    let cfg = Cfg { load_paths: name.split_once('@').map(|x| vec![x.1.to_string()]).unwrap_or_default(), ..Cfg::scss() };
    compile_env(src, &cfg, &Env { fs: &fs, logger: &grass_compiler::NullLogger }).bytes()
}

fn esc(s: &str) -> String {
    s.replace('\\', "\\\\").replace('\n', "\\n")
}

// ------------------------------------------------------------------------------------------
// zygote: a cold, single-threaded process that forks one child per execution
// ------------------------------------------------------------------------------------------

fn child_history(ids: &[usize]) {
    // one thread (the child's main thread), compilations in order
    for i in ids {
        let o = run_prog(*i);
        println!("O {:016x} {}", digest_str(&o), esc(&o));
    }
}

fn child_schedule(ids: &[usize], choices: Vec<usize>) {
    // warm up the lazily built global function table before the hook exists: a thread preempted
    // inside once_cell's initialiser would block every other managed thread on its lock
    let _ = compile("a{b:abs(1)}", &Cfg::scss());
    let bodies: Vec<Box<dyn FnOnce() -> String + Send>> = ids
        .iter()
        .map(|i| {
            let i = *i;
            Box::new(move || run_prog(i)) as Box<dyn FnOnce() -> String + Send>
        })
        .collect();
    let r = run_schedule(bodies, choices);
    let t: Vec<String> = r.trace.iter().map(|d| format!("{}:{}:{}", d.cur_enabled as u8, d.n_enabled, d.chosen)).collect();
    println!("T {}", t.join(","));
    let all: Vec<u8> = r.events.iter().flat_map(|(t, s)| [*t, *s]).collect();
    let counters: Vec<u8> = r.events.iter().filter(|(_, s)| *s != 0).flat_map(|(t, s)| [*t, *s]).collect();
    println!("E {:016x} {:016x} {}", digest(&all), digest(&counters), r.events.len());
    println!("D {}", r.diverged as u8);
    for o in r.outputs {
        println!("O {:016x} {}", digest_str(&o), esc(&o));
    }
}

fn child_corpus(lo: usize, hi: usize) {
    let corp = corpus::load();
    for c in corp.iter().take(hi).skip(lo) {
        let cfg = Cfg { syntax: Some(c.syntax), compressed: c.compressed, ..Cfg::default() };
        let input = c.input.clone();
        // a fresh thread per compilation: fresh interner and fresh per-thread hash keys
        let o = fresh_thread(move || compile(&input, &cfg).bytes());
        println!("O {:016x}", digest_str(&o));
    }
}

fn child_uniqueid(k: usize) {
    let src = format!("a {{ {} }}", (0..k).map(|i| format!("i{}: unique-id();", i)).collect::<String>());
    let o = compile(&src, &Cfg::scss());
    println!("O {:016x} {}", 0, esc(&o.bytes()));
}

fn child_calibrate() {
    // which iteration orders of small std hash sets does this seed realise?
    use std::collections::HashSet;
    let s3: HashSet<&str> = ["a", "b", "c"].into_iter().collect();
    let s5: HashSet<&str> = ["a", "b", "c", "d", "e"].into_iter().collect();
    println!("O {:016x} {}|{}", 0, s3.iter().copied().collect::<String>(), s5.iter().copied().collect::<String>());
}

fn parse_ids(s: &str) -> Vec<usize> {
    s.split(',').filter(|x| !x.is_empty()).filter_map(|x| x.parse().ok()).collect()
}

/// `mc --one c02 zygote`
pub fn zygote() -> i32 {
    let stdin = std::io::stdin();
    let mut line = String::new();
    loop {
        line.clear();
        match stdin.lock().read_line(&mut line) {
            Ok(0) | Err(_) => return 0,
            Ok(_) => {}
        }
        let req = line.trim().to_string();
        if req.is_empty() {
            continue;
        }
        let _ = std::io::stdout().flush();
        let pid = unsafe { libc::fork() };
        if pid == 0 {
            // child: cold state, one execution
            let parts: Vec<&str> = req.splitn(2, ' ').collect();
            let arg = parts.get(1).copied().unwrap_or("");
            match parts[0] {
                "H" => child_history(&parse_ids(arg)),
                "S" => {
                    let (a, b) = arg.split_once('|').unwrap_or((arg, ""));
                    child_schedule(&parse_ids(a), parse_ids(b));
                }
                "C" => {
                    let v = parse_ids(arg);
                    child_corpus(v[0], v[1]);
                }
                "U" => child_uniqueid(parse_ids(arg)[0]),
                "K" => child_calibrate(),
                _ => println!("BADREQ"),
            }
            let _ = std::io::stdout().flush();
            unsafe { libc::_exit(0) };
        }
        if pid < 0 {
            println!("FORKFAIL");
            println!("END");
            let _ = std::io::stdout().flush();
            continue;
        }
        // parent: wait with a time limit
        let t0 = std::time::Instant::now();
        let mut status: libc::c_int = 0;
        let verdict = loop {
            let r = unsafe { libc::waitpid(pid, &mut status, libc::WNOHANG) };
            if r == pid {
                if libc::WIFEXITED(status) && libc::WEXITSTATUS(status) == 0 {
                    break None;
                } else if libc::WIFSIGNALED(status) {
                    break Some(format!("CRASH signal {}", libc::WTERMSIG(status)));
                } else {
                    break Some(format!("CRASH exit {}", libc::WEXITSTATUS(status)));
                }
            }
            if t0.elapsed().as_secs() > 60 {
                unsafe {
                    libc::kill(pid, libc::SIGKILL);
                    libc::waitpid(pid, &mut status, 0);
                }
                break Some("HANG".to_string());
            }
            std::thread::sleep(std::time::Duration::from_micros(200));
        };
        if let Some(v) = verdict {
            println!("{}", v);
        }
        println!("END");
        let _ = std::io::stdout().flush();
    }
}

pub struct Zygote {
    child: Child,
    stdin: ChildStdin,
    stdout: BufReader<ChildStdout>,
}

impl Zygote {
    pub fn spawn(seed: Option<u64>, root: &std::path::Path) -> Zygote {
        let exe = std::env::current_exe().expect("exe");
        let mut cmd = Command::new(exe);
        cmd.args(["--one", "c02", "zygote"]).stdin(Stdio::piped()).stdout(Stdio::piped()).stderr(Stdio::null());
        if let Some(s) = seed {
            cmd.env("LD_PRELOAD", root.join("target").join("seedshim.so")).env("VERIF_HASH_SEED", s.to_string());
        }
        let mut child = cmd.spawn().expect("spawn zygote");
        let stdin = child.stdin.take().unwrap();
        let stdout = BufReader::new(child.stdout.take().unwrap());
        Zygote { child, stdin, stdout }
    }
    pub fn request(&mut self, req: &str) -> Vec<String> {
        let _ = writeln!(self.stdin, "{}", req);
        let _ = self.stdin.flush();
        let mut out = Vec::new();
        let mut line = String::new();
        loop {
            line.clear();
            match self.stdout.read_line(&mut line) {
                Ok(0) | Err(_) => {
                    out.push("ZYGOTE-DIED".into());
                    return out;
                }
                Ok(_) => {}
            }
            let l = line.trim_end_matches('\n');
            if l == "END" {
                return out;
            }
            out.push(l.to_string());
        }
    }
}
impl Drop for Zygote {
    fn drop(&mut self) {
        let _ = self.child.kill();
        let _ = self.child.wait();
    }
}

fn outputs_of(resp: &[String]) -> Vec<(String, String)> {
    resp.iter()
        .filter_map(|l| l.strip_prefix("O "))
        .map(|l| {
            let (d, t) = l.split_once(' ').unwrap_or((l, ""));
            (d.to_string(), t.to_string())
        })
        .collect()
}

fn abnormal(resp: &[String]) -> Option<String> {
    resp.iter().find(|l| l.starts_with("CRASH") || l.starts_with("HANG") || l.starts_with("ZYGOTE-DIED") || l.starts_with("FORKFAIL") || l.starts_with("BADREQ")).cloned()
}

/// run `jobs` over a pool of zygotes; `f(job, response)`.
fn pool<J: Send + Sync, F: Fn(&J, Vec<String>, &mut Local) + Sync>(ctx: &Ctx, seed: Option<u64>, jobs: &[J], req: impl Fn(&J) -> String + Sync, f: F) -> Local {
    let next = std::sync::atomic::AtomicUsize::new(0);
    let nw = nworkers().min(jobs.len().max(1));
    let locals: Vec<Local> = std::thread::scope(|s| {
        let hs: Vec<_> = (0..nw)
            .map(|_| {
                s.spawn(|| {
                    let mut z = Zygote::spawn(seed, &ctx.root);
                    let mut l = Local::default();
                    loop {
                        let j = next.fetch_add(1, std::sync::atomic::Ordering::Relaxed);
                        if j >= jobs.len() {
                            break;
                        }
                        let r = z.request(&req(&jobs[j]));
                        if r.iter().any(|x| x == "ZYGOTE-DIED") {
                            z = Zygote::spawn(seed, &ctx.root);
                        }
                        f(&jobs[j], r, &mut l);
                    }
                    l
                })
            })
            .collect();
        hs.into_iter().map(|h| h.join().expect("pool worker")).collect()
    });
    let mut total = Local::default();
    for l in locals {
        total.evals += l.evals;
        total.validated += l.validated;
        total.nontrivial += l.nontrivial;
        total.outcomes.extend(l.outcomes);
        for (k, v) in l.counters {
            *total.counters.entry(k).or_insert(0) += v;
        }
    }
    total
}

/// plain parallel for over items (each worker accumulates a Local)
fn par_each<J: Sync, F: Fn(&J, (), &mut Local) + Sync>(jobs: &[J], f: F) -> Local {
    let next = std::sync::atomic::AtomicUsize::new(0);
    let nw = nworkers().min(jobs.len().max(1));
    let locals: Vec<Local> = std::thread::scope(|s| {
        let hs: Vec<_> = (0..nw)
            .map(|_| {
                s.spawn(|| {
                    let mut l = Local::default();
                    loop {
                        let j = next.fetch_add(1, std::sync::atomic::Ordering::Relaxed);
                        if j >= jobs.len() {
                            break;
                        }
                        f(&jobs[j], (), &mut l);
                    }
                    l
                })
            })
            .collect();
        hs.into_iter().map(|h| h.join().expect("worker")).collect()
    });
    let mut total = Local::default();
    for l in locals {
        total.evals += l.evals;
        total.validated += l.validated;
        total.nontrivial += l.nontrivial;
        total.outcomes.extend(l.outcomes);
        for (k, v) in l.counters {
            *total.counters.entry(k).or_insert(0) += v;
        }
    }
    total
}

fn active(ctx: &Ctx, sub: &str) -> bool {
    if !matches!(ctx.mode, Mode::Normal) {
        return false;
    }
    match &ctx.replay_filter {
        Some((s, _)) => s == sub,
        None => true,
    }
}

pub fn run(ctx: &Ctx) {
    let ps = programs();
    let np = ps.len();
    // ---- baselines: each program alone in a fresh process ------------------------------
    let mut z0 = Zygote::spawn(None, &ctx.root);
    let base: Vec<(String, String)> = (0..np)
        .map(|i| {
            let r = z0.request(&format!("H {}", i));
            let o = outputs_of(&r);
            if o.len() != 1 {
                ctx.machinery(&format!("baseline of program {} unreadable: {:?}", ps[i].0, r));
                (String::new(), String::new())
            } else {
                o[0].clone()
            }
        })
        .collect();
    // the baseline itself must be reproducible
    for i in 0..np {
        let r = z0.request(&format!("H {}", i));
        if outputs_of(&r).first() != Some(&base[i]) {
            ctx.violation("baseline", &format!("baseline-unstable:{}", ps[i].0), "two fresh-process runs of the same program differ", json!({"program": ps[i].1, "first": base[i].1, "second": format!("{:?}", r)}));
        }
    }
    drop(z0);

    // ---- history dimension (bfs over operation sequences, every prefix checked) ---------
    let sub = "history";
    if active(ctx, sub) {
        let t0 = std::time::Instant::now();
        // quick: all pairs over the full alphabet + all triples over a 7-program core;
        // thorough: all triples over the full alphabet + all 4-sequences over the core
        let core: Vec<usize> = vec![0, 1, 4, 5, 6, 9, 11];
        let full: Vec<usize> = (0..np).collect();
        let mut hist: Vec<Vec<usize>> = Vec::new();
        let mut gen = |alpha: &Vec<usize>, d: u32| {
            let n = alpha.len() as u64;
            for k in 0..n.pow(d) {
                let mut v = Vec::new();
                let mut x = k;
                for _ in 0..d {
                    v.push(alpha[(x % n) as usize]);
                    x /= n;
                }
                hist.push(v);
            }
        };
        gen(&full, 2);
        if ctx.quick() {
            gen(&core, 3);
        } else {
            gen(&full, 3);
            gen(&core, 4);
        }
        hist.sort();
        hist.dedup();
        let depth = ctx.pick(3, 4);
        let states: Mutex<std::collections::BTreeSet<u64>> = Mutex::new(Default::default());
        let l = pool(
            ctx,
            None,
            &hist,
            |h| format!("H {}", h.iter().map(|x| x.to_string()).collect::<Vec<_>>().join(",")),
            |h, r, l| {
                l.evals += h.len() as u64;
                if let Some(a) = abnormal(&r) {
                    ctx.violation(sub, &format!("history:{}", h.iter().map(|i| ps[*i].0).collect::<Vec<_>>().join(">")), &format!("history execution ended abnormally: {}", a), json!({"history": h.iter().map(|i| ps[*i].1).collect::<Vec<_>>()}));
                    return;
                }
                let outs = outputs_of(&r);
                // state key for counting only: order in which the programs were first seen
                let mut seen = Vec::new();
                for i in h {
                    if !seen.contains(i) {
                        seen.push(*i);
                    }
                }
                states.lock().unwrap().insert(digest(&seen.iter().map(|x| *x as u8).collect::<Vec<_>>()));
                for (k, i) in h.iter().enumerate() {
                    l.validated += 1;
                    match outs.get(k) {
                        Some(o) if *o == base[*i] => {
                            l.outcome(digest_str(&o.0));
                        }
                        other => {
                            // finding key: the observed program and the shortest suffix of history that matters is unknown; key on (previous program, observed program)
                            let prev = if k > 0 { ps[h[k - 1]].0 } else { "-" };
                            ctx.violation(
                                sub,
                                // key: the observed program and the wrong result it gave (a different wrong result is a different finding)
                                &format!("history:{}:{}", ps[*i].0, other.map(|o| o.0.clone()).unwrap_or_else(|| "missing".into())),
                                &format!("result of `{}` differs after compiling {:?} on the same thread (directly after `{}`)", ps[*i].0, h[..k].iter().map(|j| ps[*j].0).collect::<Vec<_>>(), prev),
                                json!({"observed_program": ps[*i].1, "history": h[..k].iter().map(|j| ps[*j].1).collect::<Vec<_>>(), "fresh_process_result": base[*i].1, "observed": other.map(|o| o.1.clone())}),
                            );
                            return;
                        }
                    }
                }
                l.nontrivial += 1;
            },
        );
        ctx.merge(sub, l);
        ctx.space_done(sub, hist.len() as u64);
        ctx.add(sub, "distinct_first_seen_orders", states.lock().unwrap().len() as u64);
        ctx.space_wall(sub, t0.elapsed().as_secs_f64());
        ctx.bound(sub, &format!("all pairs{} over the {}-program alphabet and all sequences of length {} over a 7-program core, one fresh forked process each, every position compared with the fresh-process baseline", if depth == 4 { " and triples" } else { "" }, np, depth), true);
        ctx.sample(sub, json!({"history": [ps[1].1, ps[0].1], "oracle": "second result == result of program alone in a fresh process"}));
    }

    // ---- history x corpus: [p, c] for every alphabet program p and corpus program c ------
    let sub = "history-corpus";
    if active(ctx, sub) {
        let t0 = std::time::Instant::now();
        // baseline corpus digests from a fresh process (fresh thread per compile)
        let corp = corpus::load();
        let n = corp.len();
        let mut z = Zygote::spawn(None, &ctx.root);
        let basec: Vec<String> = outputs_of(&z.request(&format!("C 0,{}", n))).into_iter().map(|o| o.0).collect();
        drop(z);
        if basec.len() != n {
            ctx.machinery(&format!("corpus baseline has {} results for {} programs", basec.len(), n));
        }
        // in-process: for each corpus case, a fresh thread that first compiles a prefix program
        // then the corpus case (thread-local state only; process-global counters are covered above)
        // (thorough: 8 prefixes; all 19 x 3.4k x 2 executions took over half an hour)
        let prefixes: Vec<usize> = if ctx.quick() { vec![0, 1, 5] } else { vec![0, 1, 4, 5, 6, 9, 11, 14] };
        let npre = prefixes.len() as u64;
        par(
            ctx,
            sub,
            n as u64 * npre,
            |i| json!({"prefix": ps[prefixes[(i % npre) as usize]].0, "corpus_case": corp[(i / npre) as usize].name}),
            |i, l| {
                let c = &corp[(i / npre) as usize];
                let p = prefixes[(i % npre) as usize];
                let cfg = Cfg { syntax: Some(c.syntax), compressed: c.compressed, ..Cfg::default() };
                let input = c.input.clone();
                l.evals += 2;
                let (o1, o2) = fresh_thread(move || {
                    let _ = run_prog(p);
                    let a = compile(&input, &cfg).bytes();
                    // and the same case once more (repetition)
                    let b = compile(&input, &cfg).bytes();
                    (a, b)
                });
                l.validated += 2;
                let d1 = format!("{:016x}", digest_str(&o1));
                let d2 = format!("{:016x}", digest_str(&o2));
                l.outcome(digest_str(&o1));
                let want = basec.get((i / npre) as usize).cloned().unwrap_or_default();
                if c.input.contains("unique-id") || c.input.contains("random(") {
                    l.count("excluded_random_or_unique_id", 1);
                    return;
                }
                l.nontrivial += 1;
                if d1 != want || d2 != want {
                    ctx.violation(
                        sub,
                        &format!("history-corpus:{}:{}:{:016x}", c.file, c.name, digest_str(&o1).wrapping_add(digest_str(&o2).rotate_left(7))),
                        &format!("corpus case {}::{} gives a different result after `{}` on the same thread (or when repeated)", c.file, c.name, ps[p].0),
                        json!({"input": c.input, "prefix_program": ps[p].1, "observed": o1, "repeated": o2}),
                    );
                }
            },
        );
        ctx.space_wall(sub, t0.elapsed().as_secs_f64());
        ctx.bound(sub, &format!("every corpus program after each of {} alphabet programs on the same fresh thread, and repeated, against its fresh-process result", npre), true);
        ctx.sample(sub, json!({"history": [ps[0].1, "<corpus case>", "<same corpus case>"]}));
    }

    // ---- schedule dimension ----------------------------------------------------------------
    let sub = "schedule";
    if active(ctx, sub) {
        let t0 = std::time::Instant::now();
        // 6-program alphabet of the design: identifier-heavy pair in opposite order, extend-heavy,
        // module load, erroring, function ids
        let alpha: Vec<usize> = vec![0, 1, 5, 4, 7, 6];
        let mut groups: Vec<(Vec<usize>, usize)> = Vec::new(); // (programs, preemption bound)
        for (ai, a) in alpha.iter().enumerate() {
            for b in &alpha[ai..] {
                groups.push((vec![*a, *b], 1));
            }
        }
        // deeper bound on the two most interesting pairs
        groups.push((vec![0, 1], ctx.pick(2, 3)));
        if ctx.thorough() {
            groups.push((vec![5, 5], 2));
            groups.push((vec![0, 1, 5], 1));
            groups.push((vec![5, 6, 0], 1));
        }
        let nsched = std::sync::atomic::AtomicU64::new(0);
        let interleavings: Mutex<std::collections::BTreeSet<u64>> = Mutex::new(Default::default());
        let counter_interleavings: Mutex<std::collections::BTreeSet<u64>> = Mutex::new(Default::default());
        let points_max = std::sync::atomic::AtomicU64::new(0);
        let mut total = Local::default();
        for (gi, (ids, bound)) in groups.iter().enumerate() {
            // stateless DFS: frontier of prefixes, processed in waves over the zygote pool
            let mut frontier: Vec<Vec<usize>> = vec![vec![]];
            let idstr = ids.iter().map(|x| x.to_string()).collect::<Vec<_>>().join(",");
            let gname = ids.iter().map(|i| ps[*i].0).collect::<Vec<_>>().join("||");
            let mut waves = 0;
            while !frontier.is_empty() {
                waves += 1;
                let next_frontier: Mutex<Vec<Vec<usize>>> = Mutex::new(Vec::new());
                let l = pool(
                    ctx,
                    None,
                    &frontier,
                    |p| format!("S {}|{}", idstr, p.iter().map(|x| x.to_string()).collect::<Vec<_>>().join(",")),
                    |prefix, r, l| {
                        l.evals += ids.len() as u64;
                        nsched.fetch_add(1, std::sync::atomic::Ordering::Relaxed);
                        let sched_s = prefix.iter().map(|x| x.to_string()).collect::<Vec<_>>().join(",");
                        if let Some(a) = abnormal(&r) {
                            ctx.violation(sub, &format!("schedule:{}:{}", gname, a.split(' ').next().unwrap_or("")), &format!("concurrent compilation ended abnormally under schedule [{}]: {}", sched_s, a), json!({"programs": ids.iter().map(|i| ps[*i].1).collect::<Vec<_>>(), "schedule": sched_s}));
                            return;
                        }
                        let tline = r.iter().find_map(|x| x.strip_prefix("T ")).unwrap_or("");
                        let trace: Vec<(bool, usize, usize)> = tline
                            .split(',')
                            .filter(|t| !t.is_empty())
                            .filter_map(|t| {
                                let mut p = t.split(':');
                                Some((p.next()? == "1", p.next()?.parse().ok()?, p.next()?.parse().ok()?))
                            })
                            .collect();
                        if r.iter().any(|x| x == "D 1") {
                            ctx.machinery(&format!("schedule replay diverged for {} prefix [{}]", gname, sched_s));
                            return;
                        }
                        if let Some(e) = r.iter().find_map(|x| x.strip_prefix("E ")) {
                            let mut it = e.split(' ');
                            if let (Some(a), Some(c), Some(n)) = (it.next(), it.next(), it.next()) {
                                interleavings.lock().unwrap().insert(u64::from_str_radix(a, 16).unwrap_or(0) ^ (gi as u64) << 56);
                                counter_interleavings.lock().unwrap().insert(u64::from_str_radix(c, 16).unwrap_or(0) ^ (gi as u64) << 56);
                                points_max.fetch_max(n.parse().unwrap_or(0), std::sync::atomic::Ordering::Relaxed);
                            }
                        }
                        let outs = outputs_of(&r);
                        for (k, i) in ids.iter().enumerate() {
                            l.validated += 1;
                            match outs.get(k) {
                                Some(o) if *o == base[*i] => l.outcome(digest_str(&o.0)),
                                other => {
                                    ctx.violation(
                                        sub,
                                        &format!("schedule:{}:{}", ps[*i].0, other.map(|o| o.0.clone()).unwrap_or_else(|| "missing".into())),
                                        &format!("thread {} compiling `{}` concurrently with {:?} gives a different result under schedule [{}]", k, ps[*i].0, ids.iter().map(|j| ps[*j].0).collect::<Vec<_>>(), sched_s),
                                        json!({"programs": ids.iter().map(|i| ps[*i].1).collect::<Vec<_>>(), "schedule_choices": sched_s, "thread": k, "fresh_process_result": base[*i].1, "observed": other.map(|o| o.1.clone())}),
                                    );
                                }
                            }
                        }
                        l.nontrivial += 1;
                        let succ = successors(prefix.len(), &trace, *bound);
                        next_frontier.lock().unwrap().extend(succ);
                    },
                );
                total.evals += l.evals;
                total.validated += l.validated;
                total.nontrivial += l.nontrivial;
                total.outcomes.extend(l.outcomes);
                frontier = next_frontier.into_inner().unwrap();
                if waves > 100000 {
                    break;
                }
            }
        }
        ctx.merge(sub, total);
        ctx.space_done(sub, nsched.load(std::sync::atomic::Ordering::Relaxed));
        ctx.add(sub, "schedules_executed", nsched.load(std::sync::atomic::Ordering::Relaxed));
        ctx.add(sub, "distinct_interleavings_of_hook_events", interleavings.lock().unwrap().len() as u64);
        ctx.add(sub, "distinct_interleavings_of_counter_events", counter_interleavings.lock().unwrap().len() as u64);
        ctx.add(sub, "max_scheduling_points_in_one_execution", points_max.load(std::sync::atomic::Ordering::Relaxed));
        ctx.add(sub, "thread_groups", groups.len() as u64);
        ctx.space_wall(sub, t0.elapsed().as_secs_f64());
        ctx.bound(sub, &format!("all schedules with <= 1 preemption of every unordered pair (incl. self-pairs) of a 6-program alphabet; <= {} preemptions for the identifier pair{}", ctx.pick(2, 3), if ctx.thorough() { "; <= 2 for the extend pair; 3 threads with <= 1 preemption for two triples" } else { "" }), true);
        ctx.sample(sub, json!({"threads": [ps[0].1, ps[1].1], "schedule_choices": "0,0,0,1", "meaning": "at the 4th scheduling point switch to the other thread"}));
        ctx.assume("scheduling points are the three hook sites (interner, complex-selector id, builtin id): the only accesses to process- or thread-global mutable state; between two points a thread runs alone (sequential consistency); once_cell's own initialisation race is trusted (the table is warmed up before the hook is installed)");
    }

    // ---- hash-seed dimension ----------------------------------------------------------------
    let sub = "hash-seed";
    if active(ctx, sub) {
        let t0 = std::time::Instant::now();
        let shim = ctx.root.join("target").join("seedshim.so");
        if !shim.exists() {
            ctx.machinery("target/seedshim.so missing (setup.sh / check builds it)");
        } else {
            let corp_n = corpus::load().len();
            let mut seeds: Vec<u64> = (0..ctx.pick(6, 16)).collect();
            if ctx.thorough() {
                for k in 0..8 {
                    seeds.push(1000 + ctx.seed.wrapping_mul(16) + k);
                }
            }
            // seed 0 reference
            let reference: Mutex<Option<(Vec<(String, String)>, Vec<String>)>> = Mutex::new(None);
            {
                let mut z = Zygote::spawn(Some(0), &ctx.root);
                let a: Vec<(String, String)> = (0..np).flat_map(|i| outputs_of(&z.request(&format!("H {}", i)))).collect();
                let c: Vec<String> = outputs_of(&z.request(&format!("C 0,{}", corp_n))).into_iter().map(|o| o.0).collect();
                *reference.lock().unwrap() = Some((a, c));
            }
            let refv = reference.lock().unwrap().clone().unwrap();
            // seed 0 under the shim must equal the un-shimmed baseline too
            for i in 0..np {
                if refv.0.get(i) != Some(&base[i]) {
                    ctx.violation(sub, &format!("hash-seed:{}:seed0-vs-os", ps[i].0), "result under hash seed 0 differs from the result under the OS-provided seed", json!({"program": ps[i].1, "seed0": refv.0.get(i).map(|x| x.1.clone()), "os_seed": base[i].1}));
                }
            }
            let orders: Mutex<std::collections::BTreeSet<String>> = Mutex::new(Default::default());
            let l = par_each(
                &seeds,
                |s, _r, l| {
                    // one zygote per seed (the seed is fixed at exec time)
                    let mut z = Zygote::spawn(Some(*s), &ctx.root);
                    let k = outputs_of(&z.request("K"));
                    if let Some(o) = k.first() {
                        orders.lock().unwrap().insert(o.1.clone());
                    }
                    for i in 0..np {
                        let o = outputs_of(&z.request(&format!("H {}", i)));
                        l.evals += 1;
                        l.validated += 1;
                        if o.first() != refv.0.get(i) {
                            ctx.violation(sub, &format!("hash-seed:{}:{}", ps[i].0, o.first().map(|x| x.0.clone()).unwrap_or_else(|| "missing".into())), &format!("result of `{}` under hash seed {} differs from seed 0", ps[i].0, s), json!({"program": ps[i].1, "files": ps[i].2, "seed": s, "seed0": refv.0.get(i).map(|x| x.1.clone()), "observed": o.first().map(|x| x.1.clone())}));
                        } else if let Some(o) = o.first() {
                            l.outcome(digest_str(&o.0));
                        }
                    }
                    let c: Vec<String> = outputs_of(&z.request(&format!("C 0,{}", corp_n))).into_iter().map(|o| o.0).collect();
                    l.evals += c.len() as u64;
                    l.validated += c.len() as u64;
                    if c.len() != refv.1.len() {
                        ctx.violation(sub, &format!("hash-seed:corpus-run:{}", s), "corpus run under this seed ended early (crash or hang)", json!({"seed": s, "results": c.len(), "expected": refv.1.len()}));
                    }
                    let corp = corpus::load();
                    for (k, (a, b)) in c.iter().zip(refv.1.iter()).enumerate() {
                        if a != b {
                            let cc = &corp[k];
                            if cc.input.contains("unique-id") || cc.input.contains("random(") {
                                continue;
                            }
                            ctx.violation(sub, &format!("hash-seed:corpus:{}:{}", cc.file, cc.name), &format!("corpus case {}::{} differs between hash seed {} and seed 0", cc.file, cc.name, s), json!({"input": cc.input, "seed": s}));
                        }
                    }
                    l.nontrivial += 1;
                },
            );
            ctx.merge(sub, l);
            ctx.space_done(sub, seeds.len() as u64);
            let ord = orders.lock().unwrap();
            let o3: std::collections::BTreeSet<&str> = ord.iter().filter_map(|o| o.split('|').next()).collect();
            let o5: std::collections::BTreeSet<&str> = ord.iter().filter_map(|o| o.split('|').nth(1)).collect();
            ctx.add(sub, "seeds", seeds.len() as u64);
            ctx.add(sub, "calibration_orders_of_a_3_element_HashSet_realised_of_6", o3.len() as u64);
            ctx.add(sub, "calibration_orders_of_a_5_element_HashSet_realised_of_120", o5.len() as u64);
            ctx.space_wall(sub, t0.elapsed().as_secs_f64());
            ctx.bound(sub, &format!("every alphabet program and every corpus program under {} hash seeds (getrandom interposed), compared with seed 0", seeds.len()), true);
            ctx.sample(sub, json!({"program": ps[4].1, "files": ps[4].2, "seeds": "0..7"}));
            ctx.assume("std's RandomState takes its keys from getrandom(), interposed by LD_PRELOAD (target/seedshim.so); the seed alphabet is finite, not the 2^128 key space");
        }
    }

    // ---- unique-id() ---------------------------------------------------------------------
    let sub = "unique-id";
    if active(ctx, sub) {
        let ks: Vec<usize> = (1..=64).collect();
        let l = pool(
            ctx,
            None,
            &ks,
            |k| format!("U {}", k),
            |k, r, l| {
                l.evals += 1;
                l.validated += 1;
                let o = outputs_of(&r);
                let Some(first) = o.first() else {
                    ctx.violation(sub, &format!("unique-id:k={}", k), "no result", json!({"k": k, "response": r}));
                    return;
                };
                let text = first.1.replace("\\n", "\n");
                let ids: Vec<&str> = text.lines().filter_map(|l| l.trim().split_once(": ")).map(|(_, v)| v.trim_end_matches(';')).collect();
                let distinct: std::collections::BTreeSet<&&str> = ids.iter().collect();
                let valid = ids.iter().all(|id| {
                    let mut ch = id.chars();
                    matches!(ch.next(), Some(c) if c.is_ascii_alphabetic() || c == '_') && ch.all(|c| c.is_ascii_alphanumeric() || c == '-' || c == '_')
                });
                l.outcome(ids.len() as u64);
                l.nontrivial += 1;
                if ids.len() != *k || distinct.len() != *k || !valid {
                    ctx.violation(sub, &format!("unique-id:k={}", k), &format!("{} unique-id() calls gave {} values, {} distinct, all valid identifiers: {}", k, ids.len(), distinct.len(), valid), json!({"k": k, "output": text}));
                }
            },
        );
        ctx.merge(sub, l);
        ctx.space_done(sub, ks.len() as u64);
        ctx.bound(sub, "k = 1..64 unique-id() calls in one compilation: all distinct, all CSS identifiers", true);
        ctx.sample(sub, json!({"input": "a { i0: unique-id(); i1: unique-id(); }"}));
        ctx.assume("unique-id() distinctness rests on the RNG; only the explored call counts are checked");
    }
}
