//! C16 — calc()/min()/max()/clamp() simplification preserves the computed value.
//! All expression trees up to a depth bound over + - * / and a leaf alphabet with absolute,
//! relative and opaque operands; the source expression and grass's output (a number or a calc
//! text, read by an independent calc reader with CSS precedence) are evaluated under three
//! unit environments and must agree in magnitude and dimension.

use crate::core::*;
use serde_json::json;

#[derive(Clone, Debug, PartialEq)]
enum T {
    Leaf(usize),
    Op(char, Box<T>, Box<T>),
    Fn(&'static str, Vec<T>),
}

/// (source text, unit) ; unit "" = unitless
const LEAVES: &[(&str, f64, &str)] = &[
    ("1px", 1.0, "px"),
    ("2em", 2.0, "em"),
    ("5%", 5.0, "%"),
    ("7", 7.0, ""),
    ("-2px", -2.0, "px"),
    ("0.5", 0.5, ""),
    ("4rem", 4.0, "rem"),
    ("6vw", 6.0, "vw"),
    ("8deg", 8.0, "deg"),
    ("9s", 9.0, "s"),
    ("3in", 3.0, "in"),
];

/// symbolic unit vector: exponent per unit class. Classes: 0 abs-length (px,in,cm), 1 em, 2 rem,
/// 3 %, 4 vw, 5 var(--x), 6 angle, 7 time, 8 mixed length sum (the result of adding different
/// length classes: only its CSS type is known)
type Dim = [i8; 9];
const ZERO: Dim = [0; 9];

const ENVS: &[[(&str, f64); 5]] = &[
    [("em", 13.7), ("rem", 17.3), ("%", 2.3), ("vw", 9.1), ("x", 5.5)],
    [("em", 7.1), ("rem", 3.9), ("%", 11.9), ("vw", 1.3), ("x", 0.7)],
    [("em", 21.0), ("rem", 16.0), ("%", 0.41), ("vw", 19.2), ("x", 101.0)],
];

fn unit_class(unit: &str) -> Option<usize> {
    Some(match unit {
        "px" | "in" | "cm" => 0,
        "em" => 1,
        "rem" => 2,
        "%" => 3,
        "vw" => 4,
        "x" => 5,
        "deg" => 6,
        "s" | "ms" => 7,
        _ => return None,
    })
}

fn unit_val(unit: &str, env: usize) -> Option<(f64, Dim)> {
    if unit.is_empty() {
        return Some((1.0, ZERO));
    }
    let f = match unit {
        "px" | "deg" | "s" => 1.0,
        "in" => 96.0,
        "cm" => 96.0 / 2.54,
        "ms" => 0.001,
        u => ENVS[env].iter().find(|e| e.0 == u)?.1,
    };
    let mut d = ZERO;
    d[unit_class(unit)?] = 1;
    Some((f, d))
}

#[derive(Debug)]
enum EvErr {
    Type,
    Unspecified,
    DivZero,
}

type Q = (f64, Dim, bool); // (magnitude under the environment, unit vector, involves percent)

/// CSS type of an emit-able vector: 'n' number, 'l' length, 'p' percentage, 'a' angle, 't' time
fn css_type(d: &Dim) -> Option<char> {
    let total: i32 = d.iter().map(|x| (*x as i32).abs()).sum();
    if total == 0 {
        return Some('n');
    }
    if total != 1 {
        return None;
    }
    let k = d.iter().position(|x| *x == 1)?;
    Some(match k {
        0 | 1 | 2 | 4 | 5 | 8 => 'l',
        3 => 'p',
        6 => 'a',
        _ => 't',
    })
}

fn apply(op: char, a: Q, b: Q) -> Result<Q, EvErr> {
    let pct = a.2 || b.2;
    match op {
        '+' | '-' => {
            let (ta, tb) = match (css_type(&a.1), css_type(&b.1)) {
                (Some(x), Some(y)) => (x, y),
                // a product/quotient with compound units used as a term: what Sass does is not specified here
                _ => return Err(EvErr::Unspecified),
            };
            let v = if op == '+' { a.0 + b.0 } else { a.0 - b.0 };
            if a.1 == b.1 {
                return Ok((v, a.1, pct));
            }
            match (ta, tb) {
                ('l', 'l') => {
                    let mut d = ZERO;
                    d[8] = 1;
                    Ok((v, d, pct))
                }
                // a percentage may stand for a length: keep as a length sum; for any other partner undecidable
                ('p', 'l') | ('l', 'p') => {
                    let mut d = ZERO;
                    d[8] = 1;
                    Ok((v, d, true))
                }
                ('p', _) | (_, 'p') => Err(EvErr::Unspecified),
                // Sass only verifies operands that are plain numbers; an unsimplified sum on one side
                // (`(2em + 1px) - 0.5`) is not examined by the reference implementation either
                _ if a.1[8] != 0 || b.1[8] != 0 => Err(EvErr::Unspecified),
                _ => Err(EvErr::Type),
            }
        }
        _ => {
            // a mixed sum multiplied / divided by something with units: outside the oracle
            let has_units = |d: &Dim| d.iter().any(|x| *x != 0);
            if (a.1[8] != 0 && has_units(&b.1)) || (b.1[8] != 0 && has_units(&a.1)) || (b.1[8] != 0 && op == '/') {
                return Err(EvErr::Unspecified);
            }
            if op == '/' && b.0 == 0.0 {
                return Err(EvErr::DivZero);
            }
            let mut d = ZERO;
            for k in 0..9 {
                d[k] = if op == '*' { a.1[k] + b.1[k] } else { a.1[k] - b.1[k] };
            }
            Ok((if op == '*' { a.0 * b.0 } else { a.0 / b.0 }, d, pct))
        }
    }
}

fn eval(t: &T, env: usize) -> Result<Q, EvErr> {
    match t {
        T::Leaf(i) => {
            let (_, n, u) = LEAVES[*i];
            let (f, d) = unit_val(u, env).unwrap();
            Ok((n * f, d, u == "%"))
        }
        T::Op(op, a, b) => apply(*op, eval(a, env)?, eval(b, env)?),
        T::Fn(name, args) => {
            // inside min()/max()/clamp() the legacy Sass semantics add a unitless number to any unit:
            // typing errors inside the arguments are outside the oracle
            let vs: Result<Vec<Q>, EvErr> = args.iter().map(|a| eval(a, env).map_err(|e| if matches!(e, EvErr::Type) { EvErr::Unspecified } else { e })).collect();
            let vs = vs?;
            let types: Vec<Option<char>> = vs.iter().map(|v| css_type(&v.1)).collect();
            if types.iter().any(|t| t.is_none()) {
                return Err(EvErr::Unspecified);
            }
            let mut d = vs[0].1;
            for (v, t) in vs.iter().zip(&types).skip(1) {
                if v.1 != vs[0].1 {
                    match (types[0].unwrap(), t.unwrap()) {
                        ('l', 'l') | ('l', 'p') | ('p', 'l') => {
                            d = ZERO;
                            d[8] = 1;
                        }
                        ('p', _) | (_, 'p') => return Err(EvErr::Unspecified),
                        // the legacy Sass min()/max() compare a unitless number with any unit
                        ('n', _) | (_, 'n') => return Err(EvErr::Unspecified),
                        _ if v.1[8] != 0 || vs[0].1[8] != 0 => return Err(EvErr::Unspecified),
                        _ => return Err(EvErr::Type),
                    }
                }
            }
            let pct = vs.iter().any(|x| x.2);
            let m = match *name {
                "min" => vs.iter().map(|x| x.0).fold(f64::INFINITY, f64::min),
                "max" => vs.iter().map(|x| x.0).fold(f64::NEG_INFINITY, f64::max),
                _ => vs[0].0.max(vs[1].0.min(vs[2].0)),
            };
            Ok((m, d, pct))
        }
    }
}

fn prec(op: char) -> u8 {
    if op == '+' || op == '-' {
        1
    } else {
        2
    }
}

/// minimal parentheses (style 0), full parentheses (1), variables (2), interpolated leaves (3)
fn show(t: &T, style: u8, parent: Option<(char, bool)>) -> String {
    match t {
        T::Leaf(i) => match style {
            2 => format!("$v{}", i),
            3 if LEAVES[*i].2 == "em" || LEAVES[*i].2 == "%" => format!("#{{{}}}", LEAVES[*i].0),
            _ => LEAVES[*i].0.to_string(),
        },
        T::Op(op, a, b) => {
            let s = format!("{} {} {}", show(a, style, Some((*op, false))), op, show(b, style, Some((*op, true))));
            let need = match (style, parent) {
                (1, Some(_)) => true,
                // a right operand of equal precedence keeps its parentheses: dropping them would change
                // the tree Sass sees (typing is decided per operation), even where the value is the same
                (_, Some((p, right))) => prec(*op) < prec(p) || (right && prec(*op) == prec(p)),
                _ => false,
            };
            if need {
                format!("({})", s)
            } else {
                s
            }
        }
        T::Fn(n, args) => format!("{}({})", n, args.iter().map(|a| show(a, style, None)).collect::<Vec<_>>().join(", ")),
    }
}

fn all_absolute(t: &T) -> bool {
    match t {
        T::Leaf(i) => matches!(LEAVES[*i].2, "" | "px" | "in" | "deg" | "s"),
        T::Op(_, a, b) => all_absolute(a) && all_absolute(b),
        T::Fn(_, args) => args.iter().all(all_absolute),
    }
}

fn trees(depth: usize, nleaves: usize) -> Vec<T> {
    let mut out: Vec<T> = (0..nleaves).map(T::Leaf).collect();
    if depth == 0 {
        return out;
    }
    let sub = trees(depth - 1, nleaves);
    for op in ['+', '-', '*', '/'] {
        for a in &sub {
            for b in &sub {
                out.push(T::Op(op, Box::new(a.clone()), Box::new(b.clone())));
            }
        }
    }
    out
}

// ---- independent reader of the emitted text --------------------------------------------------

#[derive(Debug)]
struct ReadErr(String);

struct Rd<'a> {
    toks: Vec<&'a str>,
    i: usize,
    env: usize,
}

fn tokenize(s: &str) -> Result<Vec<&str>, ReadErr> {
    let b = s.as_bytes();
    let mut out = Vec::new();
    let mut i = 0;
    while i < b.len() {
        let c = b[i] as char;
        if c.is_whitespace() {
            i += 1;
            continue;
        }
        if "()+*/,".contains(c) {
            out.push(&s[i..i + 1]);
            i += 1;
            continue;
        }
        // number (with sign) or identifier
        let start = i;
        if c == '-' && (i + 1 >= b.len() || !((b[i + 1] as char).is_ascii_digit() || b[i + 1] == b'.')) {
            // operator minus, or an identifier starting with '-' (e.g. --x)
            if i + 1 < b.len() && b[i + 1] == b'-' {
                while i < b.len() && !(b[i] as char).is_whitespace() && !"()+*/,".contains(b[i] as char) {
                    i += 1;
                }
                out.push(&s[start..i]);
                continue;
            }
            out.push(&s[i..i + 1]);
            i += 1;
            continue;
        }
        i += 1;
        while i < b.len() && !(b[i] as char).is_whitespace() && !"()+*/,".contains(b[i] as char) {
            // a '-' inside a token only continues it after 'e' (exponent) or in identifiers
            if b[i] == b'-' && (b[i - 1] as char).is_ascii_digit() {
                break;
            }
            i += 1;
        }
        out.push(&s[start..i]);
    }
    Ok(out)
}

impl<'a> Rd<'a> {
    fn peek(&self) -> Option<&'a str> {
        self.toks.get(self.i).copied()
    }
    fn next(&mut self) -> Option<&'a str> {
        let t = self.peek();
        self.i += 1;
        t
    }
    fn atom(&mut self) -> Result<Q, ReadErr> {
        let t = self.next().ok_or_else(|| ReadErr("unexpected end".into()))?;
        match t {
            "(" => {
                let v = self.expr()?;
                if self.next() != Some(")") {
                    return Err(ReadErr("expected )".into()));
                }
                Ok(v)
            }
            "calc" | "-webkit-calc" => {
                if self.next() != Some("(") {
                    return Err(ReadErr("expected ( after calc".into()));
                }
                let v = self.expr()?;
                if self.next() != Some(")") {
                    return Err(ReadErr("expected ) after calc".into()));
                }
                Ok(v)
            }
            "min" | "max" | "clamp" => {
                if self.next() != Some("(") {
                    return Err(ReadErr("expected (".into()));
                }
                let mut args = vec![self.expr()?];
                while self.peek() == Some(",") {
                    self.next();
                    args.push(self.expr()?);
                }
                if self.next() != Some(")") {
                    return Err(ReadErr("expected )".into()));
                }
                for a in &args[1..] {
                    if css_type(&a.1).is_none() || css_type(&args[0].1).is_none() {
                        return Err(ReadErr("min/max/clamp over compound units".into()));
                    }
                }
                let m = match t {
                    "min" => args.iter().map(|x| x.0).fold(f64::INFINITY, f64::min),
                    "max" => args.iter().map(|x| x.0).fold(f64::NEG_INFINITY, f64::max),
                    _ => {
                        if args.len() != 3 {
                            return Err(ReadErr("clamp needs 3 arguments".into()));
                        }
                        args[0].0.max(args[1].0.min(args[2].0))
                    }
                };
                let mut d = args[0].1;
                if args.iter().any(|a| a.1 != d) {
                    d = ZERO;
                    d[8] = 1;
                }
                Ok((m, d, false))
            }
            "var" => {
                // var(--x)
                if self.next() != Some("(") {
                    return Err(ReadErr("expected (".into()));
                }
                self.next();
                if self.next() != Some(")") {
                    return Err(ReadErr("expected )".into()));
                }
                let (f, d) = unit_val("x", self.env).unwrap();
                Ok((f, d, false))
            }
            t => {
                let end = t.find(|c: char| !(c.is_ascii_digit() || c == '.' || c == '-' || c == '+' || c == 'e')).unwrap_or(t.len());
                let (num, unit) = if t[..end].ends_with('e') { t.split_at(end - 1) } else { t.split_at(end) };
                let n: f64 = num.parse().map_err(|_| ReadErr(format!("not a number: {:?}", t)))?;
                let (f, d) = unit_val(unit, self.env).ok_or_else(|| ReadErr(format!("unknown unit in {:?}", t)))?;
                Ok((n * f, d, unit == "%"))
            }
        }
    }
    fn term(&mut self) -> Result<Q, ReadErr> {
        let mut v = self.atom()?;
        while let Some(op) = self.peek() {
            if op == "*" || op == "/" {
                self.next();
                let r = self.atom()?;
                v = apply(op.chars().next().unwrap(), v, r).map_err(|e| ReadErr(format!("{:?}", e)))?;
            } else {
                break;
            }
        }
        Ok(v)
    }
    fn expr(&mut self) -> Result<Q, ReadErr> {
        let mut v = self.term()?;
        while let Some(op) = self.peek() {
            if op == "+" || op == "-" {
                self.next();
                let r = self.term()?;
                v = apply(op.chars().next().unwrap(), v, r).map_err(|e| ReadErr(format!("{:?}", e)))?;
            } else {
                break;
            }
        }
        Ok(v)
    }
}

fn read_output(text: &str, env: usize) -> Result<Q, ReadErr> {
    let toks = tokenize(text)?;
    let mut r = Rd { toks, i: 0, env };
    let v = r.expr()?;
    if r.i != r.toks.len() {
        return Err(ReadErr(format!("trailing tokens after position {}", r.i)));
    }
    Ok(v)
}

fn close(a: f64, b: f64) -> bool {
    (a - b).abs() <= 1e-7 * a.abs().max(b.abs()).max(1.0)
}

fn emit_ok(d: Dim) -> bool {
    css_type(&d).is_some()
}

fn judge(ctx: &Ctx, sub: &str, t: &T, style: u8, wrap: &str, l: &mut Local) {
    let body = show(t, style, None);
    let expr = if wrap.is_empty() || matches!(t, T::Fn(..)) { body.clone() } else { format!("{}({})", wrap, body) };
    let mut src = String::new();
    if style == 2 {
        for (i, lf) in LEAVES.iter().enumerate() {
            src.push_str(&format!("$v{}: {};\n", i, lf.0));
        }
    }
    src.push_str(&format!("a{{b:{}}}", expr));
    let key = format!("calc:{}", expr);
    let want: Vec<Result<Q, EvErr>> = (0..ENVS.len()).map(|e| eval(t, e)).collect();
    if want.iter().any(|w| matches!(w, Err(EvErr::Unspecified) | Err(EvErr::DivZero))) {
        l.count("skipped_unspecified_or_division_by_zero", 1);
        // still must not crash
        l.evals += 1;
        if let Outcome::Panic(p) = compile(&src, &Cfg::scss()) {
            ctx.violation(sub, &key, &format!("panic: {}", p), json!({"input": src}));
        }
        return;
    }
    l.evals += 1;
    let o = compile(&src, &Cfg::scss());
    l.outcome(o.digest());
    l.validated += 1;
    let ill_typed = want.iter().any(|w| matches!(w, Err(EvErr::Type)));
    let not_emittable = !ill_typed && !emit_ok(want[0].as_ref().unwrap().1);
    match &o {
        Outcome::Panic(p) => ctx.violation(sub, &key, &format!("panic: {}", p), json!({"input": src})),
        Outcome::Err(e) => {
            if ill_typed || not_emittable {
                l.count("rejected_as_expected", 1);
            } else if style == 3 {
                // interpolated operands are opaque text: Sass may legitimately refuse to type them
                l.count("interpolated_rejected", 1);
            } else {
                ctx.violation(sub, &key, &format!("well-typed calculation rejected: {}", e.message), json!({"input": src, "reference": format!("{:?}", want[0])}));
            }
        }
        Outcome::Ok(c) => {
            let text = crate::checks::c08::first_decl_value(c).unwrap_or_default();
            if ill_typed {
                if style == 3 {
                    l.count("interpolated_ill_typed_kept_as_text", 1);
                    return;
                }
                ctx.violation(sub, &format!("calc-accepts-incompatible:{}", expr), &format!("calculation over incompatible units is accepted: `{}` => `{}`", expr, text), json!({"input": src, "output": text}));
                return;
            }
            if not_emittable && style == 3 {
                l.count("interpolated_compound_kept_as_text", 1);
                return;
            }
            if not_emittable {
                ctx.violation(sub, &key, &format!("calculation whose result has compound units was emitted: `{}`", text), json!({"input": src, "output": text}));
                return;
            }
            l.nontrivial += 1;
            for env in 0..ENVS.len() {
                let w = want[env].as_ref().unwrap();
                match read_output(&text, env) {
                    Ok(g) => {
                        let same_type = css_type(&g.1).is_some() && (css_type(&g.1) == css_type(&w.1) || (matches!(css_type(&g.1), Some('l') | Some('p')) && matches!(css_type(&w.1), Some('l') | Some('p'))));
                        if !same_type || !close(g.0, w.0) {
                            ctx.violation(
                                sub,
                                &key,
                                &format!("`{}` is emitted as `{}`: under 1em={}px 1rem={}px 1%={}px 1vw={}px the source is {} and the output is {}", expr, text, ENVS[env][0].1, ENVS[env][1].1, ENVS[env][2].1, ENVS[env][3].1, w.0, g.0),
                                json!({"input": src, "output": text, "environment": env, "source_value": w.0, "output_value": g.0}),
                            );
                            return;
                        }
                    }
                    Err(e) => {
                        ctx.violation(sub, &key, &format!("output `{}` is not a readable calculation: {}", text, e.0), json!({"input": src, "output": text}));
                        return;
                    }
                }
            }
            if all_absolute(t) && style != 3 && (text.contains("calc(") || text.contains("min(") || text.contains("max(") || text.contains("clamp(")) {
                ctx.violation(sub, &format!("calc-not-simplified:{}", expr), &format!("all operands have known convertible units but the result is not a plain number: `{}`", text), json!({"input": src, "output": text}));
            }
        }
    }
}

pub fn run(ctx: &Ctx) {
    // the watchdog's clock also covers the harness's own oracle work (reference models, DOM enumeration);
    // the limit is generous so that machine load cannot turn a slow case into a verdict
    ctx.hang_limit_s.store(300, std::sync::atomic::Ordering::Relaxed);
    // depth 1 over all leaves, depth 2 over the first 6 (quick) / 9 (thorough) leaves
    let d1 = trees(1, LEAVES.len());
    let d2 = trees(2, ctx.pick(6, 11));
    let styles_wrap: Vec<(u8, &str)> = vec![(0, "calc"), (1, "calc"), (2, "calc"), (3, "calc")];
    let nsw = styles_wrap.len() as u64;
    for (sub, ts, bound) in [("depth1-all-leaves", &d1, "all trees of depth <= 1 over 11 leaves"), ("depth2", &d2, "all trees of depth <= 2 over the first 6 (thorough all 11) leaves")] {
        par(
            ctx,
            sub,
            ts.len() as u64 * nsw,
            |i| json!({"expr": show(&ts[(i / nsw) as usize], styles_wrap[(i % nsw) as usize].0, None)}),
            |i, l| {
                let t = &ts[(i / nsw) as usize];
                if matches!(t, T::Leaf(_)) {
                    return;
                }
                let (style, wrap) = styles_wrap[(i % nsw) as usize];
                // full-parenthesis printing of a depth-2 tree equals the minimal one when nothing nests
                judge(ctx, sub, t, style, wrap, l);
            },
        );
        ctx.bound(sub, &format!("{} x 4 spellings (minimal parentheses, full parentheses, operands through variables, relative operands interpolated)", bound), true);
    }
    ctx.sample("depth2", json!({"input": "a{b:calc(5% - (1px + 2em))}", "oracle": "value of output == value of source under 3 unit environments"}));

    // min / max / clamp over depth<=1 arguments, and nested inside an operation
    let sub = "min-max-clamp";
    let args = trees(1, 6);
    let simple: Vec<T> = (0..LEAVES.len()).map(T::Leaf).collect();
    let mut fns: Vec<T> = Vec::new();
    for f in ["min", "max"] {
        for a in &args {
            for b in &simple {
                fns.push(T::Fn(f, vec![a.clone(), b.clone()]));
            }
        }
    }
    for a in &simple {
        for b in &simple {
            for c in &simple {
                fns.push(T::Fn("clamp", vec![a.clone(), b.clone(), c.clone()]));
            }
        }
    }
    // three arguments with a compound one in the middle: every pair of the outer arguments is still checked
    for f in ["min", "max", "clamp"] {
        for a in &simple {
            for m in &args {
                if matches!(m, T::Leaf(_)) {
                    continue;
                }
                for c in &simple {
                    fns.push(T::Fn(f, vec![a.clone(), m.clone(), c.clone()]));
                }
            }
        }
    }
    let base = fns.len();
    // nested: fn op leaf, leaf op fn
    for k in 0..base.min(ctx.pick(600, 4000)) {
        let f = fns[(k * 7919) % base].clone();
        for op in ['+', '-', '*', '/'] {
            fns.push(T::Op(op, Box::new(f.clone()), Box::new(T::Leaf(k % 4))));
            fns.push(T::Op(op, Box::new(T::Leaf((k + 1) % 4)), Box::new(f.clone())));
        }
    }
    par(
        ctx,
        sub,
        fns.len() as u64 * 2,
        |i| json!({"expr": show(&fns[(i / 2) as usize], 0, None)}),
        |i, l| {
            let t = &fns[(i / 2) as usize];
            let style = if i % 2 == 0 { 0 } else { 2 };
            judge(ctx, sub, t, style, if matches!(t, T::Fn(..)) { "" } else { "calc" }, l);
        },
    );
    ctx.bound(sub, "min/max over (depth<=1 tree, leaf), clamp over all leaf triples, min/max/clamp over (leaf, depth-1 tree, leaf), and a sample of those nested as an operand of + - * /; literal and variable spellings", true);
    ctx.sample(sub, json!({"input": "a{b:clamp(7, 1px, 2em)}"}));
    ctx.assume("relative units are assigned concrete lengths in three environments; a percentage is treated as a length in the environments and cases whose typing depends on what a percentage stands for are skipped; division by zero is skipped");
}
