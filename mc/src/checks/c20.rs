//! C20 — the CLI mirrors the library and signals failure correctly.
//! Complete product of the supported flags x input kinds x {file, --stdin} x {stdout, output
//! file}; every run of the real binary is compared with the library called in-process with
//! the same options.

use crate::core::*;
use crate::gen::corpus;
use serde_json::json;
use std::io::Write;
use std::process::{Command, Stdio};

struct Input {
    name: &'static str,
    file: &'static str,
    content: Vec<u8>,
    exists: bool,
}

fn inputs() -> Vec<Input> {
    let mut large = String::new();
    for i in 0..300 {
        large.push_str(&format!(".c{} {{ w: {}px; &:hover {{ c: red; }} }}\n", i, i));
    }
    // a multi-line banner comment followed by output that is one long line in compressed style
    let mut banner = String::from("/*! banner\n * second line\n */\n");
    for i in 0..120 {
        banner.push_str(&format!(".b{} {{ w: {}px; }}\n", i, i));
    }
    vec![
        Input { name: "banner-long-line", file: "banner.scss", content: banner.into_bytes(), exists: true },
        Input { name: "ascii", file: "ascii.scss", content: b"$a: 1px; a { b: $a * 2; c { d: e; } }".to_vec(), exists: true },
        Input { name: "non-ascii", file: "nonascii.scss", content: "a { content: \"\u{e9}\u{1F600}\"; }".as_bytes().to_vec(), exists: true },
        Input { name: "empty", file: "empty.scss", content: vec![], exists: true },
        Input { name: "load-path-import", file: "usesimport.scss", content: b"@import \"dep\"; a { b: $dep; }".to_vec(), exists: true },
        Input { name: "warn", file: "warn.scss", content: b"@warn \"careful\"; a { b: c; }".to_vec(), exists: true },
        Input { name: "debug", file: "debug.scss", content: b"@debug 1 + 1; a { b: c; }".to_vec(), exists: true },
        Input { name: "syntax-error", file: "syntaxerr.scss", content: b"a { b: ; }".to_vec(), exists: true },
        Input { name: "runtime-error", file: "runtimeerr.scss", content: "a { b: c; }\n@error \"bo\u{f6}m\";".as_bytes().to_vec(), exists: true },
        Input { name: "invalid-utf8", file: "badutf8.scss", content: vec![b'a', b'{', b'b', b':', 0xff, 0xfe, b'}'], exists: true },
        Input { name: "missing-file", file: "missing.scss", content: b"a { b: c; }".to_vec(), exists: false },
        Input { name: "indented", file: "indented.sass", content: b"a\n  b: c\n  d\n    e: f\n".to_vec(), exists: true },
        Input { name: "plain-css", file: "plain.css", content: b"a { b: c; } @media screen { d { e: f } }".to_vec(), exists: true },
        Input { name: "large", file: "large.scss", content: large.into_bytes(), exists: true },
        Input { name: "warn-in-loop", file: "warnloop.scss", content: b"@for $i from 1 through 3 { @warn \"w#{$i}\"; @debug $i; } a { b: c; }".to_vec(), exists: true },
    ]
}

struct Run {
    status: Option<i32>,
    stdout: Vec<u8>,
    stderr: Vec<u8>,
}

fn run_cli(bin: &std::path::Path, cwd: &std::path::Path, args: &[String], stdin: Option<&[u8]>) -> Run {
    let mut cmd = Command::new(bin);
    cmd.args(args).current_dir(cwd).stdout(Stdio::piped()).stderr(Stdio::piped());
    cmd.stdin(if stdin.is_some() { Stdio::piped() } else { Stdio::null() });
    let mut child = match cmd.spawn() {
        Ok(c) => c,
        Err(e) => return Run { status: None, stdout: vec![], stderr: format!("spawn failed: {}", e).into_bytes() },
    };
    if let Some(data) = stdin {
        if let Some(mut si) = child.stdin.take() {
            let _ = si.write_all(data);
        }
    }
    match child.wait_with_output() {
        Ok(o) => Run { status: o.status.code(), stdout: o.stdout, stderr: o.stderr },
        Err(e) => Run { status: None, stdout: vec![], stderr: format!("wait failed: {}", e).into_bytes() },
    }
}

fn std_logger_text(events: &[LogEvent]) -> String {
    let mut s = String::new();
    for e in events {
        if e.kind == "debug" {
            s.push_str(&format!("{}:{} DEBUG: {}\n", e.file, e.line + 1, e.message));
        } else {
            s.push_str(&format!("Warning: {}\n    ./{}:{}:{}\n", e.message, e.file, e.line + 1, e.col + 1));
        }
    }
    s
}

pub fn run(ctx: &Ctx) {
    let bin = ctx.root.join("target").join("cli").join("debug").join("grass");
    if !bin.exists() {
        ctx.machinery(&format!("CLI binary {} missing (./check builds it for C20)", bin.display()));
        return;
    }
    // process start-up under machine load can be slow; this check's cases are process runs
    ctx.hang_limit_s.store(180, std::sync::atomic::Ordering::Relaxed);
    let cwd = ctx.root.join("target").join("c20-cwd");
    let _ = std::fs::remove_dir_all(&cwd);
    let _ = std::fs::create_dir_all(cwd.join("lp"));
    let _ = std::fs::create_dir_all(cwd.join("out"));
    let ins = inputs();
    for i in &ins {
        if i.exists {
            let _ = std::fs::write(cwd.join(i.file), &i.content);
        }
    }
    let _ = std::fs::write(cwd.join("lp").join("_dep.scss"), "$dep: 42; .dep { x: y; }");
    if std::env::set_current_dir(&cwd).is_err() {
        ctx.machinery("cannot enter scratch directory");
        return;
    }

    // flags: style(2) x load-path(2) x no-charset(2) x quiet(2) x no-unicode(2) x source(2) x sink(3)
    let nconf = 2 * 2 * 2 * 2 * 2 * 2 * 3u64;
    let nin = ins.len() as u64;
    let sub = "flags-x-inputs";
    par(
        ctx,
        sub,
        nconf * nin,
        |i| json!({"input": ins[(i % nin) as usize].name, "config_index": i / nin}),
        |i, l| {
            let inp = &ins[(i % nin) as usize];
            let mut k = i / nin;
            let mut bit = |n: u64| {
                let v = k % n;
                k /= n;
                v
            };
            let compressed = bit(2) == 1;
            let with_lp = bit(2) == 1;
            let no_charset = bit(2) == 1;
            let quiet = bit(2) == 1;
            let no_unicode = bit(2) == 1;
            let via_stdin = bit(2) == 1;
            let sink = bit(3); // 0 stdout, 1 output file, 2 unwritable output file
            if via_stdin && !inp.exists {
                return; // "missing file" has no stdin form
            }
            let mut args: Vec<String> = Vec::new();
            args.push("--style".into());
            args.push(if compressed { "compressed" } else { "expanded" }.into());
            if with_lp {
                args.push("--load-path".into());
                args.push("lp".into());
            }
            if no_charset {
                args.push("--no-charset".into());
            }
            if quiet {
                args.push("--quiet".into());
            }
            if no_unicode {
                args.push("--no-unicode".into());
            }
            if via_stdin {
                args.push("--stdin".into());
            } else {
                args.push(inp.file.into());
            }
            let outfile = format!("out/o{}.css", i);
            if sink == 1 {
                if via_stdin {
                    // OUTPUT is the second positional; with --stdin the first positional is INPUT, so an
                    // output file cannot be named: skip this combination
                    return;
                }
                args.push(outfile.clone());
            } else if sink == 2 {
                if via_stdin {
                    return;
                }
                args.push("nodir/out.css".into());
            }
            // library reference
            let logger = CollectLogger::new();
            let cfg = Cfg { syntax: None, compressed, charset: !no_charset, unicode: !no_unicode, quiet, load_paths: if with_lp { vec!["lp".into()] } else { vec![] } };
            let env = Env { fs: &grass_compiler::StdFs, logger: &logger };
            let text = String::from_utf8(inp.content.clone());
            let lib: Result<Outcome, &'static str> = if via_stdin {
                match &text {
                    Ok(t) => Ok(compile_env(t, &cfg, &env)),
                    Err(_) => Err("stdin is not UTF-8"),
                }
            } else {
                Ok(compile_path(inp.file, &cfg, &env))
            };
            let logs = logger.take();
            l.evals += 2;
            let r = run_cli(&bin, &cwd, &args, if via_stdin { Some(&inp.content) } else { None });
            l.outcome(digest(&r.stdout) ^ digest(&r.stderr) ^ r.status.unwrap_or(-1) as u64);
            l.validated += 1;
            let key = format!("cli:{}:{}", inp.name, args.iter().filter(|a| !a.starts_with("out/o")).cloned().collect::<Vec<_>>().join(" "));
            let detail = || {
                json!({"args": args, "input": String::from_utf8_lossy(&inp.content).chars().take(300).collect::<String>(), "exit": r.status,
                "stdout": String::from_utf8_lossy(&r.stdout).chars().take(400).collect::<String>(), "stderr": String::from_utf8_lossy(&r.stderr).chars().take(600).collect::<String>(),
                "library": match &lib { Ok(o) => o.brief().chars().take(400).collect::<String>(), Err(e) => e.to_string() }})
            };
            let mut bad: Vec<String> = Vec::new();
            if sink == 2 {
                // unwritable output: I/O error
                if r.status == Some(0) {
                    bad.push("exit status 0 although the output file cannot be written".into());
                }
                if !r.stdout.is_empty() {
                    bad.push("CSS on stdout although an output file was requested".into());
                }
                if r.stderr.is_empty() {
                    bad.push("nothing on stderr for an I/O error".into());
                }
            } else {
                match &lib {
                    Ok(Outcome::Ok(css)) => {
                        l.nontrivial += 1;
                        if r.status != Some(0) {
                            bad.push(format!("exit status {:?} for a successful compilation", r.status));
                        }
                        if sink == 0 {
                            if r.stdout != css.as_bytes() {
                                bad.push("stdout differs from the library's CSS".into());
                            }
                        } else {
                            let f = std::fs::read(cwd.join(&outfile)).unwrap_or_default();
                            if f != css.as_bytes() {
                                bad.push("output file differs from the library's CSS".into());
                            }
                            if !r.stdout.is_empty() {
                                bad.push("stdout not empty although an output file was given".into());
                            }
                        }
                        let want_err = std_logger_text(&logs);
                        let got_err = String::from_utf8_lossy(&r.stderr).to_string();
                        if quiet && !got_err.is_empty() {
                            bad.push("--quiet but stderr is not empty".into());
                        }
                        if !quiet && got_err != want_err {
                            bad.push(format!("stderr {:?} differs from the warnings/debug messages the library logged {:?}", got_err, want_err));
                        }
                        if String::from_utf8_lossy(&r.stdout).contains("Warning:") || String::from_utf8_lossy(&r.stdout).contains("DEBUG:") {
                            bad.push("warning text inside the CSS output".into());
                        }
                    }
                    Ok(Outcome::Err(e)) => {
                        if r.status == Some(0) || r.status.is_none() {
                            bad.push(format!("exit status {:?} for a failing compilation", r.status));
                        }
                        if !r.stdout.is_empty() {
                            bad.push("CSS on stdout although compilation failed".into());
                        }
                        let got_err = String::from_utf8_lossy(&r.stderr).to_string();
                        // warnings logged before the error, then the rendered error (eprintln adds a newline)
                        let want = format!("{}{}\n", if quiet { String::new() } else { std_logger_text(&logs) }, e.rendered);
                        if got_err != want {
                            bad.push(format!("stderr {:?} is not the library's rendered error {:?}", got_err, want));
                        }
                        if sink == 1 {
                            let f = std::fs::read(cwd.join(&outfile)).unwrap_or_default();
                            if !f.is_empty() {
                                bad.push("output file contains data although compilation failed".into());
                            }
                        }
                    }
                    Ok(Outcome::Panic(p)) => bad.push(format!("library panicked: {}", p)),
                    Err(_) => {
                        if r.status == Some(0) {
                            bad.push("exit status 0 for unreadable stdin".into());
                        }
                        if !r.stdout.is_empty() {
                            bad.push("stdout not empty for unreadable stdin".into());
                        }
                        if r.stderr.is_empty() {
                            bad.push("nothing on stderr for unreadable stdin".into());
                        }
                    }
                }
            }
            if sink == 1 {
                let _ = std::fs::remove_file(cwd.join(&outfile));
            }
            if !bad.is_empty() {
                ctx.violation(sub, &key, &bad.join("; "), detail());
            }
        },
    );
    ctx.bound(sub, "2^5 flag combinations x {file argument, --stdin} x {stdout, output file, unwritable output file} x 15 input kinds (combinations the CLI cannot express are skipped)", true);
    ctx.sample(sub, json!({"args": ["--style", "compressed", "--no-unicode", "runtimeerr.scss"], "oracle": "exit != 0, stderr = library's rendered error, stdout empty"}));

    // ---- load paths keep the order of the command line ----------------------------------------
    {
        let sub = "load-path-order";
        for (d, w) in [("za", "za"), ("ab", "ab"), ("mm", "mm")] {
            let _ = std::fs::create_dir_all(cwd.join(d));
            if d != "mm" {
                let _ = std::fs::write(cwd.join(d).join("_shadow.scss"), format!("$w: {};", w));
            }
            let _ = std::fs::write(cwd.join(d).join(format!("_only-{}.scss", d)), format!("$o-{}: {};", d, w));
        }
        let _ = std::fs::write(cwd.join("lporder.scss"), "@import \"shadow\";\na { w: $w; }\n");
        let _ = std::fs::write(cwd.join("lporder2.scss"), "@use \"shadow\" as s;\n@use \"only-mm\" as o;\na { w: s.$w; o: o.$o-mm; }\n");
        // every sequence of 1..3 directories out of {za, ab, mm}, repetitions allowed
        let dirs = ["za", "ab", "mm"];
        let mut seqs: Vec<Vec<&str>> = Vec::new();
        for a in dirs {
            seqs.push(vec![a]);
            for b in dirs {
                seqs.push(vec![a, b]);
                for c in dirs {
                    seqs.push(vec![a, b, c]);
                }
            }
        }
        let files = ["lporder.scss", "lporder2.scss"];
        let n = (seqs.len() * files.len() * 2) as u64;
        par(
            ctx,
            sub,
            n,
            |i| json!({"load_paths": seqs[(i as usize / 2) % seqs.len()], "file": files[i as usize / 2 / seqs.len()], "stdin": i % 2 == 1}),
            |i, l| {
                let via_stdin = i % 2 == 1;
                let seq = &seqs[(i as usize / 2) % seqs.len()];
                let file = files[i as usize / 2 / seqs.len()];
                let mut args: Vec<String> = Vec::new();
                for d in seq {
                    args.push("--load-path".into());
                    args.push(d.to_string());
                }
                let content = std::fs::read(cwd.join(file)).unwrap_or_default();
                if via_stdin {
                    args.push("--stdin".into());
                } else {
                    args.push(file.into());
                }
                let logger = CollectLogger::new();
                let cfg = Cfg { syntax: None, load_paths: seq.iter().map(|s| s.to_string()).collect(), quiet: false, ..Cfg::default() };
                let env = Env { fs: &grass_compiler::StdFs, logger: &logger };
                let lib = if via_stdin { compile_env(&String::from_utf8_lossy(&content), &cfg, &env) } else { compile_path(file, &cfg, &env) };
                l.evals += 2;
                let r = run_cli(&bin, &cwd, &args, if via_stdin { Some(&content) } else { None });
                l.outcome(digest(&r.stdout) ^ digest(&r.stderr));
                l.validated += 1;
                let key = format!("cli:lp-order:{}:{}", file, args.join(" "));
                let detail = json!({"args": args, "exit": r.status, "stdout": String::from_utf8_lossy(&r.stdout), "stderr": String::from_utf8_lossy(&r.stderr).chars().take(400).collect::<String>(), "library": lib.brief()});
                match &lib {
                    Outcome::Ok(css) => {
                        l.nontrivial += 1;
                        if r.status != Some(0) || r.stdout != css.as_bytes() {
                            ctx.violation(sub, &key, &format!("the CLI prints {:?} (exit {:?}); the library with the same load paths in the same order returns {:?}", String::from_utf8_lossy(&r.stdout), r.status, css), detail);
                        }
                    }
                    Outcome::Err(e) => {
                        if r.status == Some(0) || !r.stdout.is_empty() || String::from_utf8_lossy(&r.stderr) != format!("{}\n", e.rendered) {
                            ctx.violation(sub, &key, &format!("the library fails ({}) but the CLI exits {:?} with stdout {:?}", e.message, r.status, String::from_utf8_lossy(&r.stdout)), detail);
                        }
                    }
                    Outcome::Panic(p) => ctx.violation(sub, &key, &format!("library panicked: {}", p), detail),
                }
            },
        );
        ctx.bound(sub, "every sequence of 1..3 --load-path options over 3 directories (repetitions allowed; two of them shadow the same module) x {@import, @use} x {file argument, --stdin}: stdout equals the library's CSS for the same list in the same order", true);
        ctx.sample(sub, json!({"args": ["--load-path", "za", "--load-path", "ab", "lporder.scss"], "expected": "a { w: za; }"}));
    }

    // ---- states of the output file before the run -------------------------------------------------
    {
        let sub = "output-file-states";
        let _ = std::fs::write(cwd.join("ofs.scss"), "a { b: c; }\n");
        let _ = std::fs::write(cwd.join("ofs-err.scss"), "a { b: 1 + ; }\n");
        // (name, prepare, expect success)
        let states = ["absent", "existing-longer", "existing-shorter", "existing-empty", "is-directory", "parent-is-file"];
        let n = (states.len() * 2 * 2) as u64;
        par(
            ctx,
            sub,
            n,
            |i| json!({"state": states[(i as usize / 4) % states.len()], "compressed": i % 2 == 1, "failing_input": (i / 2) % 2 == 1}),
            |i, l| {
                let st = states[(i as usize / 4) % states.len()];
                let compressed = i % 2 == 1;
                let failing = (i / 2) % 2 == 1;
                let out = format!("out/ofs-{}", i);
                let outp = cwd.join(&out);
                let _ = std::fs::remove_dir_all(&outp);
                let _ = std::fs::remove_file(&outp);
                let long = "x".repeat(5000);
                let mut target = out.clone();
                match st {
                    "existing-longer" => {
                        let _ = std::fs::write(&outp, &long);
                    }
                    "existing-shorter" => {
                        let _ = std::fs::write(&outp, "y");
                    }
                    "existing-empty" => {
                        let _ = std::fs::write(&outp, "");
                    }
                    "is-directory" => {
                        let _ = std::fs::create_dir_all(&outp);
                    }
                    "parent-is-file" => {
                        let _ = std::fs::write(&outp, "z");
                        target = format!("{}/o.css", out);
                    }
                    _ => {}
                }
                let input = if failing { "ofs-err.scss" } else { "ofs.scss" };
                let args: Vec<String> = vec!["--style".into(), if compressed { "compressed" } else { "expanded" }.into(), input.into(), target.clone()];
                let cfg = Cfg { syntax: None, compressed, ..Cfg::default() };
                let lib = compile_path(input, &cfg, &Env { fs: &grass_compiler::StdFs, logger: &grass_compiler::NullLogger });
                l.evals += 2;
                let r = run_cli(&bin, &cwd, &args, None);
                l.outcome(digest(&r.stderr) ^ r.status.unwrap_or(-1) as u64);
                l.validated += 1;
                let key = format!("cli:output-state:{}:{}:{}", st, compressed, failing);
                let after = std::fs::read(&outp).ok();
                let detail = json!({"args": args, "state": st, "exit": r.status, "stderr": String::from_utf8_lossy(&r.stderr).chars().take(300).collect::<String>(), "file_after": after.as_ref().map(|b| String::from_utf8_lossy(b).chars().take(200).collect::<String>())});
                let mut bad: Vec<String> = Vec::new();
                if !r.stdout.is_empty() {
                    bad.push("CSS on stdout although an output file was named".into());
                }
                let writable = !matches!(st, "is-directory" | "parent-is-file");
                match (&lib, writable) {
                    (Outcome::Ok(css), true) => {
                        l.nontrivial += 1;
                        if r.status != Some(0) {
                            bad.push(format!("exit status {:?}", r.status));
                        }
                        if after.as_deref() != Some(css.as_bytes()) {
                            bad.push("the output file does not hold exactly the library's CSS (old content must be replaced, not overwritten in place)".into());
                        }
                    }
                    (Outcome::Ok(_), false) => {
                        if r.status == Some(0) || r.stderr.is_empty() {
                            bad.push(format!("the output file cannot be created, yet exit {:?} / stderr {:?}", r.status, String::from_utf8_lossy(&r.stderr)));
                        }
                    }
                    (_, _) => {
                        if r.status == Some(0) || r.stderr.is_empty() {
                            bad.push(format!("the compilation fails, yet exit {:?}", r.status));
                        }
                        // no CSS may be written for a failing compilation
                        if let Some(a) = &after {
                            if a.windows(2).any(|w| w == b"a{" || w == b"a ") && st != "existing-longer" {
                                bad.push("CSS in the output file although the compilation failed".into());
                            }
                        }
                    }
                }
                let _ = std::fs::remove_dir_all(&outp);
                let _ = std::fs::remove_file(&outp);
                if !bad.is_empty() {
                    ctx.violation(sub, &key, &bad.join("; "), detail);
                }
            },
        );
        ctx.bound(sub, "6 states of the named output file before the run (absent, existing with longer / shorter / empty content, a directory, below a regular file) x 2 styles x {compiling, failing input}: afterwards the file holds exactly the library's CSS, or the run fails with a message", true);
        ctx.sample(sub, json!({"state": "existing-longer", "oracle": "file == library CSS (truncated)"}));
    }

    // ---- a failing write of the output file is an error ------------------------------------------
    if std::path::Path::new("/dev/full").exists() {
        let sub = "output-write-failure";
        let sizes: Vec<(&str, usize)> = vec![("small", 1), ("8k", 400), ("64k", 3300), ("1m", 52000)];
        for (name, rules) in &sizes {
            let mut src = String::new();
            for k in 0..*rules {
                src.push_str(&format!(".r{} {{ p: v{}; }}\n", k, k));
            }
            let _ = std::fs::write(cwd.join(format!("full-{}.scss", name)), src);
        }
        let n = (sizes.len() * 2 * 2) as u64;
        par(
            ctx,
            sub,
            n,
            |i| json!({"size": sizes[(i as usize / 4) % sizes.len()].0, "compressed": i % 2 == 1, "target": if (i / 2) % 2 == 0 { "/dev/full" } else { "regular file (control)" }}),
            |i, l| {
                let (name, _) = sizes[(i as usize / 4) % sizes.len()];
                let compressed = i % 2 == 1;
                let control = (i / 2) % 2 == 1;
                let target = if control { format!("out/full-{}.css", i) } else { "/dev/full".to_string() };
                let args: Vec<String> = vec!["--style".into(), if compressed { "compressed" } else { "expanded" }.into(), format!("full-{}.scss", name), target.clone()];
                l.evals += 1;
                let r = run_cli(&bin, &cwd, &args, None);
                l.outcome(digest(&r.stderr) ^ r.status.unwrap_or(-1) as u64);
                l.validated += 1;
                let detail = json!({"args": args, "exit": r.status, "stderr": String::from_utf8_lossy(&r.stderr).chars().take(300).collect::<String>()});
                if control {
                    let ok = r.status == Some(0) && std::fs::metadata(cwd.join(&target)).map(|m| m.len() > 0).unwrap_or(false);
                    let _ = std::fs::remove_file(cwd.join(&target));
                    if !ok {
                        ctx.violation(sub, &format!("cli:write-control:{}:{}", name, compressed), "writing to a regular output file failed", detail);
                    }
                } else {
                    l.nontrivial += 1;
                    if r.status == Some(0) || r.stderr.is_empty() || !r.stdout.is_empty() {
                        ctx.violation(sub, &format!("cli:write-failure:{}:{}", name, compressed), &format!("the output device is full: every write fails, yet the CLI exits {:?} with stderr {:?}", r.status, String::from_utf8_lossy(&r.stderr)), detail);
                    }
                }
            },
        );
        ctx.bound(sub, "4 output sizes (one rule, 8 KiB, 64 KiB, 1 MiB) x 2 styles written to /dev/full (every write fails after a successful open) and, as control, to a regular file", true);
        ctx.sample(sub, json!({"args": ["full-small.scss", "/dev/full"], "oracle": "exit != 0 and a message on stderr"}));
    }

    if ctx.thorough() {
        let sub = "corpus-stdin";
        let corp: Vec<_> = corpus::load().into_iter().filter(|c| c.syntax == Syn::Scss && !c.input.contains("unique-id") && !c.input.contains("random(")).collect();
        let n = corp.len() as u64;
        par(
            ctx,
            sub,
            n * 8,
            |i| json!({"corpus_case": corp[(i / 8) as usize].name, "combo": i % 8}),
            |i, l| {
                let c = &corp[(i / 8) as usize];
                let k = i % 8;
                let (compressed, no_charset, no_unicode) = (k & 1 != 0, k & 2 != 0, k & 4 != 0);
                let mut args: Vec<String> = vec!["--style".into(), if compressed { "compressed" } else { "expanded" }.into(), "--quiet".into(), "--stdin".into()];
                if no_charset {
                    args.push("--no-charset".into());
                }
                if no_unicode {
                    args.push("--no-unicode".into());
                }
                let cfg = Cfg { syntax: None, compressed, charset: !no_charset, unicode: !no_unicode, quiet: true, load_paths: vec![] };
                let lib = compile_env(&c.input, &cfg, &Env { fs: &grass_compiler::StdFs, logger: &grass_compiler::NullLogger });
                l.evals += 2;
                let r = run_cli(&bin, &cwd, &args, Some(c.input.as_bytes()));
                l.outcome(digest(&r.stdout) ^ digest(&r.stderr));
                l.validated += 1;
                let ok = match &lib {
                    Outcome::Ok(css) => r.status == Some(0) && r.stdout == css.as_bytes() && r.stderr.is_empty(),
                    Outcome::Err(e) => r.status.map(|s| s != 0).unwrap_or(false) && r.stdout.is_empty() && String::from_utf8_lossy(&r.stderr) == format!("{}\n", e.rendered),
                    Outcome::Panic(_) => true, // a library panic is C01's business; the CLI aborts too
                };
                l.nontrivial += 1;
                if !ok {
                    ctx.violation(sub, &format!("cli-corpus:{}:{}:{}", c.file, c.name, k), "CLI result for a corpus input differs from the library's", json!({"args": args, "input": c.input, "exit": r.status, "stdout": String::from_utf8_lossy(&r.stdout).chars().take(300).collect::<String>(), "stderr": String::from_utf8_lossy(&r.stderr).chars().take(300).collect::<String>(), "library": lib.brief()}));
                }
            },
        );
        ctx.bound(sub, "every SCSS corpus input through --stdin under the 8 style/charset/unicode combinations", true);
        ctx.sample(sub, json!({"args": ["--style", "compressed", "--quiet", "--stdin"]}));
    }
    ctx.assume("the library reference is called in-process with StdFs from the same working directory; StdLogger's text format is reproduced by the harness from the events a collecting Logger receives");
    let _ = std::env::set_current_dir(&ctx.root);
}
