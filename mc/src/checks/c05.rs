//! C05 — output is well-formed, Sass-free CSS and a fixed point of the compiler.
//! Every successfully compiling corpus input and a string-escaping grammar x {expanded,
//! compressed} x {charset on/off}: structural invariants on the output and the fixed-point
//! relation (re-compiling the output as CSS and as SCSS reproduces the same canonical tree).

use crate::core::*;
use crate::gen::corpus;
use crate::models::canon::{self, C};
use crate::models::css::{self, Node};
use serde_json::json;

/// characters of the escaping grammar
const CHARS: &[&str] = &["a", "\"", "'", "\\", "\\a ", "\\\"", "\\27 ", "\u{e9}", "\u{1F600}", " ", "#{1}", "\\9", "\\A", "A", "\\\\", "/", "*", ";", "{", "}"];

/// templates that place a short string into every string-bearing output position
const PLACES: &[&str] = &[
    "a{b: \"\u{1}\"}",
    "a{b: '\u{1}'}",
    "a{b: unquote(\"\u{1}\")}",
    "a{b: quote(x\u{1})}",
    "a{b: \"x\" + \"\u{1}\"}",
    "a[t=\"\u{1}\"]{b: c}",
    "@import url(\"\u{1}.css\");",
    "@import \"\u{1}.css\";",
    "a{b: url(\"\u{1}\")}",
    "/* \u{1} */ a{b: c}",
    "a{font-family: \"\u{1}\", serif}",
    "a{b: to-upper-case(\"\u{1}\")}",
    "a{b: str-insert(\"\u{1}\", \"\\a\", 1)}",
    "a{--x: \"\u{1}\"}",
    "@font-face{font-family: \"\u{1}\"}",
    // raw source text after an unquoted identifier (escapes of `;`, `{`, `}`, quotes ... in identifiers)
    "a{b: x\u{1}}",
    "a{b: c; d: x\u{1}; e: f}",
    "@x k\u{1};",
];

/// Is every declaration value made of CSS component values only? Outputs of inspect()-like
/// printing (maps, bare parenthesised lists, unevaluated operators) are outside the property's
/// domain ("stylesheet made of CSS-representable values") and are counted as excluded.
fn css_representable(nodes: &[Node]) -> bool {
    /// positive grammar of CSS component values
    fn val_ok(v: &str) -> bool {
        let toks = canon::lex(v);
        if toks.is_empty() {
            return false;
        }
        // a closing quote glued to the next token (`"foo"-1`, `"a"b`) is SassScript concatenation output
        let vc: Vec<char> = v.chars().collect();
        let mut q: Option<char> = None;
        let mut k = 0;
        while k < vc.len() {
            match q {
                Some(c) => {
                    if vc[k] == '\\' {
                        k += 1;
                    } else if vc[k] == c {
                        q = None;
                        if let Some(nx) = vc.get(k + 1) {
                            if !(nx.is_whitespace() || matches!(nx, ',' | '/' | ')' | ']' | ';')) {
                                return false;
                            }
                        }
                    }
                }
                None => {
                    if vc[k] == '"' || vc[k] == '\'' {
                        if k > 0 && !(vc[k - 1].is_whitespace() || matches!(vc[k - 1], ',' | '/' | '(' | '[')) {
                            return false;
                        }
                        q = Some(vc[k]);
                    }
                }
            }
            k += 1;
        }
        let is_ident = |w: &str| {
            let w = w.strip_prefix("--").or_else(|| w.strip_prefix('-')).unwrap_or(w);
            let mut ch = w.chars();
            matches!(ch.next(), Some(c) if c.is_alphabetic() || c == '_' || !c.is_ascii()) && ch.all(|c| c.is_alphanumeric() || c == '-' || c == '_' || !c.is_ascii())
        };
        let is_number = |w: &str| {
            let w = w.strip_prefix('-').or_else(|| w.strip_prefix('+')).unwrap_or(w);
            let end = w.find(|c: char| !(c.is_ascii_digit() || c == '.')).unwrap_or(w.len());
            let (n, u) = w.split_at(end);
            !n.is_empty() && n != "." && n.matches('.').count() <= 1 && (u.is_empty() || u == "%" || (u.chars().all(|c| c.is_alphabetic()) && u.len() <= 5))
        };
        let is_hash = |w: &str| w.len() > 1 && w.starts_with('#') && w[1..].chars().all(|c| c.is_ascii_alphanumeric() || c == '-' || c == '_');
        let mut fstack: Vec<String> = Vec::new();
        let mut prev: Option<&str> = None;
        let n = toks.len();
        for (i, t) in toks.iter().enumerate() {
            let t = t.as_str();
            match t {
                " " => continue,
                "," | "/" => {
                    // must sit between two values
                    let next = toks[i + 1..].iter().find(|x| *x != " ").map(|x| x.as_str());
                    if prev.is_none() || matches!(prev, Some("," | "/" | "(" | "[")) || matches!(next, None | Some(")" | "]" | "," | "/")) {
                        return false;
                    }
                }
                "(" => {
                    match prev {
                        Some(p) if is_ident(p) && toks[..i].last().map(|x| x != " ").unwrap_or(false) => fstack.push(p.to_ascii_lowercase()),
                        _ => return false, // bare parenthesised group: SassScript printing
                    }
                }
                ")" => {
                    if fstack.pop().is_none() {
                        return false;
                    }
                }
                "[" | "]" => {}
                "+" | "*" => {
                    let in_math = fstack.iter().any(|f| matches!(f.as_str(), "calc" | "min" | "max" | "clamp" | "-webkit-calc" | "-moz-calc"));
                    if !in_math {
                        return false;
                    }
                }
                ":" | ">" | "~" | "=" | "{" | "}" | ";" => {
                    // only legal inside var()/env()/url-like opaque functions
                    if !fstack.iter().any(|f| matches!(f.as_str(), "var" | "env" | "url" | "expression" | "element" | "progid")) {
                        return false;
                    }
                }
                t if t.starts_with('"') || t.starts_with('\'') => {}
                "-" => {
                    let in_math = fstack.iter().any(|f| matches!(f.as_str(), "calc" | "min" | "max" | "clamp"));
                    if !in_math {
                        return false;
                    }
                }
                t if t.starts_with('!') => {
                    let rest: String = toks[i..].iter().filter(|x| *x != " ").cloned().collect::<String>().to_ascii_lowercase();
                    if rest != "!important" {
                        return false;
                    }
                }
                t => {
                    if matches!(t, "null" | "NaN" | "Infinity" | "-Infinity" | "true" | "false" | "and" | "or" | "not") || t.starts_with("NaN") || t.starts_with("Infinity") || t.starts_with("-Infinity") {
                        return false;
                    }
                    if t == "get-function" {
                        return false;
                    }
                    let opaque = fstack.iter().any(|f| matches!(f.as_str(), "var" | "env" | "url" | "expression" | "element" | "progid"));
                    if !(is_ident(t) || is_number(t) || is_hash(t) || opaque || (t.starts_with("U+") || t.starts_with("u+"))) {
                        return false;
                    }
                }
            }
            prev = Some(t);
        }
        fstack.is_empty()
    }
    nodes.iter().all(|n| match n {
        Node::Decl { prop, value } => prop.starts_with("--") || val_ok(value),
        Node::Rule { children, .. } => css_representable(children),
        Node::At { name, prelude, children } => {
            // an @import that Sass would try to load when the output is fed back as SCSS
            if name == "import" && !(prelude.contains("url(") || prelude.contains(".css") || prelude.contains("//")) {
                return false;
            }
            if prelude.contains("(:") || prelude.contains("//") || prelude.contains('$') || prelude.contains(": )") || prelude.contains(":)") {
                return false;
            }
            children.as_ref().map(|ch| css_representable(ch)).unwrap_or(true)
        }
        _ => true,
    })
}

/// Sass-only syntax outside strings and comments
fn sass_leftovers(nodes: &[Node], out: &mut Vec<String>) {
    fn strip_strings(s: &str) -> String {
        let mut o = String::new();
        let mut it = s.chars();
        while let Some(c) = it.next() {
            if c == '"' || c == '\'' {
                while let Some(d) = it.next() {
                    if d == '\\' {
                        it.next();
                    } else if d == c {
                        break;
                    }
                }
                o.push('S');
            } else if c == '\\' {
                it.next();
                o.push('E');
            } else {
                o.push(c);
            }
        }
        o
    }
    for n in nodes {
        match n {
            Node::Rule { selector, children } => {
                let s = strip_strings(selector);
                // a placeholder is `%name` at the start of a compound; `50%` is a keyframe selector
                let sc: Vec<char> = s.chars().collect();
                let placeholder = (0..sc.len()).any(|k| sc[k] == '%' && (k == 0 || !(sc[k - 1].is_ascii_digit() || sc[k - 1] == '.')) && sc.get(k + 1).map(|c| c.is_alphabetic() || *c == '_' || *c == '-').unwrap_or(false));
                // `$` is legal inside an attribute selector (`[a$=b]`)
                let mut depth = 0;
                let dollar = sc.iter().any(|c| {
                    if *c == '[' {
                        depth += 1;
                    } else if *c == ']' {
                        depth -= 1;
                    }
                    *c == '$' && depth == 0
                });
                if placeholder || s.contains('&') || dollar || s.contains("#{") {
                    out.push(format!("selector `{}`", selector));
                }
                sass_leftovers(children, out);
            }
            Node::Decl { prop, value } => {
                let p = strip_strings(prop);
                if p.contains("#{") || p.contains('$') || p.contains('&') {
                    out.push(format!("property `{}`", prop));
                }
                if !prop.starts_with("--") {
                    let v = strip_strings(value);
                    if v.contains("#{") || v.contains('$') {
                        out.push(format!("value `{}`", value));
                    }
                }
            }
            Node::At { name, children, prelude } => {
                let lname = name.clone();
                if matches!(lname.as_str(), "mixin" | "include" | "function" | "return" | "if" | "else" | "each" | "for" | "while" | "extend" | "use" | "forward" | "debug" | "warn" | "error" | "at-root" | "content") {
                    out.push(format!("Sass at-rule @{}", name));
                }
                if strip_strings(prelude).contains("#{") {
                    out.push(format!("interpolation in `@{} {}`", name, prelude));
                }
                if let Some(ch) = children {
                    sass_leftovers(ch, out);
                }
            }
            Node::Comment(_) => {}
        }
    }
}

fn strip_blank(c: &[C]) -> Vec<C> {
    c.to_vec()
}

/// all C05 obligations for one (input, syntax)
fn check_one(ctx: &Ctx, sub: &str, keybase: &str, src: &str, syn: Syn, l: &mut Local) {
    for compressed in [false, true] {
        for charset in [true, false] {
            let cfg = Cfg { syntax: Some(syn), compressed, charset, ..Cfg::default() };
            l.evals += 1;
            let o = compile(src, &cfg);
            l.outcome(o.digest());
            let out = match &o {
                Outcome::Ok(s) => s.clone(),
                Outcome::Err(_) => {
                    l.count("input_does_not_compile", 1);
                    return;
                }
                Outcome::Panic(p) => {
                    ctx.violation(sub, &format!("{}:panic", keybase), &format!("panic: {}", p), json!({"input": src, "config": cfg.json()}));
                    return;
                }
            };
            l.validated += 1;
            let key = |class: &str| format!("{}:{}:{}:{}", keybase, if compressed { "compressed" } else { "expanded" }, if charset { "charset" } else { "nocharset" }, class);
            let detail = |extra: serde_json::Value| json!({"input": src, "syntax": syn.name(), "config": cfg.json(), "output": out, "extra": extra});
            // 1. valid UTF-8 (guards the serializer's from_utf8_unchecked)
            if std::str::from_utf8(out.as_bytes()).is_err() {
                ctx.violation(sub, &key("utf8"), "output is not valid UTF-8", detail(json!(null)));
                return;
            }
            // 2. charset / BOM exactly when non-ASCII and allowed
            let has_bom = out.starts_with('\u{feff}');
            let has_charset = out.starts_with("@charset \"UTF-8\";");
            let body = out.trim_start_matches('\u{feff}');
            let non_ascii = !body.is_ascii();
            let want_mark = non_ascii && charset;
            let mark_ok = if compressed { has_bom == want_mark && !has_charset } else { has_charset == want_mark && !has_bom };
            if !mark_ok {
                ctx.violation(sub, &key("charset"), &format!("@charset/BOM wrong: non_ascii={} allows_charset={} bom={} @charset={}", non_ascii, charset, has_bom, has_charset), detail(json!(null)));
            }
            // 3. balanced blocks / strings / comments (the independent reader accepts it)
            let tree = match css::parse(&out) {
                Ok(t) => t,
                Err(e) => {
                    // outputs built from interpolated garbage are outside the domain; decide on the input:
                    if src.contains("#{") || src.contains("unquote(") || src.contains("\\") {
                        l.count("excluded_unreadable_output_from_interpolated_text", 1);
                    } else {
                        ctx.violation(sub, &key("unbalanced"), &format!("output is not well-formed CSS: {}", e.0), detail(json!(null)));
                    }
                    return;
                }
            };
            if src.contains("@#{") {
                l.count("excluded_interpolated_at_rule_name", 1);
                continue;
            }
            if !css_representable(&tree) {
                l.count("excluded_non_css_values", 1);
                continue;
            }
            // 4. no Sass-only syntax
            let mut left = Vec::new();
            sass_leftovers(&tree, &mut left);
            if !left.is_empty() && !(src.contains("unquote(") || src.contains("#{\"")) {
                ctx.violation(sub, &key("sass-syntax"), &format!("Sass-only syntax in the output: {}", left.join("; ")), detail(json!(null)));
            }
            if src.contains("#{") || src.contains("unquote(") {
                // text spliced in by interpolation can spell calls that Sass evaluates when the
                // output is fed back (`min(#{1%}, 2%)`): outside the fixed-point domain
                l.count("fixed_point_skipped_input_uses_interpolation", 1);
                continue;
            }
            // 5. fixed point: output re-compiled as CSS and as SCSS gives the same canonical tree
            let c1 = canon::canon_nodes_pub(&tree, true);
            l.nontrivial += 1;
            for resyn in [Syn::Css, Syn::Scss] {
                let cfg2 = Cfg { syntax: Some(resyn), compressed, charset, ..Cfg::default() };
                l.evals += 1;
                let o2 = compile(&out, &cfg2);
                match &o2 {
                    Outcome::Ok(out2) => match canon::canon(out2, true) {
                        Ok(c2) => {
                            if strip_blank(&c1) != strip_blank(&c2) {
                                let d = canon::first_diff(&c1, &c2).unwrap_or_default();
                                ctx.violation(sub, &key(&format!("fixed-point-{}", resyn.name())), &format!("re-compiling the output as {} changes it: {}", resyn.name(), d), detail(json!({"second_output": out2})));
                            }
                        }
                        Err(e) => ctx.violation(sub, &key(&format!("fixed-point-{}", resyn.name())), &format!("second output unreadable: {}", e.0), detail(json!({"second_output": out2}))),
                    },
                    Outcome::Err(e) => {
                        ctx.violation(sub, &key(&format!("reparse-{}", resyn.name())), &format!("the output does not compile as {}: {}", resyn.name(), e.message), detail(json!(null)));
                    }
                    Outcome::Panic(p) => ctx.violation(sub, &key("panic"), &format!("panic while re-compiling the output: {}", p), detail(json!(null))),
                }
            }
        }
    }
}

pub fn run(ctx: &Ctx) {
    // the watchdog's clock also covers the harness's own oracle work (reference models, DOM enumeration);
    // the limit is generous so that machine load cannot turn a slow case into a verdict
    ctx.hang_limit_s.store(300, std::sync::atomic::Ordering::Relaxed);
    let corp = corpus::load();
    let sub = "corpus";
    par(
        ctx,
        sub,
        corp.len() as u64,
        |i| json!({"file": corp[i as usize].file, "name": corp[i as usize].name}),
        |i, l| {
            let c = &corp[i as usize];
            if c.is_error {
                return;
            }
            check_one(ctx, sub, &format!("wf:corpus:{}:{}", c.file, c.name), &c.input, c.syntax, l);
        },
    );
    ctx.bound(sub, "every successfully compiling corpus input x {expanded, compressed} x {charset on, off}; fixed point through CSS and SCSS", true);
    ctx.sample(sub, json!({"oracle": "utf8, charset/BOM, balanced, Sass-free, canon(compile(out)) == canon(out)"}));

    let sub = "escaping";
    let nc = CHARS.len() as u64;
    let maxlen = ctx.pick(2u32, 3u32);
    let per: u64 = (0..=maxlen).map(|k| nc.pow(k)).sum();
    let np = PLACES.len() as u64;
    let decode = |mut idx: u64| {
        let mut len = 0u32;
        loop {
            let c = nc.pow(len);
            if idx < c {
                break;
            }
            idx -= c;
            len += 1;
        }
        let mut s = String::new();
        for _ in 0..len {
            s.push_str(CHARS[(idx % nc) as usize]);
            idx /= nc;
        }
        s
    };
    par(
        ctx,
        sub,
        per * np,
        |i| json!({"place": PLACES[(i / per) as usize], "text": decode(i % per)}),
        |i, l| {
            let text = decode(i % per);
            let place = PLACES[(i / per) as usize];
            let src = place.replace('\u{1}', &text);
            // in the raw-text places a `//` or `/*` starts a comment of the *source*; what it swallows is not
            // a value
            if !place.contains('"') && !place.contains('\'') && !place.starts_with("/*") && (text.contains("//") || text.contains("/*")) {
                l.count("skipped_comment_in_raw_text", 1);
                return;
            }
            // one root cause, one key family: an attribute value holding a literal backslash in front of
            // other text is printed unquoted with the backslash bare, which reads back as an escape
            let keybase = if place.contains("[t=") && text.contains("\\\\") && !text.ends_with("\\\\") {
                "wf:escape:attr-value:literal-backslash-before-text".to_string()
            } else {
                format!("wf:escape:{}:{}", place.replace('\u{1}', "<s>"), text.escape_default())
            };
            check_one(ctx, sub, &keybase, &src, Syn::Scss, l);
        },
    );
    ctx.bound(sub, &format!("every string of <= {} pieces over a {}-piece escaping alphabet in {} string-bearing positions", maxlen, nc, np), true);
    ctx.sample(sub, json!({"input": "a{b: \"Hello\\a Dolly\"}"}));
    // ---- sequences of visible / invisible statements (serializer bookkeeping between siblings) ----
    let sub = "statement-sequences";
    let top: &[&str] = &[
        "@import url(x.css);", "@import \"y.css\" screen;", "@namespace n url(u);", "@x y;", "%unused{p:q}", "e{}", "n{c:null}", "@media screen{}", "@supports (a:b){}",
        "a{b:c}", "/* c */", "/*! k */", "d{e:f;g:h}", "@media print{i{j:k}}", "@font-face{l:m}", "@x{o{p:q}}", "@y z{}", "r{s:t;&-u{}}", "v{@extend %unused}",
    ];
    let kids: &[&str] = &["b:c;", "d:null;", "&-e{}", "@media print{}", "/* c */", "f{g:h}", "%p{i:j}", "k:l;", "@extend %unused;", "m:{n:o};", "@x y;", "@media print{q:r}"];
    let nt = top.len() as u64;
    let nk = kids.len() as u64;
    let tl = ctx.pick(3u32, 4u32);
    let n_top: u64 = (1..=tl).map(|k| nt.pow(k)).sum();
    let n_kid: u64 = (1..=tl).map(|k| nk.pow(k)).sum();
    let seq = |mut idx: u64, alpha: &[&str]| -> String {
        let n = alpha.len() as u64;
        let mut len = 1u32;
        loop {
            let c = n.pow(len);
            if idx < c {
                break;
            }
            idx -= c;
            len += 1;
        }
        let mut parts = Vec::new();
        for _ in 0..len {
            parts.push(alpha[(idx % n) as usize]);
            idx /= n;
        }
        parts.join(" ")
    };
    par(
        ctx,
        sub,
        n_top + n_kid,
        |i| json!({"input": if i < n_top { seq(i, top) } else { format!("%unused{{p:q}} w{{{}}}", seq(i - n_top, kids)) }}),
        |i, l| {
            let src = if i < n_top { seq(i, top) } else { format!("%unused{{p:q}} w{{{}}}", seq(i - n_top, kids)) };
            check_one(ctx, sub, &format!("wf:seq:{}", src), &src, Syn::Scss, l);
        },
    );
    ctx.bound(sub, &format!("every sequence of 1..{} top-level statements over a 19-statement alphabet (imports, body-less at-rules, invisible rules, comments, rules) and every sequence of 1..{} children over a 12-child alphabet inside one rule", tl, tl), true);
    ctx.sample(sub, json!({"input": "@import url(x.css); %unused{p:q} a{b:c}"}));
    // ---- plain CSS functions whose names are case variants of Sass functions; numbers that print as zero ----
    {
        let sub = "css-function-names-and-tiny-numbers";
        let mut srcs: Vec<String> = Vec::new();
        for f in crate::gen::builtins::GLOBAL_FNS {
            let up = f.to_uppercase();
            let cap: String = f.chars().enumerate().map(|(k, c)| if k == 0 { c.to_ascii_uppercase() } else { c }).collect();
            for name in [up, cap] {
                if name != *f {
                    srcs.push(format!("a{{b: {}(1)}}", name));
                    srcs.push(format!("a{{b: {}(red, 10%)}}", name));
                }
            }
        }
        for v in ["-0.00000000001", "-0.00000000001px", "0.00000000001", "-0.0000000000499em", "-0.00000000005", "(0.3 - 0.2 - 0.1) * 1em", "(0.1 + 0.2 - 0.3) * -1px", "-1e-12", "1px -0.00000000001px", "-0.00000000001 -0.00000000001", "0 - 0.000000000001"] {
            srcs.push(format!("a{{b: {}; c: d}}", v));
            srcs.push(format!("a{{margin: 1px {} 2px}}", v));
        }
        par(
            ctx,
            sub,
            srcs.len() as u64,
            |i| json!({"input": srcs[i as usize]}),
            |i, l| {
                let src = &srcs[i as usize];
                check_one(ctx, sub, &format!("wf:misc:{}", src), src, Syn::Scss, l);
            },
        );
        ctx.bound(sub, "upper-case and capitalised spellings of every global Sass function name used as a plain CSS function (2 argument shapes), and 11 numbers that round to zero in 2 positions: the output re-compiles as CSS and SCSS to the same tree in both styles", true);
        ctx.sample(sub, json!({"input": "a{b: LIGHTEN(red, 10%)}"}));
    }
    // ---- @supports conditions: grouping survives serialization ---------------------------------------
    {
        let sub = "supports-conditions";
        // condition trees of depth <= 2 over 3 leaves, `not`, `and`, `or`, explicit groups
        let leaves: Vec<String> = vec!["(a: b)".into(), "(c: d)".into(), "(--e: f)".into(), "selector(g > h)".into()];
        let mut d1: Vec<String> = leaves.clone();
        for l in &leaves {
            d1.push(format!("not {}", l));
            d1.push(format!("({})", l));
            for r in &leaves {
                d1.push(format!("{} and {}", l, r));
                d1.push(format!("{} or {}", l, r));
            }
        }
        let mut conds: Vec<String> = d1.clone();
        let small: Vec<String> = d1.iter().filter(|c| !c.contains("--e") && !c.contains("selector")).cloned().collect();
        for a in &small {
            conds.push(format!("not ({})", a));
            for l in &leaves[..2] {
                for op in ["and", "or"] {
                    conds.push(format!("({}) {} {}", a, op, l));
                    conds.push(format!("{} {} ({})", l, op, a));
                }
            }
        }
        for a in small.iter().take(12) {
            for b2 in small.iter().take(12) {
                conds.push(format!("({}) and ({})", a, b2));
                conds.push(format!("({}) or ({})", a, b2));
            }
        }
        conds.sort();
        conds.dedup();
        let n = conds.len() as u64 * 2;
        par(
            ctx,
            sub,
            n,
            |i| json!({"condition": conds[(i / 2) as usize], "nested_in_rule": i % 2 == 1}),
            |i, l| {
                let c = &conds[(i / 2) as usize];
                let src = if i % 2 == 0 { format!("@supports {} {{ a {{ b: c; }} }}", c) } else { format!("a {{ @supports {} {{ b: c; }} }}", c) };
                check_one(ctx, sub, &format!("wf:supports:{}:{}", c, i % 2), &src, Syn::Scss, l);
            },
        );
        ctx.bound(sub, "every @supports condition of depth <= 2 over 4 leaves (declaration, custom property, selector()), `not`, `and`, `or` and explicit groups on either side, at the top level and nested in a rule: the output is well-formed and a fixed point (a lost pair of parentheses does not re-parse)", true);
        ctx.sample(sub, json!({"input": "@supports ((a: b) or (c: d)) and (e: f) { a { b: c; } }"}));
    }
    // ---- placeholders and other invisible selectors in every selector position ----------------------
    {
        let sub = "invisible-selectors";
        let frames: &[&str] = &[
            "\u{1}", "a \u{1}", "\u{1} a", "a, \u{1}", "\u{1}, a", "a:not(\u{1})", "a:is(\u{1})", "a:is(b, \u{1})", "a:matches(\u{1}, b)", "a:where(\u{1})", "a:nth-child(2n+1 of \u{1})", "a:nth-last-child(odd of b, \u{1})",
            "a:not(b \u{1})", "a:is(:not(\u{1}))", "a:has(\u{1})", "a:host(\u{1})", "a::slotted(\u{1})", "a:nth-child(2n+1 of \u{1}), c", ":is(\u{1}) > d",
        ];
        let fills: &[&str] = &["%p", "%p.q", "b%p", "%p, %r", "b", ":not(%p)", ":is(%p)"];
        let extends: &[&str] = &["", "e { @extend %p; }", "e { @extend %p; } f { @extend %r !optional; }"];
        let n = (frames.len() * fills.len() * extends.len()) as u64;
        par(
            ctx,
            sub,
            n,
            |i| json!({"index": i}),
            |i, l| {
                let i = i as usize;
                let sel = frames[i % frames.len()].replace('\u{1}', fills[(i / frames.len()) % fills.len()]);
                let ext = extends[i / frames.len() / fills.len()];
                let src = format!("{} {{ x: y; }} z {{ k: l; }} {}", sel, ext);
                check_one(ctx, sub, &format!("wf:invisible:{}:{}", sel, ext), &src, Syn::Scss, l);
            },
        );
        ctx.bound(sub, "19 selector frames (bare, descendant, list member, inside :not / :is / :matches / :where / :has / :host / ::slotted / :nth-child(.. of ..), nested pseudos) x 7 fillers with and without placeholders x {never extended, extended, partly extended}: the output is well-formed CSS without placeholders and a fixed point", true);
        ctx.sample(sub, json!({"input": "a:nth-child(2n+1 of %p) { x: y; }"}));
    }
    ctx.assume("domain: outputs whose declaration values are CSS component values (outputs with bare parenthesised groups, maps or unevaluated operators are counted as excluded); the fixed point is compared on canonical trees (whitespace, number/colour spellings, blank lines erased; comments kept)");
}
