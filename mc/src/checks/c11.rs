//! C11 — selector functions are sound with respect to element matching.
//! All ordered pairs of a selector alphabet (up to 3 compounds, :not/:is/:where/:matches with
//! arguments, opaque pseudo-classes/elements, attribute selectors, every combinator), judged
//! against every DOM tree of <= 3 elements over the pair's features.

use crate::core::*;
use crate::models::css;
use crate::models::sel::*;
use serde_json::json;
use std::collections::BTreeSet;

pub const SEL: &[&str] = &[
    "a", ".x", ".y", "a.x", ".x.y", "#i", "a#i", ".x:hover", ":not(.x)", ":not(a)", ":is(.x, .y)", ":is(a, .y)", "*", "*.x", "[t]", "[a=b]", "[a=b i]", ".x::before",
    ":where(.x)", ":matches(.x, a)", ":nth-child(2n)", ".x:nth-child(2n)", "::slotted(.x)", ".x .y", ".x > .y", ".x + .y", ".x ~ .y", "a .x", "a > .x .y", ".x .y .x", ".y > .x > .y",
    ".x + .y ~ .x", ".x ~ .y + .x", "a .x > .y", ".x.y .y", ":not(.x) .y", ".x :not(.y)", "a ~ c", "a ~ b c", "a ~ b > c", "a + b c", ".a > .b", ".a > .c .b", ".x, .y", "a, .x .y",
];

fn none(n: usize) -> Credit {
    vec![BTreeSet::new(); n]
}

fn dom_desc(f: &Features, dom: &[El], e: usize) -> String {
    let els: Vec<String> = dom
        .iter()
        .map(|x| {
            let mut d = f.types[x.ty].clone();
            if let Some(k) = x.id {
                d.push_str(&format!("#{}", f.ids[k]));
            }
            for (k, fl) in f.flags.iter().enumerate() {
                if x.flags & (1 << k) != 0 {
                    d.push_str(&match fl {
                        Simple::Class(c) => format!(".{}", c),
                        Simple::Attr(a) => a.clone(),
                        Simple::Pseudo(pn) => pn.clone(),
                        _ => String::new(),
                    });
                }
            }
            format!("<{} parent={:?}>", d, x.parent)
        })
        .collect();
    format!("DOM [{}], element {}", els.join(" "), e)
}

/// first element where `sub` matches but `sup` does not
fn not_subset(sub: &List, sup: &[&List], maxn: usize) -> Option<String> {
    let mut all: Vec<&List> = vec![sub];
    all.extend(sup.iter().copied());
    let f = collect_features(&all);
    let nl = label_count(&f);
    let maxn = if nl > 64 { maxn.min(2) } else if nl > 20 { maxn.min(3) } else { maxn };
    let mut bad = None;
    for_each_dom_with(&f, maxn, true, |dom| {
        let cr = none(dom.len());
        for e in 0..dom.len() {
            if m_list(&f, dom, e, sub, &cr) && !sup.iter().all(|s| m_list(&f, dom, e, s, &cr)) {
                bad = Some(dom_desc(&f, dom, e));
                return false;
            }
        }
        true
    });
    bad
}

fn value_of(cssout: &str, prop: &str) -> Option<String> {
    css::flatten(&css::parse(cssout).ok()?).into_iter().flat_map(|b| b.decls).find(|d| d.0 == prop).map(|d| d.1)
}

pub fn run(ctx: &Ctx) {
    // the watchdog's clock also covers the harness's own oracle work (reference models, DOM enumeration);
    // the limit is generous so that machine load cannot turn a slow case into a verdict
    ctx.hang_limit_s.store(ctx.pick(300, 1800), std::sync::atomic::Ordering::Relaxed);
    let n = SEL.len() as u64;
    let maxn = ctx.pick(3, 4);

    // ---- is-superselector -------------------------------------------------------------------------
    let sub = "is-superselector";
    par(
        ctx,
        sub,
        n * n,
        |i| json!({"a": SEL[(i / n) as usize], "b": SEL[(i % n) as usize]}),
        |i, l| {
            let (a, b) = (SEL[(i / n) as usize], SEL[(i % n) as usize]);
            let src = format!("a{{v: is-superselector(\"{}\", \"{}\")}}", a, b);
            l.evals += 1;
            let o = compile(&src, &Cfg::scss());
            l.outcome(o.digest());
            l.validated += 1;
            let key = format!("superselector:{} | {}", a, b);
            match &o {
                Outcome::Ok(c) => {
                    let v = value_of(c, "v");
                    if a == b && v.as_deref() != Some("true") {
                        ctx.violation(sub, &format!("{}:reflexive", key), &format!("is-superselector(\"{}\", \"{}\") is not true", a, a), json!({"input": src}));
                    }
                    if v.as_deref() == Some("true") {
                        l.nontrivial += 1;
                        let (la, lb) = (parse_list(a).unwrap(), parse_list(b).unwrap());
                        if let Some(w) = not_subset(&lb, &[&la], maxn) {
                            ctx.violation(sub, &key, &format!("is-superselector(\"{}\", \"{}\") is true but an element matched by the second is not matched by the first: {}", a, b, w), json!({"input": src, "witness": w}));
                        }
                    }
                }
                other => ctx.violation(sub, &format!("{}:fail", key), &format!("is-superselector failed: {}", other.brief()), json!({"input": src})),
            }
        },
    );
    ctx.bound(sub, &format!("all {}^2 ordered pairs; every `true` answer checked on every DOM of <= {} elements", n, maxn), true);
    ctx.sample(sub, json!({"input": "is-superselector(\"a ~ c\", \"a ~ b c\")", "oracle": "true only if match(B) is a subset of match(A)"}));

    // ---- selector-unify ------------------------------------------------------------------------------
    let sub = "selector-unify";
    par(
        ctx,
        sub,
        n * n,
        |i| json!({"a": SEL[(i / n) as usize], "b": SEL[(i % n) as usize]}),
        |i, l| {
            let (a, b) = (SEL[(i / n) as usize], SEL[(i % n) as usize]);
            let src = format!("a{{k: 1; v: selector-unify(\"{}\", \"{}\")}}", a, b);
            l.evals += 1;
            let o = compile(&src, &Cfg::scss());
            l.outcome(o.digest());
            l.validated += 1;
            let key = format!("unify:{} | {}", a, b);
            match &o {
                Outcome::Ok(c) => {
                    // a null result prints no declaration
                    let v = value_of(c, "v").unwrap_or_else(|| "null".into());
                    let (la, lb) = (parse_list(a).unwrap(), parse_list(b).unwrap());
                    if v == "null" {
                        // null only when the intersection cannot be expressed: for two conflict-free
                        // compounds it always can
                        let simple_compound = |l: &List| l.len() == 1 && l[0].len() == 1;
                        if simple_compound(&la) && simple_compound(&lb) {
                            let (Part::C(ca), Part::C(cb)) = (&la[0][0], &lb[0][0]) else { return };
                            let ty = |c: &Compound| c.iter().find_map(|s| if let Simple::Type(t) = s { Some(t.clone()) } else { None });
                            let id = |c: &Compound| c.iter().find_map(|s| if let Simple::Id(t) = s { Some(t.clone()) } else { None });
                            let pe = |c: &Compound| c.iter().find_map(|s| if let Simple::Pseudo(p) = s { if p.starts_with("::") { Some(p.clone()) } else { None } } else { None });
                            let conflict = (ty(ca).is_some() && ty(cb).is_some() && ty(ca) != ty(cb)) || (id(ca).is_some() && id(cb).is_some() && id(ca) != id(cb)) || (pe(ca).is_some() && pe(cb).is_some() && pe(ca) != pe(cb));
                            if !conflict {
                                ctx.violation(sub, &format!("{}:null", key), &format!("selector-unify(\"{}\", \"{}\") is null although the two compounds do not conflict", a, b), json!({"input": src}));
                            }
                        }
                        l.count("null", 1);
                        return;
                    }
                    l.nontrivial += 1;
                    match parse_list(&v) {
                        Ok(r) => {
                            if let Some(w) = not_subset(&r, &[&la, &lb], maxn) {
                                ctx.violation(sub, &key, &format!("selector-unify(\"{}\", \"{}\") = `{}` matches an element that is not matched by both: {}", a, b, v, w), json!({"input": src, "result": v, "witness": w}));
                            }
                        }
                        Err(e) => ctx.violation(sub, &format!("{}:unreadable", key), &format!("result `{}` is not a readable selector: {}", v, e.0), json!({"input": src})),
                    }
                }
                other => ctx.violation(sub, &format!("{}:fail", key), &format!("selector-unify failed: {}", other.brief()), json!({"input": src})),
            }
        },
    );
    ctx.bound(sub, &format!("all {}^2 ordered pairs; every non-null result checked for match(R) within match(A) and match(B) on every DOM of <= {} elements; null refused for conflict-free compounds", n, maxn), true);
    ctx.sample(sub, json!({"input": "selector-unify(\"[a=b i]\", \"[a=b]\")"}));

    // ---- selector-nest / selector-append vs the nested rule ---------------------------------------------
    let sub = "nest-append";
    let suffixes = [".s", ":hover", "-suffix", "[u]", "::after"];
    let ns = suffixes.len() as u64;
    par(
        ctx,
        sub,
        n * n + n * ns,
        |i| json!({"index": i}),
        |i, l| {
            let (src, fname) = if i < n * n {
                let (a, b) = (SEL[(i / n) as usize], SEL[(i % n) as usize]);
                (format!("a{{v: selector-nest(\"{a}\", \"{b}\")}}\n{a} {{ {b} {{ m: r; }} }}", a = a, b = b), "selector-nest")
            } else {
                let k = i - n * n;
                let (a, s) = (SEL[(k / ns) as usize], suffixes[(k % ns) as usize]);
                if a.contains(',') && s.starts_with('-') {
                    return;
                }
                (format!("a{{v: selector-append(\"{a}\", \"{s}\")}}\n{a} {{ &{s} {{ m: r; }} }}", a = a, s = s), "selector-append")
            };
            l.evals += 1;
            let o = compile(&src, &Cfg::scss());
            l.outcome(o.digest());
            l.validated += 1;
            match &o {
                Outcome::Ok(c) => {
                    let blocks = css::flatten(&css::parse(c).unwrap_or_default());
                    let fv = blocks.iter().flat_map(|b| b.decls.iter()).find(|d| d.0 == "v").map(|d| d.1.clone());
                    let rule = blocks.iter().find(|b| b.decls.iter().any(|d| d.0 == "m")).map(|b| b.selector.clone());
                    l.nontrivial += 1;
                    let canon = |s: &str| parse_list(s).ok();
                    if fv.as_deref().and_then(canon) != rule.as_deref().and_then(canon) || fv.is_none() {
                        ctx.violation(sub, &format!("{}:{}", fname, src.lines().next().unwrap_or("")), &format!("{} gives `{:?}` but the equivalent nested rule gives `{:?}`", fname, fv, rule), json!({"input": src, "output": c}));
                    }
                }
                Outcome::Err(_) => l.count("both_rejected_or_unsupported", 1),
                Outcome::Panic(p) => ctx.violation(sub, &format!("{}:panic:{}", fname, src.lines().next().unwrap_or("")), &format!("panic: {}", p), json!({"input": src})),
            }
        },
    );
    ctx.bound(sub, "selector-nest on all ordered pairs and selector-append with 5 suffixes, each compared with the selector of the equivalent nested style rule compiled in the same stylesheet", true);
    ctx.sample(sub, json!({"input": "a{v: selector-nest(\".x, .y\", \"a .x\")} .x, .y { a .x { m: r; } }"}));

    // ---- selector-extend / selector-replace vs @extend ---------------------------------------------------
    let sub = "extend-replace";
    let targets = [".x", ".y", "a", "#i", ":hover", "[t]"];
    let extenders = [".z", "b", ".z .w", "b > .z", ".z.y", ".z, .w"];
    let (nt, nx) = (targets.len() as u64, extenders.len() as u64);
    par(
        ctx,
        sub,
        n * nt * nx,
        |i| json!({"selector": SEL[(i / (nt * nx)) as usize], "target": targets[((i / nx) % nt) as usize], "extender": extenders[(i % nx) as usize]}),
        |i, l| {
            let s = SEL[(i / (nt * nx)) as usize];
            let t = targets[((i / nx) % nt) as usize];
            let e = extenders[(i % nx) as usize];
            let src = format!("q{{v: selector-extend(\"{s}\", \"{t}\", \"{e}\"); w: selector-replace(\"{s}\", \"{t}\", \"{e}\")}}\n{s} {{ m: r; }}\n{e} {{ @extend {t} !optional; }}", s = s, t = t, e = e);
            l.evals += 1;
            let o = fresh_thread(|| compile(&src, &Cfg::scss()));
            l.outcome(o.digest());
            l.validated += 1;
            let key = format!("selector-extend:{} | {} | {}", s, t, e);
            match &o {
                Outcome::Ok(c) => {
                    let blocks = css::flatten(&css::parse(c).unwrap_or_default());
                    let fv = blocks.iter().flat_map(|b| b.decls.iter()).find(|d| d.0 == "v").map(|d| d.1.clone());
                    let fw = blocks.iter().flat_map(|b| b.decls.iter()).find(|d| d.0 == "w").map(|d| d.1.clone());
                    let rule = blocks.iter().find(|b| b.decls.iter().any(|d| d.0 == "m")).map(|b| b.selector.clone());
                    l.nontrivial += 1;
                    // agreement in meaning: the same elements match (both directions, every DOM)
                    let lists = |x: &Option<String>| -> Option<List> { x.as_deref().and_then(|v| parse_list(v).ok()) };
                    match (lists(&fv), lists(&rule)) {
                        (Some(a), Some(b)) => {
                            let d1 = not_subset(&a, &[&b], maxn);
                            let d2 = not_subset(&b, &[&a], maxn);
                            if let Some(w) = d1.or(d2) {
                                ctx.violation(sub, &key, &format!("selector-extend gives `{:?}` but `@extend` on the same inputs gives `{:?}`; they differ on {}", fv, rule, w), json!({"input": src, "output": c}));
                            }
                        }
                        _ => ctx.violation(sub, &key, &format!("selector-extend gives `{:?}`, `@extend` gives `{:?}` (unreadable or missing)", fv, rule), json!({"input": src, "output": c})),
                    }
                    // selector-replace drops the target: without negation it can only narrow the extend result
                    if !s.contains(":not") && !s.contains("::slotted") {
                        if let (Some(r), Some(x)) = (lists(&fw), lists(&fv)) {
                            if let Some(w) = not_subset(&r, &[&x], maxn) {
                                ctx.violation(sub, &format!("{}:replace", key), &format!("selector-replace result `{:?}` matches an element the selector-extend result `{:?}` does not: {}", fw, fv, w), json!({"input": src}));
                            }
                        }
                    }
                }
                Outcome::Err(_) => l.count("rejected", 1),
                Outcome::Panic(p) => ctx.violation(sub, &format!("{}:panic", key), &format!("panic: {}", p), json!({"input": src})),
            }
        },
    );
    ctx.bound(sub, &format!("{} selectors x 6 targets x 6 extenders: selector-extend equals the rewritten selector of the corresponding @extend (as a set of complex selectors); selector-replace is contained in it", n), true);
    ctx.sample(sub, json!({"input": "selector-extend(\".x .y\", \".y\", \".z .w\")  vs  .x .y{} .z .w{@extend .y}"}));

    // ---- simple-selectors() ---------------------------------------------------------------------------------
    {
        let sub = "simple-selectors";
        let compounds: &[&str] = &[
            "a", ".x", "a.x", ".x.y", "#i", "a#i", ".x:hover", ":not(.x)", ":is(.x, .y)", "*", "*.x", "[t]", "[a=b]", "[a=\"b c\"]", ".x::before", ":nth-child(2n)", ".x:nth-child(2n+1)", "a.x#i[t]:hover::after", ".x.x",
            "a:not(.x):is(b, c)", "%p", "a%p.x", ".x:not(.y, .z)", "::slotted(.x)", "a:nth-child(2n of .x)", ".\\31 x", ".a-b_c",
        ];
        let rejected: &[&str] = &["a b", "a > b", "a, b", ".x .y", "a +", "", "> a", "+ a", "~", "> a b", "a, > b"];
        let n = (compounds.len() + rejected.len()) as u64;
        par(
            ctx,
            sub,
            n,
            |i| json!({"selector": if (i as usize) < compounds.len() { compounds[i as usize] } else { rejected[i as usize - compounds.len()] }}),
            |i, l| {
                let i = i as usize;
                let (sel, must_fail) = if i < compounds.len() { (compounds[i], false) } else { (rejected[i - compounds.len()], true) };
                let src = format!("$s: simple-selectors(\"{}\");\nq {{ n: length($s); sep: list-separator($s); }}\n@each $p in $s {{ r {{ part: \"<#{{$p}}>\"; }} }}\n", sel.replace('\\', "\\\\").replace('"', "\\\""));
                l.evals += 1;
                let o = compile(&src, &Cfg::scss());
                l.outcome(o.digest());
                l.validated += 1;
                let key = format!("simple-selectors:{}", sel);
                match (&o, must_fail) {
                    (Outcome::Panic(p), _) => ctx.violation(sub, &key, &format!("panic: {}", p), json!({"input": src})),
                    (Outcome::Err(_), true) => l.count("rejected_as_expected", 1),
                    // (the property only asks that the function does not crash on these; whether a complex
                    // selector is rejected or its first compound is used is counted, not judged)
                    (Outcome::Ok(_), true) => l.count("non_compound_input_accepted", 1),
                    (Outcome::Err(e), false) => ctx.violation(sub, &key, &format!("simple-selectors(\"{}\") fails: {}", sel, e.message), json!({"input": src})),
                    (Outcome::Ok(c), false) => {
                        l.nontrivial += 1;
                        let blocks = css::flatten(&css::parse(c).unwrap_or_default());
                        let parts: Vec<String> = blocks.iter().filter(|b| b.selector == "r").flat_map(|b| b.decls.iter()).filter(|d| d.0 == "part").map(|d| d.1.trim_matches(|c| c == '"' || c == '\'').trim_start_matches('<').trim_end_matches('>').replace("\\\\", "\\").replace("\\\"", "\"").to_string()).collect();
                        let nn = blocks.iter().flat_map(|b| b.decls.iter()).find(|d| d.0 == "n").map(|d| d.1.clone()).unwrap_or_default();
                        let sep = blocks.iter().flat_map(|b| b.decls.iter()).find(|d| d.0 == "sep").map(|d| d.1.clone()).unwrap_or_default();
                        let want = parse_compound(sel).map(|c| c.len()).unwrap_or(0);
                        let joined: String = parts.concat();
                        let norm = |t: &str| t.chars().filter(|c| !c.is_whitespace()).collect::<String>();
                        let mut bad = Vec::new();
                        if norm(&joined) != norm(sel) {
                            bad.push(format!("the parts {:?} do not spell the selector", parts));
                        }
                        if want > 0 && (parts.len() != want || nn != want.to_string()) {
                            bad.push(format!("{} parts (length() = {}), the selector has {} simple selectors", parts.len(), nn, want));
                        }
                        if sep != "comma" {
                            bad.push(format!("the result is a {}-separated list", sep));
                        }
                        for p2 in &parts {
                            if parse_compound(p2).map(|c| c.len() != 1).unwrap_or(false) {
                                bad.push(format!("part `{}` is not one simple selector", p2));
                            }
                        }
                        if !bad.is_empty() {
                            ctx.violation(sub, &key, &bad.join("; "), json!({"input": src, "output": c}));
                        }
                    }
                }
            },
        );
        ctx.bound(sub, "27 compound selectors (every kind of simple selector, pseudos with arguments, escapes, placeholders): the parts are single simple selectors, as many as the selector has, spelling it in order in a comma list; 11 non-compound inputs (complex selectors, lists, leading combinators) must not crash", true);
        ctx.sample(sub, json!({"input": "simple-selectors(\"a.x#i[t]:hover::after\")"}));
    }

    // ---- selector-parse round trip --------------------------------------------------------------------------
    let sub = "parse-roundtrip";
    par(
        ctx,
        sub,
        n,
        |i| json!({"selector": SEL[i as usize]}),
        |i, l| {
            let a = SEL[i as usize];
            let src = format!("a{{v: selector-parse(\"{a}\"); w: simple-selectors(\"a.x#i\")}}\n{a} {{ m: r; }}", a = a);
            l.evals += 1;
            let o = compile(&src, &Cfg::scss());
            l.outcome(o.digest());
            l.validated += 1;
            match &o {
                Outcome::Ok(c) => {
                    let blocks = css::flatten(&css::parse(c).unwrap_or_default());
                    let fv = blocks.iter().flat_map(|b| b.decls.iter()).find(|d| d.0 == "v").map(|d| d.1.clone()).unwrap_or_default();
                    l.nontrivial += 1;
                    let (orig, printed) = (parse_list(a).unwrap(), parse_list(&fv));
                    match printed {
                        Ok(p) => {
                            let same = not_subset(&p, &[&orig], maxn).is_none() && not_subset(&orig, &[&p], maxn).is_none();
                            if !same {
                                ctx.violation(sub, &format!("parse:{}", a), &format!("selector-parse(\"{}\") prints `{}` which matches different elements", a, fv), json!({"input": src}));
                            }
                        }
                        Err(e) => ctx.violation(sub, &format!("parse:{}", a), &format!("printed selector `{}` unreadable: {}", fv, e.0), json!({"input": src})),
                    }
                }
                other => ctx.violation(sub, &format!("parse:{}", a), &format!("selector the style-rule parser accepts is rejected by selector-parse or panics: {}", other.brief()), json!({"input": src})),
            }
        },
    );
    ctx.bound(sub, "every selector of the alphabet: selector-parse then print keeps the match set on every DOM of <= 3 elements", true);
    ctx.sample(sub, json!({"input": "selector-parse(\".x + .y ~ .x\")"}));
    ctx.assume("DOMs are trees and forests of <= 3 elements (a forest stands for a tree with one more, unlabelled, root); element labels range over the subsets of the features (types, ids, classes, attributes, opaque pseudos) the judged selectors mention plus one unmentioned type; attribute selectors and pseudo selectors with different text are independent opaque features");
}
