//! C07 — numbers: IEEE doubles, Sass rounding / modulo / printing.
//! Literal lattice x both styles against an exact-decimal reference; arithmetic against IEEE
//! results computed by the harness; fuzzy comparison / rounding / integer checks at the 1e-11
//! tolerance; re-reading printed text.

use crate::checks::c08::{first_decl_value, split_num};
use crate::core::*;
use crate::models::css;
use crate::models::num::{self, accepted, render};
use serde_json::json;

/// literal text for mantissa digits `m` (as integer) scaled by 10^e, sign s
fn literal(m: u64, e: i32, neg: bool) -> String {
    let mut s = m.to_string();
    if e >= 0 {
        for _ in 0..e {
            s.push('0');
        }
    } else {
        let k = (-e) as usize;
        while s.len() <= k {
            s.insert(0, '0');
        }
        s.insert(s.len() - k, '.');
    }
    if neg {
        format!("-{}", s)
    } else {
        s
    }
}

fn lattice(ctx: &Ctx) -> Vec<String> {
    let mut v = Vec::new();
    let maxm: u64 = ctx.pick(999, 9999);
    let scales: Vec<i32> = (-13..=15).collect();
    for m in 1..=maxm {
        for e in &scales {
            if ctx.quick() && m > 99 && (*e < -12 || *e > 6) {
                continue;
            }
            v.push(literal(m, *e, false));
            if m % 7 == 3 {
                v.push(literal(m, *e, true));
            }
        }
    }
    // boundary set
    for k in [0u64, 1, 2, 9, 10, 99, 100, 12345] {
        for d in ["", "0", "00000000001", "000000000001", "000000000005", "49999999999", "499999999995", "5", "50000000001", "500000000001", "500000000005", "99999999999", "999999999995", "9999999999", "99999999995"] {
            v.push(format!("{}.5{}", k, d));
            v.push(format!("{}.4{}", k, d));
            v.push(format!("{}.{}", k, if d.is_empty() { "0" } else { d }));
            v.push(format!("-{}.5{}", k, d));
        }
    }
    for j in 1..=14 {
        v.push(format!("0.{}1", "0".repeat(j - 1)));
        v.push(format!("0.{}", "9".repeat(j)));
        v.push(format!("0.{}5", "9".repeat(j)));
        v.push(format!("-0.{}", "9".repeat(j)));
        v.push(format!("1.{}1", "0".repeat(j - 1)));
        v.push(format!("0.{}5", "0".repeat(j - 1)));
        v.push(format!("0.{}49", "0".repeat(j - 1)));
        v.push(format!("0.{}51", "0".repeat(j - 1)));
    }
    // exponent notation
    for s in ["1e3", "1E3", "1e+3", "1e-3", "1.5e2", "12e-1", "1e0", "1e10", "1e-10", "1e-11", "5e-11", "4e-11", "1e15", "1e18", ".5e1", "-1e3", "-2.5e-3", "1e-15"] {
        v.push(s.to_string());
    }
    // exact ties at the 10th place (dyadic rationals)
    for s in ["0.00048828125", "0.00146484375", "1.00048828125", "0.50048828125", "-0.00048828125", "0.000030517578125", "0.0000152587890625"] {
        v.push(s.to_string());
    }
    v.push(".5".into());
    v.push("0".into());
    v.push("-0".into());
    v.push("+1.5".into());
    v.sort();
    v.dedup();
    v
}

/// the double a correct decimal->binary conversion gives for a literal
fn value_of(lit: &str) -> Option<f64> {
    let t = lit.trim_start_matches('+');
    t.parse::<f64>().ok()
}

pub fn run(ctx: &Ctx) {
    // the watchdog's clock also covers the harness's own oracle work (reference models, DOM enumeration);
    // the limit is generous so that machine load cannot turn a slow case into a verdict
    ctx.hang_limit_s.store(300, std::sync::atomic::Ordering::Relaxed);
    // ---- printing -------------------------------------------------------------------
    let lits = lattice(ctx);
    let sub = "print";
    let batch = 64usize;
    let nb = (lits.len() + batch - 1) / batch;
    par(
        ctx,
        sub,
        (nb * 2) as u64,
        |i| json!({"first_literal": lits[(i as usize / 2) * batch], "compressed": i % 2 == 1}),
        |i, l| {
            let compressed = i % 2 == 1;
            let b = (i / 2) as usize;
            let chunk = &lits[b * batch..((b + 1) * batch).min(lits.len())];
            // one declaration per literal; `+ 0` forces evaluation through the number printer too
            let src = format!("a{{{}}}", chunk.iter().enumerate().map(|(k, x)| format!("p{}:{};q{}:({} + 0);", k, x, k, x)).collect::<String>());
            l.evals += 1;
            let o = compile(&src, &Cfg::scss().compressed(compressed));
            l.outcome(o.digest());
            let Outcome::Ok(cssout) = &o else {
                ctx.violation(sub, &format!("print:batch:{}", chunk[0]), &format!("batch of literals failed: {}", o.brief()), json!({"input": src}));
                return;
            };
            let blocks = css::flatten(&css::parse(cssout).unwrap_or_default());
            let decls: Vec<(String, String)> = blocks.into_iter().flat_map(|b| b.decls).collect();
            for (k, lit) in chunk.iter().enumerate() {
                let Some(x) = value_of(lit) else { continue };
                let acc = accepted(x, compressed);
                for pre in ["p", "q"] {
                    l.validated += 1;
                    let got = decls.iter().find(|d| d.0 == format!("{}{}", pre, k)).map(|d| d.1.clone());
                    let ok = got.as_ref().map(|g| acc.contains(g)).unwrap_or(false);
                    if ok {
                        l.nontrivial += 1;
                        // re-reading the printed text gives a Sass-equal number when the literal has <= 10 decimals
                        if let Some(back) = got.as_deref().and_then(num::parse_printed) {
                            let decimals = lit.split('.').nth(1).map(|f| f.len()).unwrap_or(0);
                            if !lit.contains('e') && !lit.contains('E') && decimals <= 10 && !num::fuzzy_eq(back, x) && (back - x).abs() > 1e-11 * x.abs().max(1.0) {
                                ctx.violation(sub, &format!("print:reread:{}:{}", lit, compressed), &format!("printed text {:?} re-reads as {} which is not equal to the original {}", got, back, x), json!({"literal": lit}));
                            }
                        }
                    } else {
                        ctx.violation(
                            sub,
                            &format!("print:{}:{}:{}", lit, if compressed { "compressed" } else { "expanded" }, pre),
                            &format!("number {} ({}) prints as {:?}; correctly rounded 10-digit rendering is {:?}", lit, if pre == "p" { "literal" } else { "literal + 0" }, got, acc),
                            json!({"literal": lit, "compressed": compressed, "observed": got, "reference": acc}),
                        );
                    }
                }
            }
        },
    );
    ctx.add(sub, "literals", lits.len() as u64);
    ctx.bound(sub, &format!("{} literals (every 1-{}-digit mantissa at 29 decimal scales, boundary set around .5 / 1e-10 / exact ties, exponent forms) x 2 styles x {{literal, literal+0}}", lits.len(), ctx.pick(3, 4)), true);
    ctx.sample(sub, json!({"literal": "0.99999999999", "compressed": true, "reference": ["1"]}));

    // ---- arithmetic -------------------------------------------------------------------
    let ops_vals: Vec<&str> = vec![
        "0", "1", "-1", "2", "3", "-3", "7", "10", "0.1", "0.2", "0.3", "0.5", "-0.5", "1.5", "2.5", "-2.5", "0.7", "1e-11", "1e-12", "4e-12", "1.000000000004", "0.999999999996", "1e10", "1e15", "123456789.123", "0.000001", "100", "255", "-7.5", "3.14159265359", "2.71828", "9007199254740993", "1e18",
    ];
    let binops = ["+", "-", "*", "%", "div", "pow"];
    let nv = ops_vals.len() as u64;
    let sub = "arith";
    par(
        ctx,
        sub,
        nv * nv * binops.len() as u64,
        |i| json!({"a": ops_vals[((i / nv) % nv) as usize], "b": ops_vals[(i % nv) as usize], "op": binops[(i / (nv * nv)) as usize]}),
        |i, l| {
            let op = binops[(i / (nv * nv)) as usize];
            let (at, bt) = (ops_vals[((i / nv) % nv) as usize], ops_vals[(i % nv) as usize]);
            let (a, b) = (value_of(at).unwrap(), value_of(bt).unwrap());
            let (expr, exp) = match op {
                "+" => (format!("({} + {})", at, bt), a + b),
                "-" => (format!("({} - {})", at, bt), a - b),
                "*" => (format!("({} * {})", at, bt), a * b),
                "%" => (format!("({} % {})", at, bt), {
                    if b == 0.0 {
                        f64::NAN
                    } else {
                        let r = a % b;
                        if r != 0.0 && (r < 0.0) != (b < 0.0) {
                            r + b
                        } else {
                            r
                        }
                    }
                }),
                "div" => (format!("math.div({}, {})", at, bt), a / b),
                _ => (format!("math.pow({}, {})", at, bt), a.powf(b)),
            };
            let src = format!("@use \"sass:math\";\na{{b:{}}}", expr);
            l.evals += 1;
            let o = compile(&src, &Cfg::scss());
            l.outcome(o.digest());
            l.validated += 1;
            match &o {
                Outcome::Ok(c) => {
                    let got = first_decl_value(c).unwrap_or_default();
                    // accept the rendering of the IEEE result or of its neighbours (libm pow may differ by an ulp)
                    let mut acc = accepted(exp, false);
                    if op == "pow" || op == "%" {
                        acc.extend(accepted(num::next_up(exp), false));
                        acc.extend(accepted(num::next_down(exp), false));
                    }
                    // modulo at (near-)exact multiples is numerically unstable: skip when a/b is within 1e-9 of an integer and operands are not both integers
                    if op == "%" && b != 0.0 && ((a / b) - (a / b).round()).abs() < 1e-9 && (a.fract() != 0.0 || b.fract() != 0.0) {
                        l.count("skipped_unstable_modulo", 1);
                        return;
                    }
                    if exp.abs() >= 1e21 {
                        l.count("skipped_huge", 1);
                        return;
                    }
                    l.nontrivial += 1;
                    if !acc.contains(&got) {
                        ctx.violation(sub, &format!("arith:{}", expr), &format!("{} = {:?}; IEEE double result {} renders as {:?}", expr, got, exp, acc), json!({"input": src}));
                    }
                }
                Outcome::Err(e) => {
                    ctx.violation(sub, &format!("arith:{}", expr), &format!("{} is an error: {}", expr, e.message), json!({"input": src}));
                }
                Outcome::Panic(p) => ctx.violation(sub, &format!("arith:{}", expr), &format!("panic: {}", p), json!({"input": src})),
            }
        },
    );
    ctx.bound(sub, "33^2 operand pairs x {+ - * % math.div math.pow}", true);
    ctx.sample(sub, json!({"input": "a{b:(-7.5 % 2)}", "reference": "0.5 (sign of the divisor)"}));

    // ---- tolerance: equality, ordering, rounding, integer checks -------------------------
    let sub = "tolerance";
    let bases: Vec<f64> = vec![0.0, 1.0, -1.0, 2.0, 3.0, 10.0, 100.0, 0.5, 2.5, -2.5, 1234.0];
    // offsets clearly inside (|d| <= 4e-12) and clearly outside (|d| >= 1.6e-11) the tolerance
    let offs: Vec<(f64, bool)> = vec![(0.0, true), (1e-12, true), (-1e-12, true), (4e-12, true), (-4e-12, true), (1.6e-11, false), (-1.6e-11, false), (1e-10, false), (-1e-10, false), (1e-9, false), (0.4, false), (-0.4, false)];
    let cases: Vec<(f64, f64, bool)> = bases.iter().flat_map(|b| offs.iter().map(move |(d, inside)| (*b, *d, *inside))).collect();
    par(
        ctx,
        sub,
        cases.len() as u64,
        |i| json!({"base": cases[i as usize].0, "offset": cases[i as usize].1}),
        |i, l| {
            let (base, d, inside) = cases[i as usize];
            let x = base + d;
            if (x - base).abs() < d.abs() * 0.5 && d != 0.0 {
                // offset lost in floating point at this magnitude
                l.count("offset_not_representable", 1);
                return;
            }
            let xt = format!("({} + {})", render17(base), render17(d));
            let bt = render17(base);
            let src = format!(
                "@use \"sass:math\";\n$x: {x}; $b: {b};\na{{eq: $x == $b; ne: $x != $b; lt: $x < $b; gt: $x > $b; le: $x <= $b; ge: $x >= $b; round: math.round($x); ceil: math.ceil($x); floor: math.floor($x); abs: math.abs($x); nth: nth((p, q, r), if($x >= 1 and $x <= 3.5, $x, 1)); int: if(math.round($x) == $x, yes, no); print: $x}}",
                x = xt, b = bt
            );
            l.evals += 1;
            let o = compile(&src, &Cfg::scss());
            l.outcome(o.digest());
            l.validated += 1;
            let (Outcome::Ok(c), true) = (&o, true) else {
                // nth with a non-integer index inside [1,3.5] is an error: only for clearly non-integer x
                if let Outcome::Err(e) = &o {
                    let nonint = !inside || base.fract() != 0.0;
                    if nonint && (1.0..=3.5).contains(&x) && (e.message.contains("not an int") || e.message.contains("Invalid index")) {
                        l.count("nth_rejects_non_integer", 1);
                        return;
                    }
                }
                ctx.violation(sub, &format!("tolerance:{}:{}", base, d), &format!("program failed: {}", o.brief()), json!({"input": src}));
                return;
            };
            let blocks = css::flatten(&css::parse(c).unwrap_or_default());
            let get = |p: &str| blocks.iter().flat_map(|b| b.decls.iter()).find(|x| x.0 == p).map(|x| x.1.clone()).unwrap_or_default();
            l.nontrivial += 1;
            let mut bad = Vec::new();
            let tf = |b: bool| if b { "true" } else { "false" };
            if get("eq") != tf(inside) {
                bad.push(format!("== is {} (offset {} is {} the 1e-11 tolerance)", get("eq"), d, if inside { "inside" } else { "outside" }));
            }
            if get("ne") != tf(!inside) {
                bad.push(format!("!= is {}", get("ne")));
            }
            if inside {
                // fuzzy-equal numbers: <= and >= hold, (property: ordering treats them as equal)
                if get("le") != "true" || get("ge") != "true" {
                    bad.push(format!("<= / >= are {} / {} for fuzzy-equal numbers", get("le"), get("ge")));
                }
            } else {
                if get("lt") != tf(x < base) || get("gt") != tf(x > base) || get("le") != tf(x < base) || get("ge") != tf(x > base) {
                    bad.push(format!("ordering wrong: lt {} gt {} le {} ge {}", get("lt"), get("gt"), get("le"), get("ge")));
                }
            }
            // rounding with tolerance: x within tolerance of an integer or of k+.5
            let near_int = inside && base.fract() == 0.0;
            let near_half = inside && (base.fract().abs() == 0.5);
            let r = split_num(&get("round")).map(|v| v.0).unwrap_or(f64::NAN);
            if near_int {
                if r != base {
                    bad.push(format!("round = {}, expected {}", r, base));
                }
                if get("int") != "yes" {
                    bad.push("round($x) == $x is false for a fuzzy integer".into());
                }
                if (1.0..=3.0).contains(&base) {
                    let want = ["p", "q", "r"][base as usize - 1];
                    if get("nth") != want {
                        bad.push(format!("nth with fuzzy-integer index gives {:?}, expected {}", get("nth"), want));
                    }
                }
            } else if near_half {
                // math.round at a tie that is only reached within the tolerance: the property does
                // not fix the direction (dart-sass rounds the raw double); either neighbour is accepted
                if r != base.ceil() && r != base.floor() {
                    bad.push(format!("round({}+{}) = {}", base, d, r));
                }
            } else if !inside && d.abs() >= 1e-9 {
                if r != x.round() {
                    bad.push(format!("round = {}, expected {}", r, x.round()));
                }
                let (ce, fl) = (split_num(&get("ceil")).map(|v| v.0).unwrap_or(f64::NAN), split_num(&get("floor")).map(|v| v.0).unwrap_or(f64::NAN));
                if ce != x.ceil() || fl != x.floor() {
                    bad.push(format!("ceil/floor = {}/{}, expected {}/{}", ce, fl, x.ceil(), x.floor()));
                }
            }
            let ab = split_num(&get("abs")).map(|v| v.0).unwrap_or(f64::NAN);
            if !crate::checks::c08::close(ab, x.abs()) {
                bad.push(format!("abs = {}", ab));
            }
            if !accepted(x, false).contains(&get("print")) {
                bad.push(format!("prints as {:?}, reference {:?}", get("print"), accepted(x, false)));
            }
            if !bad.is_empty() {
                ctx.violation(sub, &format!("tolerance:{}:{:e}", base, d), &bad.join("; "), json!({"input": src, "output": c}));
            }
        },
    );
    ctx.bound(sub, "11 bases x 12 offsets clearly inside (<= 4e-12) or clearly outside (>= 1.6e-11) the 1e-11 tolerance: == != < > <= >= round ceil floor abs nth-index integer-check print", true);
    ctx.sample(sub, json!({"input": "$x: (1 + 0.000000000004); a{eq: $x == 1; nth: nth((p,q,r), $x)}"}));

    // ---- pairs of off-grid numbers -------------------------------------------------------------------
    {
        let sub = "tolerance-pairs";
        let bases: Vec<f64> = vec![0.0, 1.0, -1.0, 2.0, 7.0, 0.5, -2.5, 100.0];
        // (offset of a, offset of b, equal?): 2e-12 apart around the middle of a 1e-11 cell (equal whatever
        // the grid of the implementation's bucketing), and 2e-11 apart (clearly unequal)
        let pairs: Vec<(f64, f64, bool)> = vec![
            (4.9e-11, 5.1e-11, true),
            (-4.9e-11, -5.1e-11, true),
            (1.49e-10, 1.51e-10, true),
            (2.49e-10, 2.51e-10, true),
            (9.9e-11, 1.01e-10, true),
            (4.0e-11, 6.0e-11, false),
            (-4.0e-11, -6.0e-11, false),
            (1.4e-10, 1.6e-10, false),
        ];
        let cases: Vec<(f64, f64, f64, bool)> = bases.iter().flat_map(|b| pairs.iter().map(move |(x, y, e)| (*b, *x, *y, *e))).collect();
        par(
            ctx,
            sub,
            cases.len() as u64,
            |i| json!({"base": cases[i as usize].0, "offsets": [cases[i as usize].1, cases[i as usize].2]}),
            |i, l| {
                let (base, da, db, equal) = cases[i as usize];
                let (a, b2) = (base + da, base + db);
                // both numbers must sit well inside one 1e-11 cell for the "equal" cases: skip where the
                // floating-point sum moved them (large bases)
                let cell = |v: f64| (v * 1e11).round();
                if equal && (cell(a) != cell(b2) || ((a * 1e11) - cell(a)).abs() > 0.25 || ((b2 * 1e11) - cell(b2)).abs() > 0.25) {
                    l.count("not_representable_inside_one_cell", 1);
                    return;
                }
                let src = format!(
                    "$a: ({} + {}); $b: ({} + {});\nx{{eq: $a == $b; ne: $a != $b; lt: $a < $b; gt: $a > $b; le: $a <= $b; ge: $a >= $b; qe: $b == $a; max: max($a, $b) == $a; idx: index(($a,), $b)}}",
                    render17(base), render17(da), render17(base), render17(db)
                );
                l.evals += 1;
                let o = compile(&src, &Cfg::scss());
                l.outcome(o.digest());
                l.validated += 1;
                let Outcome::Ok(c) = &o else {
                    ctx.violation(sub, &format!("tolerance-pair:{}:{}:{}", base, da, db), &format!("program failed: {}", o.brief()), json!({"input": src}));
                    return;
                };
                l.nontrivial += 1;
                let blocks = css::flatten(&css::parse(c).unwrap_or_default());
                let get = |p: &str| blocks.iter().flat_map(|b| b.decls.iter()).find(|x| x.0 == p).map(|x| x.1.clone()).unwrap_or_default();
                let tf = |b: bool| if b { "true" } else { "false" };
                let mut bad = Vec::new();
                if get("eq") != tf(equal) || get("qe") != tf(equal) || get("ne") != tf(!equal) {
                    bad.push(format!("== / reversed == / != are {} / {} / {}", get("eq"), get("qe"), get("ne")));
                }
                if equal {
                    if get("lt") != "false" || get("gt") != "false" || get("le") != "true" || get("ge") != "true" {
                        bad.push(format!("ordering of fuzzy-equal numbers: lt {} gt {} le {} ge {}", get("lt"), get("gt"), get("le"), get("ge")));
                    }
                    if get("idx") != "1" {
                        bad.push(format!("index() does not find a fuzzy-equal number: {:?}", get("idx")));
                    }
                } else if get("lt") != tf(a < b2) || get("gt") != tf(a > b2) {
                    bad.push(format!("ordering wrong: lt {} gt {}", get("lt"), get("gt")));
                }
                if !bad.is_empty() {
                    ctx.violation(sub, &format!("tolerance-pair:{}:{}:{}", base, da, db), &format!("{} and {} are {} apart: {}", render17(a), render17(b2), (a - b2).abs(), bad.join("; ")), json!({"input": src, "output": c}));
                }
            },
        );
        ctx.bound(sub, "8 bases x 8 pairs of off-grid numbers: 2e-12 apart inside one 1e-11 cell but on both sides of a 1e-10 boundary (equal), 2e-11 apart (unequal): == in both directions, != < > <= >=, index()", true);
        ctx.sample(sub, json!({"input": "$a: 1.000000000049; $b: 1.000000000051; x{eq: $a == $b}"}));
    }

    // ---- unary functions against real-valued functions ----------------------------------
    let sub = "math-fns";
    let fns: Vec<(&str, fn(f64) -> f64)> = vec![
        ("math.sqrt", |x| x.sqrt()),
        ("math.abs", |x| x.abs()),
        ("math.ceil", |x| x.ceil()),
        ("math.floor", |x| x.floor()),
        ("math.log", |x| x.ln()),
        ("math.cos", |x| x.cos()),
        ("math.sin", |x| x.sin()),
        ("math.tan", |x| x.tan()),
        ("math.acos", |x| x.acos().to_degrees()),
        ("math.asin", |x| x.asin().to_degrees()),
        ("math.atan", |x| x.atan().to_degrees()),
    ];
    let args: Vec<&str> = vec!["0", "1", "-1", "0.5", "-0.5", "2", "4", "9", "0.25", "10", "100", "0.1", "1.5", "3.14159265359", "1e-5", "1e6", "-2"];
    let na = args.len() as u64;
    par(
        ctx,
        sub,
        fns.len() as u64 * na,
        |i| json!({"fn": fns[(i / na) as usize].0, "arg": args[(i % na) as usize]}),
        |i, l| {
            let (name, f) = fns[(i / na) as usize];
            let at = args[(i % na) as usize];
            let x = value_of(at).unwrap();
            let exp = f(x);
            let src = format!("@use \"sass:math\";\na{{b:{}({})}}", name, at);
            l.evals += 1;
            let o = compile(&src, &Cfg::scss());
            l.outcome(o.digest());
            l.validated += 1;
            match &o {
                Outcome::Ok(c) => {
                    let got = first_decl_value(c).unwrap_or_default();
                    let gv = split_num(&got).map(|v| v.0).unwrap_or(f64::NAN);
                    l.nontrivial += 1;
                    let ok = (gv.is_nan() && exp.is_nan()) || gv == exp || (gv - exp).abs() <= 2e-10 + 1e-10 * exp.abs();
                    if !ok {
                        ctx.violation(sub, &format!("math-fn:{}({})", name, at), &format!("{}({}) = {}, real-valued function gives {}", name, at, got, exp), json!({"input": src}));
                    }
                }
                other => ctx.violation(sub, &format!("math-fn:{}({})", name, at), &format!("failed: {}", other.brief()), json!({"input": src})),
            }
        },
    );
    ctx.bound(sub, "11 sass:math functions x 17 arguments against libm", true);
    ctx.sample(sub, json!({"input": "math.sqrt(2)"}));
    ctx.assume("the reference decimal expansion is exact (big integers); at an exact rounding tie both neighbours are accepted; arithmetic is compared with the harness's own IEEE result (same hardware), pow/% within one ulp");
}

/// shortest decimal text that round-trips an f64 without exponent (for building inputs)
fn render17(x: f64) -> String {
    if x == 0.0 {
        return "0".into();
    }
    let s = format!("{:.20}", x);
    let s = s.trim_end_matches('0').trim_end_matches('.').to_string();
    s
}
