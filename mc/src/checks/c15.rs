//! C15 — colours: channels in range, spellings agree, spaces round-trip.
//! names (148, complete), #rgb (4096, complete), #rgba, RGB lattice (quick 33^3 + cube faces,
//! thorough all 2^24: the Sass program loops over a 256x256 slice and emits only failures),
//! function arguments in and one step outside their ranges; reference colour math from CSS.

use crate::core::*;
use crate::models::color as cm;
use crate::models::colornames::NAMED;
use crate::models::css;
use serde_json::json;

fn decls(cssout: &str) -> Vec<(String, String, String)> {
    // (selector, prop, value)
    css::flatten(&css::parse(cssout).unwrap_or_default())
        .into_iter()
        .flat_map(|b| {
            let sel = b.selector.clone();
            b.decls.into_iter().map(move |(p, v)| (sel.clone(), p, v))
        })
        .collect()
}

const SLICE_PROGRAM: &str = r##"
@use "sass:math";
@use "sass:color";
@function chk($c, $r, $g, $b) {
  $bad: ();
  @if red($c) != $r or green($c) != $g or blue($c) != $b { $bad: append($bad, channels); }
  @if math.round(red($c)) != red($c) { $bad: append($bad, non-integer-red); }
  $h: hsl(hue($c), saturation($c), lightness($c));
  @if $h != $c { $bad: append($bad, hsl-accessor-roundtrip); }
  $w: color.hwb(hue($c), color.whiteness($c), color.blackness($c));
  @if $w != $c { $bad: append($bad, hwb-accessor-roundtrip); }
  @if invert(invert($c)) != $c { $bad: append($bad, invert-twice); }
  @if complement(complement($c)) != $c { $bad: append($bad, complement-twice); }
  @if adjust-hue($c, 0deg) != $c { $bad: append($bad, adjust-hue-0); }
  @if lighten($c, 0%) != $c { $bad: append($bad, lighten-0); }
  @if darken($c, 0%) != $c { $bad: append($bad, darken-0); }
  @if saturate($c, 0%) != $c { $bad: append($bad, saturate-0); }
  @if desaturate($c, 0%) != $c { $bad: append($bad, desaturate-0); }
  @if adjust-color($c, $hue: 0deg, $saturation: 0%, $lightness: 0%) != $c { $bad: append($bad, adjust-color-hsl-0); }
  @if scale-color($c, $lightness: 0%, $saturation: 0%) != $c { $bad: append($bad, scale-color-hsl-0); }
  @if change-color($c, $hue: hue($c)) != $c { $bad: append($bad, change-color-own-hue); }
  @if change-color($c, $lightness: lightness($c)) != $c { $bad: append($bad, change-color-own-lightness); }
  @if mix($c, #123456, 100%) != $c { $bad: append($bad, mix-100); }
  @if mix(#123456, $c, 0%) != $c { $bad: append($bad, mix-0); }
  @if mix($c, $c, 37%) != $c { $bad: append($bad, mix-self); }
  @if opacify(transparentize($c, 1), 1) != $c { $bad: append($bad, opacity-roundtrip); }
  @if alpha($c) != 1 { $bad: append($bad, alpha); }
  @if rgba($c, 1) != $c or rgb($r $g $b) != $c or rgba($r, $g, $b, 1) != $c or rgb($r, $g, $b) != $c { $bad: append($bad, rgb-spellings); }
  @return $bad;
}
"##;

fn slice_source(r: u32, gs: &str, bs: &str) -> String {
    format!(
        "{}$r: {};\n@each $g in {} {{ @each $b in {} {{ $bad: chk(rgb($r, $g, $b), $r, $g, $b); @if length($bad) > 0 {{ f {{ c: $r $g $b; bad: $bad; }} }} }} }}\nok {{ done: yes }}\n",
        SLICE_PROGRAM, r, gs, bs
    )
}

fn lattice33() -> Vec<u32> {
    let mut v: Vec<u32> = (0..32).map(|i| i * 8).collect();
    v.push(255);
    v
}

fn list_of(v: &[u32]) -> String {
    format!("({})", v.iter().map(|x| x.to_string()).collect::<Vec<_>>().join(", "))
}

fn run_slices(ctx: &Ctx, sub: &str, rs: &[u32], gs: &[u32], bs: &[u32], bound: &str) {
    let gl = list_of(gs);
    let bl = list_of(bs);
    let per = (gs.len() * bs.len()) as u64;
    par(
        ctx,
        sub,
        rs.len() as u64,
        |i| json!({"r": rs[i as usize]}),
        |i, l| {
            let r = rs[i as usize];
            let src = slice_source(r, &gl, &bl);
            l.evals += 1;
            let o = compile(&src, &Cfg::scss());
            l.outcome(o.digest());
            match &o {
                Outcome::Ok(c) => {
                    let d = decls(c);
                    if !d.iter().any(|(s, p, _)| s == "ok" && p == "done") {
                        ctx.violation(sub, &format!("slice:r={}", r), "slice program did not run to its end", json!({"r": r}));
                        return;
                    }
                    l.validated += per;
                    l.nontrivial += per;
                    l.count("colours_checked", per);
                    let mut cur = String::new();
                    for (s, p, v) in d {
                        if s == "f" && p == "c" {
                            cur = v;
                        } else if s == "f" && p == "bad" {
                            for law in v.split_whitespace() {
                                ctx.violation(
                                    sub,
                                    &format!("colour-law:{}:rgb({})", law, cur.replace(' ', ",")),
                                    &format!("law `{}` fails for rgb({})", law, cur.replace(' ', ", ")),
                                    json!({"colour": cur, "law": law, "program": "see SLICE_PROGRAM in checks/c15.rs"}),
                                );
                            }
                        }
                    }
                }
                other => ctx.violation(sub, &format!("slice:r={}", r), &format!("slice program failed: {}", other.brief()), json!({"r": r})),
            }
        },
    );
    ctx.bound(sub, bound, true);
    ctx.sample(sub, json!({"colour": "rgb(137, 0, 0)", "laws": "channels, hsl/hwb accessor round trips, invert/complement twice, by-0 identities, mix 0/100, opacity, spellings"}));
}

pub fn run(ctx: &Ctx) {
    // the watchdog's clock also covers the harness's own oracle work (reference models, DOM enumeration);
    // the limit is generous so that machine load cannot turn a slow case into a verdict
    ctx.hang_limit_s.store(600, std::sync::atomic::Ordering::Relaxed);
    // ---- names ---------------------------------------------------------------------
    let sub = "names";
    par(
        ctx,
        sub,
        NAMED.len() as u64,
        |i| json!({"name": NAMED[i as usize].0}),
        |i, l| {
            let (name, hex) = NAMED[i as usize];
            let (r, g, b) = ((hex >> 16) & 255, (hex >> 8) & 255, hex & 255);
            // (f*: the name must behave like its hex spelling under the opacity functions too)
            let src = format!(
                "a{{r: red({n}); g: green({n}); b: blue({n}); e1: ({n} == #{h:06x}); e2: ({n} == rgb({r},{g},{b})); e3: ({N} == {n}); t: type-of({n}); f1: alpha(fade-out({n}, 0.25)); f2: (transparentize({n}, 0.3) == transparentize(#{h:06x}, 0.3)); f3: alpha(fade-out({n}, 1)); f4: alpha(opacify(fade-out({n}, 0.5), 0.25)); f5: (fade-in(rgba({n}, 0.5), 0.5) == {n}); f6: alpha({n})}}",
                n = name, N = name.to_uppercase(), h = hex, r = r, g = g, b = b
            );
            l.evals += 1;
            let o = compile(&src, &Cfg::scss());
            l.outcome(o.digest());
            l.validated += 1;
            l.nontrivial += 1;
            let mut want = vec![("r", r.to_string()), ("g", g.to_string()), ("b", b.to_string()), ("e1", "true".into()), ("e2", "true".into()), ("e3", "true".into()), ("t", "color".into())];
            if name != "transparent" {
                want.extend(vec![("f1", "0.75".to_string()), ("f2", "true".into()), ("f3", "0".into()), ("f4", "0.75".into()), ("f5", "true".into()), ("f6", "1".into())]);
            }
            match &o {
                Outcome::Ok(c) => {
                    let d = decls(c);
                    for (p, w) in want {
                        let got = d.iter().find(|x| x.1 == p).map(|x| x.2.clone());
                        if got.as_deref() != Some(w.as_str()) {
                            ctx.violation(sub, &format!("name:{}:{}", name, p), &format!("named colour {}: {} is {:?}, CSS table says {}", name, p, got, w), json!({"input": src}));
                        }
                    }
                }
                other => ctx.violation(sub, &format!("name:{}", name), &format!("named colour not usable: {}", other.brief()), json!({"input": src})),
            }
            // identical compressed print for every spelling
            let src2 = format!("a{{a: {n}; b: #{h:06x}; c: rgb({r},{g},{b}); d: rgba({r},{g},{b},1); e: {N}}}", n = name, N = name.to_uppercase(), h = hex, r = r, g = g, b = b);
            l.evals += 1;
            let o2 = compile(&src2, &Cfg::scss().compressed(true));
            l.validated += 1;
            if let Outcome::Ok(c) = &o2 {
                let d = decls(c);
                let vals: Vec<&str> = d.iter().map(|x| x.2.as_str()).collect();
                if vals.len() != 5 || vals.iter().any(|v| *v != vals[0]) {
                    ctx.violation(sub, &format!("name:{}:compressed-spellings", name), &format!("spellings of {} print differently in compressed mode: {:?}", name, vals), json!({"input": src2, "output": c}));
                }
            } else {
                ctx.violation(sub, &format!("name:{}:compressed", name), &format!("compressed compile failed: {}", o2.brief()), json!({"input": src2}));
            }
        },
    );
    ctx.bound(sub, "all 148 CSS named colours (independent table): channels, equality with the hex and rgb() spellings, case, compressed spellings, and the opacity functions (fade-out / transparentize / opacify / fade-in) applied to the bare name", true);
    ctx.sample(sub, json!({"input": "a{r: red(rebeccapurple); e1: (rebeccapurple == #663399)}"}));

    // ---- short hex -----------------------------------------------------------------
    let sub = "short-hex";
    par(
        ctx,
        sub,
        16,
        |i| json!({"first_digit": format!("{:x}", i)}),
        |i, l| {
            // one compile per first digit: 256 #rgb colours and 256 x 16 #rgba colours
            let mut src = String::from("@use \"sass:math\";\n");
            for gb in 0..256u32 {
                let (r, g, b) = (i as u32, gb >> 4, gb & 15);
                let short = format!("#{:x}{:x}{:x}", r, g, b);
                let long = format!("#{:x}{:x}{:x}{:x}{:x}{:x}", r, r, g, g, b, b);
                src.push_str(&format!(
                    "@if {s} != {l} or red({s}) != {rr} or green({s}) != {gg} or blue({s}) != {bb} {{ f{{c: \"{s}\"}} }}\n",
                    s = short, l = long, rr = r * 17, gg = g * 17, bb = b * 17
                ));
                for a in 0..16u32 {
                    let s4 = format!("#{:x}{:x}{:x}{:x}", r, g, b, a);
                    let l8 = format!("#{:x}{:x}{:x}{:x}{:x}{:x}{:x}{:x}", r, r, g, g, b, b, a, a);
                    src.push_str(&format!(
                        "@if {s} != {l} or {s} != rgba({rr},{gg},{bb},math.div({aa},255)) or alpha({s}) < 0 or alpha({s}) > 1 {{ f{{c: \"{s}\"}} }}\n",
                        s = s4, l = l8, rr = r * 17, gg = g * 17, bb = b * 17, aa = a * 17
                    ));
                }
            }
            src.push_str("ok{done:yes}\n");
            l.evals += 1;
            let o = compile(&src, &Cfg::scss());
            l.outcome(o.digest());
            match &o {
                Outcome::Ok(c) => {
                    l.validated += 256 * 17;
                    l.nontrivial += 256 * 17;
                    for (s, p, v) in decls(c) {
                        if s == "f" && p == "c" {
                            ctx.violation(sub, &format!("short-hex:{}", v), &format!("short hex {} does not equal its long form / rgba() spelling", v), json!({"colour": v}));
                        }
                    }
                }
                other => ctx.violation(sub, &format!("short-hex:digit{}", i), &format!("program failed: {}", other.brief()), json!({})),
            }
        },
    );
    ctx.bound(sub, "all 4096 #rgb and all 65536 #rgba literals against their long and functional spellings", true);
    ctx.sample(sub, json!({"input": "@if #abc != #aabbcc { f{c: \"#abc\"} }"}));

    // ---- lattice / cube --------------------------------------------------------------
    let all: Vec<u32> = (0..256).collect();
    if ctx.quick() {
        let lat = lattice33();
        run_slices(ctx, "lattice33", &lat, &lat, &lat, "33^3 lattice (steps of 8, plus 255) of the RGB cube, 23 laws per colour");
        // faces of the cube: r in {0,255} x all g x all b (the other faces follow by the lattice of r)
        run_slices(ctx, "cube-faces", &[0, 255], &all, &all, "two full faces of the RGB cube (r in {0,255}, all 256^2 g,b)");
        run_slices(ctx, "slice-137", &[137], &all, &all, "the full r=137 slice (256^2 colours)");
    } else {
        run_slices(ctx, "cube", &all, &all, &all, "all 2^24 RGB colours, 23 laws per colour");
    }

    // ---- accessors vs reference colour math (quick lattice) ---------------------------
    let sub = "hsl-reference";
    let lat = if ctx.quick() { lattice33() } else { (0..256).step_by(3).chain([255]).collect() };
    let ll = list_of(&lat);
    par(
        ctx,
        sub,
        lat.len() as u64,
        |i| json!({"r": lat[i as usize]}),
        |i, l| {
            let r = lat[i as usize];
            let src = format!(
                "@use \"sass:color\";\n$r: {};\n@each $g in {} {{ @each $b in {} {{ $c: rgb($r,$g,$b); c {{ v: $g $b hue($c) saturation($c) lightness($c) color.whiteness($c) color.blackness($c) }} }} }}",
                r, ll, ll
            );
            l.evals += 1;
            let o = compile(&src, &Cfg::scss());
            l.outcome(o.digest());
            let Outcome::Ok(c) = &o else {
                ctx.violation(sub, &format!("hsl-ref:r={}", r), &format!("program failed: {}", o.brief()), json!({}));
                return;
            };
            for (_, _, v) in decls(c) {
                let parts: Vec<&str> = v.split_whitespace().collect();
                if parts.len() != 7 {
                    ctx.violation(sub, &format!("hsl-ref:unreadable:{}", v), "unreadable accessor output", json!({"value": v}));
                    continue;
                }
                let g: f64 = parts[0].parse().unwrap_or(-1.0);
                let b: f64 = parts[1].parse().unwrap_or(-1.0);
                let num = |s: &str| crate::checks::c08::split_num(s).map(|x| x.0).unwrap_or(f64::NAN);
                let (h, s, li, w, bl) = (num(parts[2]), num(parts[3]), num(parts[4]), num(parts[5]), num(parts[6]));
                let (eh, es, el) = cm::rgb_to_hsl(r as f64, g, b);
                let (_, ew, eb) = cm::rgb_to_hwb(r as f64, g, b);
                l.validated += 1;
                l.nontrivial += 1;
                let hd = ((h - eh).abs()).min(360.0 - (h - eh).abs());
                if hd > 1e-6 || (s - es).abs() > 1e-6 || (li - el).abs() > 1e-6 || (w - ew).abs() > 1e-6 || (bl - eb).abs() > 1e-6 {
                    ctx.violation(
                        sub,
                        &format!("hsl-ref:rgb({},{},{})", r, g, b),
                        &format!("accessors of rgb({},{},{}): hsl {} {} {} hwb-w/b {} {}; reference hsl {:.6} {:.6} {:.6} w/b {:.6} {:.6}", r, g, b, h, s, li, w, bl, eh, es, el, ew, eb),
                        json!({"colour": [r, g, b]}),
                    );
                }
            }
        },
    );
    ctx.bound(sub, "hue/saturation/lightness/whiteness/blackness of every lattice colour against the CSS conversion formulas", true);
    ctx.sample(sub, json!({"input": "lightness(rgb(137,0,0))", "reference": "26.8627450980%"}));

    // ---- constructors from HSL / HWB against reference ------------------------------
    let sub = "hsl-constructors";
    // (hues far outside [0, 360), on both sides: normalisation must be a true modulo)
    let mut hues: Vec<i32> = (-60..=420).step_by(ctx.pick(15, 5)).collect();
    hues.extend([-720, -719, -600, -480, -361, -300, -270, -241, -240, -239, -180, -90, 480, 719, 720, 1080]);
    let pcts: Vec<i32> = ctx.pick(vec![-10, 0, 1, 25, 33, 50, 67, 75, 99, 100, 110], (-10..=110).step_by(5).collect());
    let nh = hues.len() as u64;
    par(
        ctx,
        sub,
        nh,
        |i| json!({"hue": hues[i as usize]}),
        |i, l| {
            let h = hues[i as usize];
            let pl = format!("({})", pcts.iter().map(|p| format!("{}%", p)).collect::<Vec<_>>().join(", "));
            let src = format!(
                "@use \"sass:color\";\n$h: {};\n@each $s in {pl} {{ @each $l in {pl} {{ $c: hsl($h, $s, $l); c {{ v: hsl $s $l red($c) green($c) blue($c) alpha($c) }} @if $s >= 0% and $l >= 0% and $s <= 100% and $l <= 100% {{ $w: color.hwb($h, $s, $l); c {{ v: hwb $s $l red($w) green($w) blue($w) alpha($w) }} }} }} }}",
                h, pl = pl
            );
            l.evals += 1;
            let o = compile(&src, &Cfg::scss());
            l.outcome(o.digest());
            let Outcome::Ok(c) = &o else {
                // out-of-range arguments may legitimately be rejected as a whole only if the
                // reference rejects them too; hsl() clamps, so any failure is reported
                ctx.violation(sub, &format!("hsl-ctor:h={}", h), &format!("program failed: {}", o.brief()), json!({"input": src}));
                return;
            };
            for (_, _, v) in decls(c) {
                let p: Vec<&str> = v.split_whitespace().collect();
                if p.len() != 7 {
                    continue;
                }
                let pct = |s: &str| s.trim_end_matches('%').parse::<f64>().unwrap_or(f64::NAN);
                let (a, b2) = (pct(p[1]), pct(p[2]));
                let got: Vec<f64> = p[3..7].iter().map(|x| x.parse::<f64>().unwrap_or(f64::NAN)).collect();
                let exp = if p[0] == "hsl" { cm::hsl_to_rgb(h as f64, a, b2) } else { cm::hwb_to_rgb(h as f64, a.clamp(0.0, 100.0), b2.clamp(0.0, 100.0)) };
                l.validated += 1;
                l.nontrivial += 1;
                let mut bad = false;
                for (gv, ev) in got[..3].iter().zip([exp.0, exp.1, exp.2]) {
                    // invariant: integer channel in range
                    if !(0.0..=255.0).contains(gv) || gv.fract() != 0.0 {
                        bad = true;
                    }
                    let er = cm::round_channel(ev);
                    if (gv - er).abs() > 0.0 && !(cm::tie_distance(ev) < 1e-6 && (gv - er).abs() <= 1.0) {
                        bad = true;
                    }
                }
                if !(0.0..=1.0).contains(&got[3]) {
                    bad = true;
                }
                if bad {
                    ctx.violation(
                        sub,
                        &format!("hsl-ctor:{}({},{}%,{}%)", p[0], h, a, b2),
                        &format!("{}({}, {}%, {}%) = rgb({}, {}, {}) alpha {}; reference rgb({:.4}, {:.4}, {:.4})", p[0], h, a, b2, got[0], got[1], got[2], got[3], exp.0, exp.1, exp.2),
                        json!({"ctor": p[0], "h": h, "a": a, "b": b2}),
                    );
                }
            }
        },
    );
    ctx.bound(sub, "hsl()/hwb() over a hue x percentage grid incl. out-of-range values, against the CSS formulas; channel range invariant", true);
    ctx.sample(sub, json!({"input": "hsl(420, 110%, -10%)"}));

    // ---- mix() with transparent operands at the ends of the weight range ------------------------------
    {
        let sub = "mix-alpha";
        let cols = ["255, 0, 0", "0, 0, 255", "12, 200, 99", "0, 0, 0"];
        let alphas = ["0", "0.5", "1"];
        let weights = ["0%", "100%", "50%", "25%"];
        let n = (cols.len() * cols.len() * alphas.len() * alphas.len()) as u64;
        par(
            ctx,
            sub,
            n,
            |i| json!({"index": i}),
            |i, l| {
                let i = i as usize;
                let (c1, c2) = (cols[i % 4], cols[(i / 4) % 4]);
                let (a1, a2) = (alphas[(i / 16) % 3], alphas[i / 48]);
                let mut src = format!("$a: rgba({}, {});\n$b: rgba({}, {});\n", c1, a1, c2, a2);
                for w in weights {
                    src.push_str(&format!("$m: mix($a, $b, {w}); w{{w: \"{w}\"; r: red($m); g: green($m); b: blue($m); al: alpha($m); isa: ($m == $a); isb: ($m == $b)}}\n", w = w));
                }
                l.evals += 1;
                let o = compile(&src, &Cfg::scss());
                l.outcome(o.digest());
                l.validated += 1;
                let Outcome::Ok(c) = &o else {
                    ctx.violation(sub, &format!("mix-alpha:{}:{}:{}:{}", c1, a1, c2, a2), &format!("program failed: {}", o.brief()), json!({"input": src}));
                    return;
                };
                l.nontrivial += 1;
                let d = decls(c);
                // decls come in groups of 7 per weight
                let mut k = 0;
                while k + 6 < d.len() {
                    let g: Vec<&str> = d[k..k + 7].iter().map(|x| x.2.as_str()).collect();
                    k += 7;
                    let w = g[0].trim_matches('"');
                    let mut bad = Vec::new();
                    for (nm, v) in [("red", g[1]), ("green", g[2]), ("blue", g[3])] {
                        let x: f64 = v.parse().unwrap_or(f64::NAN);
                        if !(0.0..=255.0).contains(&x) || x.fract() != 0.0 {
                            bad.push(format!("{}() = {}", nm, v));
                        }
                    }
                    let al: f64 = g[4].parse().unwrap_or(f64::NAN);
                    if !(0.0..=1.0).contains(&al) {
                        bad.push(format!("alpha() = {}", g[4]));
                    }
                    if w == "100%" && g[5] != "true" {
                        bad.push("mix($a, $b, 100%) is not $a".into());
                    }
                    if w == "0%" && g[6] != "true" {
                        bad.push("mix($a, $b, 0%) is not $b".into());
                    }
                    if !bad.is_empty() {
                        ctx.violation(sub, &format!("mix-alpha:{}:{}:{}:{}:{}", c1, a1, c2, a2, w), &format!("mix(rgba({}, {}), rgba({}, {}), {}): {}", c1, a1, c2, a2, w, bad.join("; ")), json!({"input": src, "output": c}));
                        return;
                    }
                }
            },
        );
        ctx.bound(sub, "4 x 4 colours x 3 x 3 alphas (0, 0.5, 1) x weights 0%, 25%, 50%, 100%: channels and alpha in range; weight 100% returns the first operand, 0% the second", true);
        ctx.sample(sub, json!({"input": "mix(red, rgba(0, 0, 255, 0), 0%)"}));
    }

    // ---- alpha arguments of the constructors: percentages and numbers, in and out of range ----------
    {
        let sub = "alpha-arguments";
        let shapes: &[&str] = &[
            "rgb(10, 20, 30, \u{1})", "rgba(10, 20, 30, \u{1})", "rgb(10 20 30 / \u{1})", "rgba(#0a141e, \u{1})", "hsl(120, 50%, 40%, \u{1})", "hsla(120, 50%, 40%, \u{1})", "hsl(120 50% 40% / \u{1})",
            "hsla(120deg 50% 40% / \u{1})", "color.hwb(120 10% 20% / \u{1})", "color.hwb(120, 10%, 20%, \u{1})", "change-color(#123456, $alpha: \u{1})",
        ];
        // (argument text, the alpha it stands for after clamping; None = not accepted by every shape)
        let alphas: &[(&str, f64)] = &[
            ("0", 0.0), ("0.25", 0.25), ("1", 1.0), ("1.5", 1.0), ("-0.5", 0.0), ("0%", 0.0), ("25%", 0.25), ("100%", 1.0), ("150%", 1.0), ("-20%", 0.0), ("0.999999999999", 1.0), ("100.0000000001%", 1.0),
        ];
        let n = (shapes.len() * alphas.len()) as u64;
        par(
            ctx,
            sub,
            n,
            |i| json!({"call": shapes[i as usize % shapes.len()].replace('\u{1}', alphas[i as usize / shapes.len()].0)}),
            |i, l| {
                let shape = shapes[i as usize % shapes.len()];
                let (arg, want) = alphas[i as usize / shapes.len()];
                let call = shape.replace('\u{1}', arg);
                // change-color takes numbers only and rejects what is out of range: judged by the range invariant alone
                let strict = shape.starts_with("change-color");
                let src = format!("@use \"sass:color\";\n$c: {};\na{{al: alpha($c); r: red($c); g: green($c); b: blue($c); op: opacity($c); same: ($c == rgba($c, alpha($c)))}}", call);
                l.evals += 1;
                let o = compile(&src, &Cfg::scss());
                l.outcome(o.digest());
                l.validated += 1;
                match &o {
                    Outcome::Ok(c) => {
                        l.nontrivial += 1;
                        let d = decls(c);
                        let get = |p: &str| d.iter().find(|x| x.1 == p).map(|x| x.2.clone()).unwrap_or_default();
                        let al: f64 = get("al").parse().unwrap_or(f64::NAN);
                        let mut bad = Vec::new();
                        if !(0.0..=1.0).contains(&al) {
                            bad.push(format!("alpha() is {} (outside [0, 1])", get("al")));
                        } else if !strict && (al - want).abs() > 1e-9 {
                            bad.push(format!("alpha() is {}, the argument {} stands for {}", get("al"), arg, want));
                        }
                        if get("op") != get("al") || get("same") != "true" {
                            bad.push(format!("opacity() = {}, alpha() = {}, round trip through rgba() equal: {}", get("op"), get("al"), get("same")));
                        }
                        for ch in ["r", "g", "b"] {
                            let v: f64 = get(ch).parse().unwrap_or(f64::NAN);
                            if !(0.0..=255.0).contains(&v) || v.fract() != 0.0 {
                                bad.push(format!("{}() is {}", ch, get(ch)));
                            }
                        }
                        if !bad.is_empty() {
                            ctx.violation(sub, &format!("alpha-arg:{}", call), &bad.join("; "), json!({"input": src, "output": c}));
                        }
                    }
                    Outcome::Err(_) => {
                        // rejecting an out-of-range or wrongly typed alpha is within the range invariant
                        if !strict && (0.0..=1.0).contains(&want) && !arg.starts_with('-') && !arg.starts_with("1.5") && !arg.starts_with("150") && !arg.starts_with("100.0") {
                            ctx.violation(sub, &format!("alpha-arg:{}", call), &format!("a legal alpha is rejected: {}", o.brief()), json!({"input": src}));
                        } else {
                            l.count("rejected", 1);
                        }
                    }
                    Outcome::Panic(p2) => ctx.violation(sub, &format!("alpha-arg:{}", call), &format!("panic: {}", p2), json!({"input": src})),
                }
            },
        );
        ctx.bound(sub, "11 constructor shapes taking an alpha (rgb/rgba legacy, slash and colour forms, hsl/hsla legacy and slash forms, hwb, change-color) x 12 alpha spellings (numbers and percentages at, inside, outside and within 1e-11 of [0, 1]): alpha in [0, 1] and equal to the clamped argument, opacity() agrees, channels are integers in range", true);
        ctx.sample(sub, json!({"input": "alpha(hsla(120, 50%, 40%, 150%))", "expected": 1}));
    }

    // ---- function arguments in and just outside their ranges --------------------------
    let sub = "arg-ranges";
    let colours = ["#000", "#fff", "#808080", "rgb(137,0,0)", "#12345680", "hsl(200, 30%, 40%)", "rgba(255,0,255,0)"];
    #[derive(Clone)]
    struct F {
        call: &'static str, // with {c} and {x}
        args: &'static [&'static str],
        // which args are legal
        legal: fn(&str) -> bool,
    }
    fn pct_0_100(a: &str) -> bool {
        let v: f64 = a.trim_end_matches('%').parse().unwrap_or(f64::NAN);
        (0.0..=100.0).contains(&v)
    }
    fn pct_pm100(a: &str) -> bool {
        let v: f64 = a.trim_end_matches('%').parse().unwrap_or(f64::NAN);
        (-100.0..=100.0).contains(&v)
    }
    fn unit_0_1(a: &str) -> bool {
        let v: f64 = a.parse().unwrap_or(f64::NAN);
        (0.0..=1.0).contains(&v)
    }
    fn pm255(a: &str) -> bool {
        let v: f64 = a.parse().unwrap_or(f64::NAN);
        (-255.0..=255.0).contains(&v)
    }
    fn ch_0_255(a: &str) -> bool {
        let v: f64 = a.parse().unwrap_or(f64::NAN);
        (0.0..=255.0).contains(&v)
    }
    fn any(_: &str) -> bool {
        true
    }
    const PCTS: &[&str] = &["-1%", "0%", "0.5%", "50%", "100%", "101%"];
    const SPCTS: &[&str] = &["-101%", "-100%", "-50%", "0%", "50%", "100%", "101%"];
    const UNITS01: &[&str] = &["-0.1", "0", "0.5", "1", "1.1"];
    const CH: &[&str] = &["-256", "-255", "-1", "0", "1", "255", "256"];
    const CH0: &[&str] = &["-1", "0", "127.5", "255", "256"];
    const DEGS: &[&str] = &["-720deg", "-1deg", "0deg", "360deg", "361deg", "1e6deg"];
    let fns: Vec<F> = vec![
        F { call: "lighten({c}, {x})", args: PCTS, legal: pct_0_100 },
        F { call: "darken({c}, {x})", args: PCTS, legal: pct_0_100 },
        F { call: "saturate({c}, {x})", args: PCTS, legal: pct_0_100 },
        F { call: "desaturate({c}, {x})", args: PCTS, legal: pct_0_100 },
        F { call: "opacify({c}, {x})", args: UNITS01, legal: unit_0_1 },
        F { call: "transparentize({c}, {x})", args: UNITS01, legal: unit_0_1 },
        F { call: "fade-in({c}, {x})", args: UNITS01, legal: unit_0_1 },
        F { call: "fade-out({c}, {x})", args: UNITS01, legal: unit_0_1 },
        F { call: "mix({c}, #abcdef, {x})", args: PCTS, legal: pct_0_100 },
        F { call: "invert({c}, {x})", args: PCTS, legal: pct_0_100 },
        F { call: "adjust-hue({c}, {x})", args: DEGS, legal: any },
        F { call: "adjust-color({c}, $red: {x})", args: CH, legal: pm255 },
        F { call: "adjust-color({c}, $blue: {x}, $green: {x})", args: CH, legal: pm255 },
        F { call: "adjust-color({c}, $alpha: {x})", args: &["-1.1", "-1", "-0.5", "0", "0.5", "1", "1.1"], legal: |a| a.parse::<f64>().map(|v| (-1.0..=1.0).contains(&v)).unwrap_or(false) },
        F { call: "adjust-color({c}, $lightness: {x})", args: SPCTS, legal: pct_pm100 },
        F { call: "adjust-color({c}, $saturation: {x})", args: SPCTS, legal: pct_pm100 },
        F { call: "adjust-color({c}, $hue: {x})", args: DEGS, legal: any },
        F { call: "scale-color({c}, $red: {x})", args: SPCTS, legal: pct_pm100 },
        F { call: "scale-color({c}, $lightness: {x})", args: SPCTS, legal: pct_pm100 },
        F { call: "scale-color({c}, $saturation: {x}, $alpha: {x})", args: SPCTS, legal: pct_pm100 },
        F { call: "change-color({c}, $red: {x})", args: CH0, legal: ch_0_255 },
        F { call: "change-color({c}, $alpha: {x})", args: UNITS01, legal: unit_0_1 },
        F { call: "change-color({c}, $lightness: {x})", args: PCTS, legal: pct_0_100 },
        F { call: "change-color({c}, $saturation: {x})", args: PCTS, legal: pct_0_100 },
        F { call: "rgba({c}, {x})", args: UNITS01, legal: any },
        F { call: "rgb({x}, {x}, {x})", args: CH0, legal: any },
        F { call: "rgba({x}, 0, 255, 0.5)", args: CH0, legal: any },
    ];
    let mut cases: Vec<(String, bool)> = Vec::new();
    for f in &fns {
        for c in colours {
            for a in f.args {
                cases.push((f.call.replace("{c}", c).replace("{x}", a), (f.legal)(a)));
            }
        }
    }
    par(
        ctx,
        sub,
        cases.len() as u64,
        |i| json!({"call": cases[i as usize].0}),
        |i, l| {
            let (call, legal) = &cases[i as usize];
            let src = format!("$c: {}; a{{r: red($c); g: green($c); b: blue($c); a: alpha($c)}}", call);
            l.evals += 1;
            let o = compile(&src, &Cfg::scss());
            l.outcome(o.digest());
            l.validated += 1;
            match (&o, legal) {
                (Outcome::Panic(p), _) => ctx.violation(sub, &format!("arg-range:{}", call), &format!("panic: {}", p), json!({"input": src})),
                (Outcome::Err(e), true) => ctx.violation(sub, &format!("arg-range:{}", call), &format!("legal argument rejected: {}", e.message), json!({"input": src})),
                (Outcome::Ok(c), _) => {
                    l.nontrivial += 1;
                    let d = decls(c);
                    for (_, p, v) in d {
                        let x: f64 = v.parse().unwrap_or(f64::NAN);
                        let ok = if p == "a" { (0.0..=1.0).contains(&x) } else { (0.0..=255.0).contains(&x) && x.fract() == 0.0 };
                        if !ok {
                            ctx.violation(sub, &format!("arg-range:{}:{}", call, p), &format!("channel {} = {} out of range / non-integer after {}", p, v, call), json!({"input": src, "output": c}));
                        }
                    }
                    if !legal {
                        l.count("illegal_argument_accepted_with_in_range_result", 1);
                    }
                }
                (Outcome::Err(_), false) => l.count("illegal_argument_rejected", 1),
            }
        },
    );
    ctx.bound(sub, "27 colour-function call shapes x 7 colours x arguments at, inside and one step outside the legal range", true);
    ctx.sample(sub, json!({"call": "lighten(rgb(137,0,0), 101%)", "expected": "error, or channels in range"}));

    // ---- scale / adjust / change against reference math ------------------------------
    let sub = "adjust-reference";
    let lat: Vec<u32> = vec![0, 1, 64, 127, 128, 200, 254, 255];
    let deltas: Vec<i32> = vec![-255, -100, -1, 0, 1, 100, 255];
    let scales: Vec<i32> = vec![-100, -50, -1, 0, 1, 50, 100];
    let n3 = (lat.len() * lat.len() * lat.len()) as u64;
    par(
        ctx,
        sub,
        n3,
        |i| json!({"index": i}),
        |i, l| {
            let nl = lat.len() as u64;
            let (r, g, b) = (lat[(i / (nl * nl)) as usize], lat[((i / nl) % nl) as usize], lat[(i % nl) as usize]);
            let mut src = format!("$c: rgb({},{},{});\n", r, g, b);
            for d in &deltas {
                src.push_str(&format!("$x: adjust-color($c, $red: {d}, $green: {d}); adj{{v: {d} red($x) green($x) blue($x)}}\n", d = d));
            }
            for s in &scales {
                src.push_str(&format!("$x: scale-color($c, $red: {s}%, $blue: {s}%); scl{{v: {s} red($x) green($x) blue($x)}}\n", s = s));
            }
            for v in [0, 128, 255] {
                src.push_str(&format!("$x: change-color($c, $green: {v}); chg{{v: {v} red($x) green($x) blue($x)}}\n", v = v));
            }
            l.evals += 1;
            let o = compile(&src, &Cfg::scss());
            l.outcome(o.digest());
            let Outcome::Ok(c) = &o else {
                ctx.violation(sub, &format!("adjust-ref:rgb({},{},{})", r, g, b), &format!("program failed: {}", o.brief()), json!({"input": src}));
                return;
            };
            for (sel, _, v) in decls(c) {
                let p: Vec<f64> = v.split_whitespace().map(|x| x.parse().unwrap_or(f64::NAN)).collect();
                if p.len() != 4 {
                    continue;
                }
                let (rf, gf, bf) = (r as f64, g as f64, b as f64);
                let exp = match sel.as_str() {
                    "adj" => ((rf + p[0]).clamp(0.0, 255.0), (gf + p[0]).clamp(0.0, 255.0), bf),
                    "scl" => {
                        let sc = |x: f64| {
                            let s = p[0] / 100.0;
                            if s > 0.0 {
                                x + (255.0 - x) * s
                            } else {
                                x + x * s
                            }
                        };
                        (sc(rf), gf, sc(bf))
                    }
                    _ => (rf, p[0], bf),
                };
                l.validated += 1;
                l.nontrivial += 1;
                let okc = |got: f64, e: f64| (got - cm::round_channel(e)).abs() == 0.0 || (cm::tie_distance(e) < 1e-6 && (got - cm::round_channel(e)).abs() <= 1.0);
                if !(okc(p[1], exp.0) && okc(p[2], exp.1) && okc(p[3], exp.2)) {
                    ctx.violation(
                        sub,
                        &format!("adjust-ref:{}:rgb({},{},{}):{}", sel, r, g, b, p[0]),
                        &format!("{} by {} on rgb({},{},{}) gives rgb({},{},{}), reference rgb({},{},{})", sel, p[0], r, g, b, p[1], p[2], p[3], exp.0, exp.1, exp.2),
                        json!({"colour": [r, g, b], "op": sel, "amount": p[0]}),
                    );
                }
            }
        },
    );
    ctx.bound(sub, "adjust-/scale-/change-color on RGB channels over an 8^3 colour lattice x 7 amounts, against the documented formulas", true);
    ctx.sample(sub, json!({"input": "scale-color(rgb(64,127,200), $red: 50%, $blue: 50%)"}));
    // ---- scale-color on RGB channels against exact integer arithmetic --------------------------
    let sub = "scale-exact";
    let den: i64 = ctx.pick(100, 1000); // percentages in steps of 1% (thorough 0.1%)
    par(
        ctx,
        sub,
        256,
        |i| json!({"channel": i}),
        |i, l| {
            let c = i as i64;
            let step = if den == 100 { "1%" } else { "0.1%" };
            let src = format!(
                "@for $p from {lo} through {hi} {{ $x: scale-color(rgb({c}, {d}, {c}), $red: $p * {step}, $green: $p * {step}, $blue: $p * {step}); s {{ v: $p red($x) green($x) blue($x); }} }}\n",
                lo = -den,
                hi = den,
                c = c,
                d = 255 - c,
                step = step
            );
            l.evals += 1;
            let o = compile(&src, &Cfg::scss());
            l.outcome(o.digest());
            let Outcome::Ok(css) = &o else {
                ctx.violation(sub, &format!("scale-exact:{}", c), &format!("program failed: {}", o.brief()), json!({"input": src}));
                return;
            };
            // exact value of the scaled channel is N / den with N an integer; Sass rounds halves up
            let exact = |ch: i64, p: i64| -> i64 {
                let n = if p < 0 { ch * (den + p) } else { den * ch + (255 - ch) * p };
                (2 * n + den) / (2 * den)
            };
            let mut seen = 0;
            for (_, _, v) in decls(css) {
                let q: Vec<i64> = v.split_whitespace().map(|x| x.parse().unwrap_or(i64::MIN)).collect();
                if q.len() != 4 {
                    continue;
                }
                seen += 1;
                l.validated += 1;
                let want = (exact(c, q[0]), exact(255 - c, q[0]), exact(c, q[0]));
                if (q[1], q[2], q[3]) != want {
                    ctx.violation(
                        sub,
                        &format!("scale-exact:{}:{}", c, q[0]),
                        &format!("scale-color(rgb({c}, {d}, {c}), $red/$green/$blue: {p} x {step}) gives rgb({}, {}, {}); exact arithmetic with halves rounded up gives rgb({}, {}, {})", q[1], q[2], q[3], want.0, want.1, want.2, c = c, d = 255 - c, p = q[0], step = step),
                        json!({"input": src, "percent_steps": q[0]}),
                    );
                    return;
                }
            }
            if seen as i64 == 2 * den + 1 {
                l.nontrivial += 1;
            } else {
                ctx.violation(sub, &format!("scale-exact:{}:count", c), &format!("expected {} results, read {}", 2 * den + 1, seen), json!({"input": src}));
            }
        },
    );
    ctx.bound(sub, "scale-color on all three RGB channels for every channel value 0..255 x every percentage -100%..100% in steps of 1% (thorough 0.1%), against exact integer arithmetic (halves round up)", true);
    ctx.sample(sub, json!({"input": "scale-color(rgb(50, 205, 50), $red: -55%)", "expected_red": 23}));
    ctx.assume("colour equality `==` is cross-checked by comparing the serialised text of both sides as well; reference conversions are the CSS Color formulas in f64, compared with tolerance 1e-6 and +-1 at exact rounding ties");
}
