//! C08 — units convert by the CSS ratios; unit algebra is consistent.
//! Complete product: all 36^2 ordered unit pairs x operations x magnitudes; reference table of
//! CSS ratios; coherence laws (round trip, transitivity) on observed values; compound units.

use crate::core::*;
use crate::models::css;
use serde_json::json;

pub const UNITS: &[&str] = &[
    "px", "mm", "in", "cm", "q", "pt", "pc", "em", "rem", "lh", "%", "ex", "ch", "cap", "ic", "rlh", "vw", "vh", "vmin",
    "vmax", "vi", "vb", "deg", "grad", "rad", "turn", "s", "ms", "hz", "khz", "dpi", "dpcm", "dppx", "fr", "foo", "",
];

/// (dimension class, factor to the class's canonical unit); None = not convertible to anything else
pub fn factor(u: &str) -> Option<(&'static str, f64)> {
    Some(match u {
        "px" => ("length", 1.0),
        "in" => ("length", 96.0),
        "cm" => ("length", 96.0 / 2.54),
        "mm" => ("length", 96.0 / 25.4),
        "q" => ("length", 96.0 / 101.6),
        "pt" => ("length", 96.0 / 72.0),
        "pc" => ("length", 16.0),
        "deg" => ("angle", 1.0),
        "grad" => ("angle", 0.9),
        "rad" => ("angle", 180.0 / std::f64::consts::PI),
        "turn" => ("angle", 360.0),
        "s" => ("time", 1.0),
        "ms" => ("time", 0.001),
        "hz" => ("freq", 1.0),
        "khz" => ("freq", 1000.0),
        "dpi" => ("res", 1.0),
        "dpcm" => ("res", 2.54),
        "dppx" => ("res", 96.0),
        _ => return None,
    })
}

/// value of `v u1` expressed in u2, if convertible (same unit, or same class)
pub fn convert(v: f64, u1: &str, u2: &str) -> Option<f64> {
    if u1 == u2 {
        return Some(v);
    }
    let (c1, f1) = factor(u1)?;
    let (c2, f2) = factor(u2)?;
    if c1 != c2 {
        return None;
    }
    Some(v * f1 / f2)
}

const MAGS: &[f64] = &[1.0, 2.5, -3.0, 96.0];
const OPS: &[&str] = &["+", "-", "<", "==", "%", "min", "max", "div", "*", "compatible", "unit+"];

fn lit(v: f64, u: &str) -> String {
    format!("{}{}", crate::models::num::render(v, false), u)
}

pub fn first_decl_value(cssout: &str) -> Option<String> {
    let tree = css::parse(cssout).ok()?;
    fn find(ns: &[css::Node]) -> Option<String> {
        for n in ns {
            match n {
                css::Node::Decl { value, .. } => return Some(value.clone()),
                css::Node::Rule { children, .. } => {
                    if let Some(v) = find(children) {
                        return Some(v);
                    }
                }
                css::Node::At { children: Some(ch), .. } => {
                    if let Some(v) = find(ch) {
                        return Some(v);
                    }
                }
                _ => {}
            }
        }
        None
    }
    find(&tree)
}

/// split "12.5px" into (12.5, "px")
pub fn split_num(s: &str) -> Option<(f64, String)> {
    let s = s.trim();
    for (pre, v) in [("-Infinity", f64::NEG_INFINITY), ("Infinity", f64::INFINITY), ("NaN", f64::NAN)] {
        if let Some(r) = s.strip_prefix(pre) {
            return Some((v, r.to_string()));
        }
    }
    let mut end = 0;
    for (i, c) in s.char_indices() {
        if c.is_ascii_digit() || c == '.' || (i == 0 && c == '-') {
            end = i + c.len_utf8();
        } else {
            break;
        }
    }
    let (n, u) = s.split_at(end);
    if n.is_empty() {
        if let Some(r) = s.strip_prefix("Infinity") {
            return Some((f64::INFINITY, r.to_string()));
        }
        if let Some(r) = s.strip_prefix("-Infinity") {
            return Some((f64::NEG_INFINITY, r.to_string()));
        }
        if let Some(r) = s.strip_prefix("NaN") {
            return Some((f64::NAN, r.to_string()));
        }
        return None;
    }
    Some((crate::models::num::parse_printed(n)?, u.to_string()))
}

pub fn close(a: f64, b: f64) -> bool {
    if a == b || (a.is_nan() && b.is_nan()) {
        return true;
    }
    (a - b).abs() <= 2e-10 + 1e-11 * b.abs().max(a.abs())
}

#[derive(Debug, PartialEq)]
enum Exp {
    Num(f64, String),
    Bool(bool),
    Error,
    Str(String),
    Skip,
}

fn sass_mod(a: f64, b: f64) -> f64 {
    if b == 0.0 {
        return f64::NAN;
    }
    let r = a % b;
    if r != 0.0 && (r < 0.0) != (b < 0.0) {
        r + b
    } else {
        r
    }
}

fn expected(op: &str, a: f64, ua: &str, b: f64, ub: &str) -> Exp {
    let unitless_a = ua.is_empty();
    let unitless_b = ub.is_empty();
    // operand b in a's unit (or raw when either side is unitless)
    let conv: Option<(f64, f64, String)> = if unitless_a {
        Some((a, b, ub.to_string()))
    } else if unitless_b {
        Some((a, b, ua.to_string()))
    } else {
        convert(b, ub, ua).map(|bb| (a, bb, ua.to_string()))
    };
    match op {
        "+" | "-" | "%" => match conv {
            None => Exp::Error,
            // a quotient within 1e-9 of an integer makes the floating-point remainder land on
            // either 0 or the divisor depending on the conversion's last bit: unspecified
            Some((x, y, _)) if op == "%" && y != 0.0 && ((x / y) - (x / y).round()).abs() < 1e-9 && convert(1.0, ub, ua) != Some(1.0) => Exp::Skip,
            Some((x, y, u)) => Exp::Num(
                match op {
                    "+" => x + y,
                    "-" => x - y,
                    _ => sass_mod(x, y),
                },
                u,
            ),
        },
        "<" => match conv {
            None => Exp::Error,
            Some((x, y, _)) => {
                if (x - y).abs() < 1e-9 {
                    Exp::Skip
                } else {
                    Exp::Bool(x < y)
                }
            }
        },
        "==" => {
            if unitless_a != unitless_b {
                return Exp::Bool(false);
            }
            match conv {
                None => Exp::Bool(false),
                Some((x, y, _)) => {
                    let d = (x - y).abs();
                    if d > 1e-13 * x.abs().max(1.0) && d < 1e-9 {
                        Exp::Skip
                    } else {
                        Exp::Bool(d <= 1e-13 * x.abs().max(1.0))
                    }
                }
            }
        }
        "min" | "max" => {
            if unitless_a || unitless_b {
                if unitless_a && unitless_b {
                    let pick_a = if op == "min" { a <= b } else { a >= b };
                    return Exp::Num(if pick_a { a } else { b }, String::new());
                }
                return Exp::Skip;
            }
            match conv {
                None => Exp::Error,
                Some((x, y, _)) => {
                    if (x - y).abs() < 1e-9 {
                        return Exp::Skip;
                    }
                    let pick_a = if op == "min" { x < y } else { x > y };
                    if pick_a {
                        Exp::Num(a, ua.to_string())
                    } else {
                        Exp::Num(b, ub.to_string())
                    }
                }
            }
        }
        "div" => {
            if unitless_b {
                return Exp::Num(a / b, ua.to_string());
            }
            if unitless_a {
                return Exp::Error; // 1/px cannot be emitted
            }
            match convert(b, ub, ua) {
                Some(bb) => Exp::Num(a / bb, String::new()),
                None => Exp::Error, // compound unit px/s cannot be emitted
            }
        }
        "*" => {
            if unitless_a {
                Exp::Num(a * b, ub.to_string())
            } else if unitless_b {
                Exp::Num(a * b, ua.to_string())
            } else {
                Exp::Error // u*u compound cannot be emitted
            }
        }
        "compatible" => Exp::Bool(unitless_a || unitless_b || convert(1.0, ub, ua).is_some()),
        "unit+" => match conv {
            None => Exp::Error,
            Some((_, _, u)) => Exp::Str(format!("\"{}\"", u)),
        },
        _ => Exp::Skip,
    }
}

fn source(op: &str, a: &str, b: &str) -> String {
    let e = match op {
        "+" | "-" | "<" | "==" | "%" | "*" => format!("({} {} {})", a, op, b),
        "min" => format!("math.min({}, {})", a, b),
        "max" => format!("math.max({}, {})", a, b),
        "div" => format!("math.div({}, {})", a, b),
        "compatible" => format!("math.compatible({}, {})", a, b),
        "unit+" => format!("math.unit({} + {})", a, b),
        _ => unreachable!(),
    };
    format!("@use \"sass:math\";\na{{b:{}}}", e)
}

fn judge(ctx: &Ctx, sub: &str, src: &str, exp: &Exp, l: &mut Local) {
    if *exp == Exp::Skip {
        l.count("skipped_boundary_or_unspecified", 1);
        return;
    }
    l.evals += 1;
    let o = compile(src, &Cfg::scss());
    l.outcome(o.digest());
    l.validated += 1;
    let bad = |what: String| {
        ctx.violation(sub, &format!("unit:{}", src.replace('\n', " ")), &what, json!({"input": src, "expected": format!("{:?}", exp), "observed": o.brief()}));
    };
    match (&o, exp) {
        (Outcome::Panic(p), _) => bad(format!("panic: {}", p)),
        (Outcome::Err(_), Exp::Error) => l.count("errors_as_expected", 1),
        (Outcome::Err(e), _) => bad(format!("unexpected error `{}`, expected {:?}", e.message, exp)),
        (Outcome::Ok(c), Exp::Error) => bad(format!("operation on inconvertible / non-emittable units was silently computed: {:?}", first_decl_value(c))),
        (Outcome::Ok(c), Exp::Bool(b)) => {
            l.nontrivial += 1;
            let v = first_decl_value(c);
            if v.as_deref() != Some(if *b { "true" } else { "false" }) {
                bad(format!("expected {}, got {:?}", b, v));
            }
        }
        (Outcome::Ok(c), Exp::Str(s)) => {
            l.nontrivial += 1;
            let v = first_decl_value(c);
            if !v.as_deref().map(|x| x.eq_ignore_ascii_case(s)).unwrap_or(false) {
                bad(format!("expected {}, got {:?}", s, v));
            }
        }
        (Outcome::Ok(c), Exp::Num(x, u)) => {
            l.nontrivial += 1;
            let v = first_decl_value(c);
            match v.as_deref().and_then(split_num) {
                Some((ov, ou)) => {
                    if !(close(ov, *x) && ou.eq_ignore_ascii_case(u)) {
                        bad(format!("expected {}{}, got {}{}", crate::models::num::render(*x, false), u, crate::models::num::render(ov, false), ou));
                    }
                }
                None => bad(format!("expected a number {}{}, got {:?}", x, u, v)),
            }
        }
        (_, Exp::Skip) => {}
    }
}

pub fn run(ctx: &Ctx) {
    // the watchdog's clock also covers the harness's own oracle work (reference models, DOM enumeration);
    // the limit is generous so that machine load cannot turn a slow case into a verdict
    ctx.hang_limit_s.store(300, std::sync::atomic::Ordering::Relaxed);
    let nu = UNITS.len() as u64;
    let nm = MAGS.len() as u64;
    let no = OPS.len() as u64;
    let sub = "pairs";
    let n = nu * nu * nm * nm * no;
    let decode = |i: u64| {
        let mut k = i;
        let op = OPS[(k % no) as usize];
        k /= no;
        let mb = MAGS[(k % nm) as usize];
        k /= nm;
        let ma = MAGS[(k % nm) as usize];
        k /= nm;
        let ub = UNITS[(k % nu) as usize];
        k /= nu;
        let ua = UNITS[k as usize];
        (op, ma, ua, mb, ub)
    };
    par(
        ctx,
        sub,
        n,
        |i| {
            let (op, ma, ua, mb, ub) = decode(i);
            json!({"input": source(op, &lit(ma, ua), &lit(mb, ub))})
        },
        |i, l| {
            let (op, ma, ua, mb, ub) = decode(i);
            let src = source(op, &lit(ma, ua), &lit(mb, ub));
            let exp = expected(op, ma, ua, mb, ub);
            judge(ctx, sub, &src, &exp, l);
        },
    );
    ctx.bound(sub, "all 36^2 ordered unit pairs (34 known units, one unknown unit, unitless) x 4x4 magnitudes x 11 operations", true);
    ctx.sample(sub, json!({"input": "a{b:(1in + 2.5cm)}", "expected": "1.984251968503937in"}));

    // coherence on observed values: round trips and transitivity inside each dimension class
    let sub = "coherence";
    let classes: Vec<Vec<&str>> = ["length", "angle", "time", "freq", "res"]
        .iter()
        .map(|c| UNITS.iter().copied().filter(|u| factor(u).map(|f| f.0 == *c).unwrap_or(false)).collect())
        .collect();
    let mut triples: Vec<(&str, &str, &str, f64)> = Vec::new();
    for cl in &classes {
        for a in cl {
            for b in cl {
                for c in cl {
                    for m in [1.0, 2.5, -3.0, 96.0, 0.1, 1234.5678] {
                        triples.push((a, b, c, m));
                    }
                }
            }
        }
    }
    par(
        ctx,
        sub,
        triples.len() as u64,
        |i| json!({"triple": format!("{:?}", triples[i as usize])}),
        |i, l| {
            let (a, b, c, m) = triples[i as usize];
            // via = 0c + (0b + m a)   direct = 0c + m a   back = 0a + (0b + m a)
            let src = format!("a{{via:(0{c} + (0{b} + {v})); direct:(0{c} + {v}); back:(0{a} + (0{b} + {v})); eq: ((0{b} + {v}) == {v})}}", a = a, b = b, c = c, v = lit(m, a));
            l.evals += 1;
            let o = compile(&src, &Cfg::scss());
            l.outcome(o.digest());
            l.validated += 1;
            let Outcome::Ok(cssout) = &o else {
                ctx.violation(sub, &format!("coherence:{}", src), &format!("conversion chain failed: {}", o.brief()), json!({"input": src}));
                return;
            };
            let blocks = css::flatten(&css::parse(cssout).unwrap_or_default());
            let get = |p: &str| blocks.iter().flat_map(|b| b.decls.iter()).find(|d| d.0 == p).map(|d| d.1.clone());
            let via = get("via").as_deref().and_then(split_num);
            let direct = get("direct").as_deref().and_then(split_num);
            let back = get("back").as_deref().and_then(split_num);
            let eq = get("eq");
            l.nontrivial += 1;
            let exp_direct = convert(m, a, c).unwrap();
            let mut problems = Vec::new();
            match (&via, &direct) {
                (Some(v), Some(d)) => {
                    if !close(v.0, d.0) || v.1 != d.1 {
                        problems.push(format!("not transitive: via {} gives {}{}, direct gives {}{}", b, v.0, v.1, d.0, d.1));
                    }
                    if !close(d.0, exp_direct) || !d.1.eq_ignore_ascii_case(c) {
                        problems.push(format!("direct conversion {}{} != reference {}{}", d.0, d.1, exp_direct, c));
                    }
                }
                _ => problems.push("unreadable output".into()),
            }
            match &back {
                Some(bk) => {
                    if !close(bk.0, m) || !bk.1.eq_ignore_ascii_case(a) {
                        problems.push(format!("round trip {}->{}->{} gives {}{}", a, b, a, bk.0, bk.1));
                    }
                }
                None => problems.push("unreadable round trip".into()),
            }
            // `==` has an absolute tolerance of 1e-11 in the dimension's canonical unit; beyond ~1e3
            // canonical units the rounding of a there-and-back conversion (a few ulps) exceeds it
            let canon_mag = convert(m, a, classes.iter().find(|c| c.contains(&a)).map(|c| c[0]).unwrap_or(a)).unwrap_or(m).abs() * factor(classes.iter().find(|c| c.contains(&a)).map(|c| c[0]).unwrap_or(a)).map(|f| f.1).unwrap_or(1.0);
            if canon_mag > 1e3 {
                l.count("eq_law_skipped_beyond_tolerance_resolution", 1);
            } else if eq.as_deref() != Some("true") {
                problems.push(format!("converted value not == original: {:?}", eq));
            }
            if !problems.is_empty() {
                ctx.violation(sub, &format!("coherence:{}", src), &problems.join("; "), json!({"input": src, "output": cssout}));
            }
        },
    );
    ctx.bound(sub, "all ordered triples of units inside each of the 5 dimension classes x 6 magnitudes", true);
    ctx.sample(sub, json!({"input": "a{via:(0pt + (0cm + 1in)); direct:(0pt + 1in)}"}));

    // compound units: numerators / denominators of <= 2 factors over a 6-unit alphabet
    let sub = "compound";
    let cu = ["px", "in", "s", "ms", "deg", "em"];
    // a compound value is (n1 [* n2]) / (d1 [* d2]) built with * and math.div
    let mut shapes: Vec<(Vec<&str>, Vec<&str>)> = Vec::new();
    let opt: Vec<Option<&str>> = std::iter::once(None).chain(cu.iter().map(|u| Some(*u))).collect();
    let quick = ctx.quick();
    for n1 in &cu {
        for n2 in &opt {
            for d1 in &opt {
                for d2 in &opt {
                    if d1.is_none() && d2.is_some() {
                        continue;
                    }
                    if quick && d2.is_some() {
                        continue;
                    }
                    let mut num = vec![*n1];
                    if let Some(x) = n2 {
                        num.push(x);
                    }
                    let den: Vec<&str> = [d1, d2].iter().filter_map(|d| **d).collect();
                    shapes.push((num, den));
                }
            }
        }
    }
    let build = |num: &Vec<&str>, den: &Vec<&str>, k: f64| {
        let mut e = format!("{}{}", k, num[0]);
        for u in &num[1..] {
            e = format!("({} * 1{})", e, u);
        }
        for u in den {
            e = format!("math.div({}, 1{})", e, u);
        }
        e
    };
    // reduce a compound to (value in canonical units, multiset of residual classes/units)
    let reduce = |num: &Vec<&str>, den: &Vec<&str>, k: f64| -> (f64, Vec<String>, Vec<String>) {
        let mut val = k;
        let mut n: Vec<String> = Vec::new();
        let mut d: Vec<String> = Vec::new();
        for u in num {
            match factor(u) {
                Some((c, f)) => {
                    val *= f;
                    n.push(c.to_string())
                }
                None => n.push(u.to_string()),
            }
        }
        for u in den {
            match factor(u) {
                Some((c, f)) => {
                    val /= f;
                    d.push(c.to_string())
                }
                None => d.push(u.to_string()),
            }
        }
        // cancel
        let mut i = 0;
        while i < n.len() {
            if let Some(j) = d.iter().position(|x| *x == n[i]) {
                d.remove(j);
                n.remove(i);
            } else {
                i += 1;
            }
        }
        n.sort();
        d.sort();
        (val, n, d)
    };
    let ns = shapes.len() as u64;
    par(
        ctx,
        sub,
        ns * ns,
        |i| json!({"a": format!("{:?}", shapes[(i / ns) as usize]), "b": format!("{:?}", shapes[(i % ns) as usize])}),
        |i, l| {
            let (an, ad) = &shapes[(i / ns) as usize];
            let (bn, bd) = &shapes[(i % ns) as usize];
            let ea = build(an, ad, 6.0);
            let eb = build(bn, bd, 2.0);
            let (va, na, da) = reduce(an, ad, 6.0);
            let (vb, nb, db) = reduce(bn, bd, 2.0);
            let same_dim = na == nb && da == db;
            // same spelling up to factor order?
            let spell = |n: &Vec<&str>, d: &Vec<&str>| -> (Vec<String>, Vec<String>) {
                let mut n: Vec<String> = n.iter().map(|x| x.to_string()).collect();
                let mut d: Vec<String> = d.iter().map(|x| x.to_string()).collect();
                // cancel identical units
                let mut i = 0;
                while i < n.len() {
                    if let Some(j) = d.iter().position(|x| *x == n[i]) {
                        d.remove(j);
                        n.remove(i);
                    } else {
                        i += 1;
                    }
                }
                n.sort();
                d.sort();
                (n, d)
            };
            let same_spelling = spell(an, ad) == spell(bn, bd);
            let reordered = same_spelling && (an != bn || ad != bd);
            let fam = |op: &str, src: &str| if same_dim && !same_spelling { format!("compound:no-conversion:{}", op) } else if reordered { format!("compound:order-sensitive:{}", op) } else { format!("compound:{}", src.replace('\n', " ")) };
            // 1. comparable / addable iff same reduced dimension
            let src = format!("@use \"sass:math\";\n$a: {}; $b: {};\na{{cmp: math.compatible($a, $b)}}", ea, eb);
            l.evals += 1;
            let o = compile(&src, &Cfg::scss());
            l.outcome(o.digest());
            l.validated += 1;
            let unitless_a = na.is_empty() && da.is_empty();
            let unitless_b = nb.is_empty() && db.is_empty();
            let exp_cmp = same_dim || unitless_a || unitless_b;
            match &o {
                Outcome::Ok(c) => {
                    let v = first_decl_value(c);
                    if v.as_deref() != Some(if exp_cmp { "true" } else { "false" }) {
                        ctx.violation(sub, &fam("compatible", &src), &format!("math.compatible = {:?}, reference {}", v, exp_cmp), json!({"input": src}));
                    }
                }
                other => ctx.violation(sub, &format!("compound:{}", src.replace('\n', " ")), &format!("building compound units failed: {}", other.brief()), json!({"input": src})),
            }
            // 2. ratio a/b is a plain number when dimensions agree; emitting a compound is an error
            let src2 = format!("@use \"sass:math\";\n$a: {}; $b: {};\na{{q: math.div($a, $b)}}", ea, eb);
            l.evals += 1;
            let o2 = compile(&src2, &Cfg::scss());
            l.validated += 1;
            if same_dim {
                l.nontrivial += 1;
                match &o2 {
                    Outcome::Ok(c) => match first_decl_value(c).as_deref().and_then(split_num) {
                        Some((q, u)) if u.is_empty() && close(q, va / vb) => {}
                        other => ctx.violation(sub, &fam("quotient", &src2), &format!("quotient of equal-dimension quantities: got {:?}, reference {}", other, va / vb), json!({"input": src2})),
                    },
                    other => ctx.violation(sub, &fam("quotient", &src2), &format!("quotient of equal-dimension quantities failed: {}", other.brief()), json!({"input": src2})),
                }
            }
            // 3. sum: allowed iff same dimension (value checked through the quotient with b)
            let src3 = format!("@use \"sass:math\";\n$a: {}; $b: {};\na{{s: math.div($a + $b, $b)}}", ea, eb);
            l.evals += 1;
            let o3 = compile(&src3, &Cfg::scss());
            l.validated += 1;
            match (&o3, same_dim || unitless_a || unitless_b) {
                (Outcome::Panic(p), _) => ctx.violation(sub, &format!("compound:{}", src3.replace('\n', " ")), &format!("panic: {}", p), json!({"input": src3})),
                (Outcome::Ok(c), true) if same_dim => match first_decl_value(c).as_deref().and_then(split_num) {
                    Some((q, u)) if u.is_empty() && close(q, (va + vb) / vb) => {}
                    other => ctx.violation(sub, &fam("sum", &src3), &format!("(a+b)/b: got {:?}, reference {}", other, (va + vb) / vb), json!({"input": src3})),
                },
                (Outcome::Err(e), true) if same_dim => ctx.violation(sub, &fam("sum", &src3), &format!("sum of equal-dimension compound quantities rejected: {}", e.message), json!({"input": src3})),
                (Outcome::Ok(c), false) => ctx.violation(sub, &format!("compound:{}", src3.replace('\n', " ")), &format!("sum of incompatible compound units was computed: {:?}", first_decl_value(c)), json!({"input": src3})),
                _ => {}
            }
        },
    );
    // products and quotients of two compound quantities: the unit of the result, read back through
    // math.unit(), must reduce to the product / quotient of the operands' dimensions
    let sub_p = "compound-products";
    let parse_unit = |u: &str| -> Option<(Vec<String>, Vec<String>)> {
        let u = u.trim_matches('"');
        // a pure denominator is printed as `s^-1` or `(px*s)^-1`
        let inverted = u.ends_with("^-1");
        let u = u.trim_end_matches("^-1");
        let (n, d) = match u.split_once('/') {
            Some((a, b)) => (a, b),
            None => (u, ""),
        };
        let cls = |x: &str| -> Option<Vec<String>> {
            let x = x.trim().trim_start_matches('(').trim_end_matches(')');
            if x.is_empty() || x == "1" {
                return Some(vec![]);
            }
            x.split('*').map(|t| { let t = t.trim(); if t.is_empty() { None } else { Some(factor(t).map(|f| f.0.to_string()).unwrap_or_else(|| t.to_string())) } }).collect()
        };
        let (mut n, mut d) = (cls(n)?, cls(d)?);
        if inverted {
            std::mem::swap(&mut n, &mut d);
        }
        let mut i = 0;
        while i < n.len() {
            if let Some(j) = d.iter().position(|x| *x == n[i]) {
                d.remove(j);
                n.remove(i);
            } else {
                i += 1;
            }
        }
        n.sort();
        d.sort();
        Some((n, d))
    };
    par(
        ctx,
        sub_p,
        ns * ns,
        |i| json!({"a": format!("{:?}", shapes[(i / ns) as usize]), "b": format!("{:?}", shapes[(i % ns) as usize])}),
        |i, l| {
            let (an, ad) = &shapes[(i / ns) as usize];
            let (bn, bd) = &shapes[(i % ns) as usize];
            let ea = build(an, ad, 6.0);
            let eb = build(bn, bd, 2.0);
            for (op, label) in [("$a * $b", "product"), ("math.div($a, $b)", "quotient")] {
                let src = format!("@use \"sass:math\";\n$a: {}; $b: {};\na{{u: math.unit({})}}", ea, eb, op);
                l.evals += 1;
                let o = compile(&src, &Cfg::scss());
                l.outcome(o.digest());
                l.validated += 1;
                // reference dimension of the result
                let (mut rn, mut rd): (Vec<&str>, Vec<&str>) = (an.clone(), ad.clone());
                if label == "product" {
                    rn.extend(bn.iter());
                    rd.extend(bd.iter());
                } else {
                    rn.extend(bd.iter());
                    rd.extend(bn.iter());
                }
                let (_, wn, wd) = reduce(&rn, &rd, 1.0);
                match &o {
                    Outcome::Ok(c) => {
                        l.nontrivial += 1;
                        let got = first_decl_value(c).unwrap_or_default();
                        match parse_unit(&got) {
                            Some((gn, gd)) if gn == wn && gd == wd => {}
                            other => ctx.violation(sub_p, &format!("compound-{}:{}", label, src.replace('\n', " ")), &format!("unit of the {} is {} (reduced {:?}); the dimensions of the operands give {:?}/{:?}", label, got, other, wn, wd), json!({"input": src})),
                        }
                    }
                    other => ctx.violation(sub_p, &format!("compound-{}:{}", label, src.replace('\n', " ")), &format!("{} of two compound quantities failed: {}", label, other.brief()), json!({"input": src})),
                }
            }
        },
    );
    ctx.bound(sub_p, "product and quotient of every ordered pair of compound shapes: reduced dimension of math.unit(result) against the reference", true);
    ctx.sample(sub_p, json!({"input": "$a: math.div(6, 1px); $b: (2px * 1em); a{u: math.unit($a * $b)}", "expected": "em"}));
    ctx.bound(sub, if quick { "all ordered pairs of compound units with <= 2 numerator and <= 1 denominator factors over {px,in,s,ms,deg,em}" } else { "all ordered pairs of compound units with <= 2 numerator and <= 2 denominator factors over {px,in,s,ms,deg,em}" }, true);
    ctx.sample(sub, json!({"input": "$a: math.div((6px * 1in), 1s); $b: math.div((2in * 1px), 1ms); a{q: math.div($a, $b)}"}));
    // emitting a compound unit is an error
    let sub = "emit-compound";
    par(
        ctx,
        sub,
        ns,
        |i| json!({"shape": format!("{:?}", shapes[i as usize])}),
        |i, l| {
            let (an, ad) = &shapes[i as usize];
            let (_, n, d) = reduce(an, ad, 6.0);
            let src = format!("@use \"sass:math\";\na{{b: {}}}", build(an, ad, 6.0));
            l.evals += 1;
            let o = compile(&src, &Cfg::scss());
            l.outcome(o.digest());
            l.validated += 1;
            let simple = d.is_empty() && n.len() <= 1;
            match (&o, simple) {
                (Outcome::Panic(p), _) => ctx.violation(sub, &format!("emit:{}", src.replace('\n', " ")), &format!("panic: {}", p), json!({"input": src})),
                (Outcome::Ok(c), false) => ctx.violation(sub, &format!("emit:{}", src.replace('\n', " ")), &format!("a number with compound units was emitted as CSS: {:?}", first_decl_value(c)), json!({"input": src})),
                (Outcome::Err(e), true) => ctx.violation(sub, &format!("emit:{}", src.replace('\n', " ")), &format!("a number whose units cancel to a single unit was rejected: {}", e.message), json!({"input": src})),
                _ => l.nontrivial += 1,
            }
        },
    );
    ctx.bound(sub, "every compound shape emitted as a declaration value", true);
    ctx.sample(sub, json!({"input": "a{b: math.div((6px * 1in), 1s)}", "expected": "error"}));
    ctx.assume("reference ratios are those of the property text (1in=96px=2.54cm=25.4mm=101.6q=72pt=6pc, 1turn=360deg=400grad=2pi rad, 1s=1000ms, 1kHz=1000Hz, 1dppx=96dpi, 1dpcm=2.54dpi); numeric agreement within 2e-10 absolute + 1e-11 relative (the 10-digit output rounding)");
}
