pub mod canon;
pub mod color;
pub mod colornames;
pub mod css;
pub mod num;
pub mod sassval;
pub mod sel;
pub mod interp;
