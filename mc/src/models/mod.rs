pub mod css;
