//! Independent canonicaliser for CSS text: the equivalences the properties C05/C06/C18 allow
//! (insignificant whitespace, optional semicolons, non-preserved comments, number and colour
//! spellings, BOM vs @charset) are erased; everything else is kept.

use super::colornames::NAMED;
use super::css::{self, Node};

#[derive(Clone, Debug, PartialEq, Eq)]
pub enum C {
    At { name: String, prelude: String, children: Option<Vec<C>> },
    Rule { selector: String, children: Vec<C> },
    Decl { prop: String, value: String },
    Comment(String),
}

/// tokens of a value / prelude: strings and parenthesised groups are kept whole
pub fn lex(s: &str) -> Vec<String> {
    let b: Vec<char> = s.chars().collect();
    let mut out = Vec::new();
    let mut i = 0;
    let mut cur = String::new();
    let flush = |cur: &mut String, out: &mut Vec<String>| {
        if !cur.is_empty() {
            out.push(std::mem::take(cur));
        }
    };
    while i < b.len() {
        let c = b[i];
        match c {
            '"' | '\'' => {
                flush(&mut cur, &mut out);
                let mut t = String::new();
                t.push(c);
                i += 1;
                while i < b.len() {
                    t.push(b[i]);
                    if b[i] == '\\' && i + 1 < b.len() {
                        i += 1;
                        t.push(b[i]);
                    } else if b[i] == c {
                        break;
                    }
                    i += 1;
                }
                i += 1;
                out.push(t);
            }
            c if c.is_whitespace() => {
                flush(&mut cur, &mut out);
                if out.last().map(|l| l != " ").unwrap_or(false) {
                    out.push(" ".into());
                }
                i += 1;
            }
            ',' | '/' | '(' | ')' | '[' | ']' | ':' | '>' | '+' | '~' | '=' | '*' | '{' | '}' | ';' => {
                // `+`/`-` inside a number or identifier stay attached: only split when standalone
                if (c == '+') && !cur.is_empty() && i + 1 < b.len() && !b[i + 1].is_whitespace() && !cur.ends_with(|x: char| x.is_whitespace()) && cur.chars().last().map(|x| x == 'e' || x == 'E').unwrap_or(false) {
                    cur.push(c);
                    i += 1;
                    continue;
                }
                flush(&mut cur, &mut out);
                out.push(c.to_string());
                i += 1;
            }
            '\\' => {
                cur.push(c);
                if i + 1 < b.len() {
                    cur.push(b[i + 1]);
                }
                i += 2;
            }
            '#' | '!' if !cur.is_empty() => {
                // CSS tokenisation: `foo#fff` is an ident followed by a hash token, `x!important` an
                // ident followed by a delimiter
                flush(&mut cur, &mut out);
                cur.push(c);
                i += 1;
            }
            _ => {
                cur.push(c);
                i += 1;
            }
        }
    }
    flush(&mut cur, &mut out);
    while out.last().map(|l| l == " ").unwrap_or(false) {
        out.pop();
    }
    if out.first().map(|l| l == " ").unwrap_or(false) {
        out.remove(0);
    }
    out
}

/// Decode a quoted CSS string (escapes, line continuations) and re-quote it canonically.
fn canon_string(t: &str) -> String {
    let b: Vec<char> = t.chars().collect();
    if b.len() < 2 || b[b.len() - 1] != b[0] {
        return t.to_string();
    }
    let inner = &b[1..b.len() - 1];
    let mut text = String::new();
    let mut i = 0;
    while i < inner.len() {
        let c = inner[i];
        if c == '\\' && i + 1 < inner.len() {
            let n = inner[i + 1];
            if n == '\n' {
                i += 2;
                continue;
            }
            if n.is_ascii_hexdigit() {
                let mut j = i + 1;
                let mut h = String::new();
                while j < inner.len() && h.len() < 6 && inner[j].is_ascii_hexdigit() {
                    h.push(inner[j]);
                    j += 1;
                }
                if j < inner.len() && (inner[j] == ' ' || inner[j] == '\t' || inner[j] == '\n') {
                    j += 1;
                }
                let cp = u32::from_str_radix(&h, 16).unwrap_or(0xfffd);
                text.push(char::from_u32(cp).filter(|c| *c != '\0').unwrap_or('\u{fffd}'));
                i = j;
                continue;
            }
            text.push(n);
            i += 2;
            continue;
        }
        text.push(c);
        i += 1;
    }
    let mut out = String::from("\"");
    for c in text.chars() {
        match c {
            '"' => out.push_str("\\\""),
            '\\' => out.push_str("\\\\"),
            c if (c as u32) < 0x20 || c as u32 == 0x7f => out.push_str(&format!("\\{:x} ", c as u32)),
            c => out.push(c),
        }
    }
    out.push('"');
    out
}

fn canon_number(t: &str) -> Option<String> {
    // [-+]? digits? [.digits]? unit?
    let (sign, rest) = match t.strip_prefix('-') {
        Some(r) => ("-", r),
        None => ("", t.strip_prefix('+').unwrap_or(t)),
    };
    let nend = rest.find(|c: char| !(c.is_ascii_digit() || c == '.')).unwrap_or(rest.len());
    let (num, unit) = rest.split_at(nend);
    if num.is_empty() || num == "." || num.matches('.').count() > 1 {
        return None;
    }
    if !unit.is_empty() && !unit.chars().all(|c| c.is_alphabetic() || c == '%' || c == '-' || c == '_') {
        return None;
    }
    let (ip, fp) = match num.split_once('.') {
        Some((a, b)) => (a, b),
        None => (num, ""),
    };
    let ip = ip.trim_start_matches('0');
    let fp = fp.trim_end_matches('0');
    let mut s = String::new();
    let zero = ip.is_empty() && fp.is_empty();
    if !zero {
        s.push_str(sign);
    }
    if ip.is_empty() {
        s.push('0');
    } else {
        s.push_str(ip);
    }
    if !fp.is_empty() {
        s.push('.');
        s.push_str(fp);
    }
    s.push_str(unit);
    Some(s)
}

fn canon_color(t: &str) -> Option<String> {
    let lower = t.to_ascii_lowercase();
    if let Some(h) = lower.strip_prefix('#') {
        if h.chars().all(|c| c.is_ascii_hexdigit()) {
            let long: String = match h.len() {
                3 | 4 => h.chars().flat_map(|c| [c, c]).collect(),
                6 | 8 => h.to_string(),
                _ => return None,
            };
            if long.len() == 8 {
                // alpha channel: ff is opaque; otherwise the canonical form is rgba(r,g,b,a)
                let v = u32::from_str_radix(&long, 16).ok()?;
                let a = v & 255;
                if a == 255 {
                    return Some(format!("#{}", &long[..6]));
                }
                let alpha = a as f64 / 255.0;
                return Some(format!("rgba({},{},{},{})", v >> 24, (v >> 16) & 255, (v >> 8) & 255, canon_number(&super::num::render(alpha, false)).unwrap_or_default()));
            }
            return Some(format!("#{}", long));
        }
        return None;
    }
    if lower == "transparent" {
        return Some("rgba(0,0,0,0)".to_string());
    }
    NAMED.iter().find(|(n, _)| *n == lower).map(|(_, v)| format!("#{:06x}", v))
}

/// Canonical text of a declaration value, selector or at-rule prelude.
pub fn canon_text(s: &str) -> String {
    let toks = lex(s);
    let mut out: Vec<String> = Vec::new();
    for t in toks {
        let t2 = if t == " " {
            t
        } else if t.starts_with('"') || t.starts_with('\'') {
            canon_string(&t)
        } else if let Some(c) = canon_color(&t) {
            c
        } else if let Some(n) = canon_number(&t) {
            n
        } else {
            t
        };
        out.push(t2);
    }
    let out = fold_color_functions(out);
    // whitespace tokens carry no meaning of their own once tokens are separated: join the
    // remaining tokens with single spaces (distinct token sequences stay distinct)
    out.into_iter().filter(|t| t != " ").collect::<Vec<_>>().join(" ")
}

/// `rgb()/rgba()/hsl()/hsla()` with literal numeric arguments become `#rrggbb` (alpha 1) or a
/// canonical `rgba(r,g,b,a)`: functional notation is just another spelling of a colour.
fn fold_color_functions(toks: Vec<String>) -> Vec<String> {
    let mut out: Vec<String> = Vec::new();
    let mut i = 0;
    while i < toks.len() {
        let name = toks[i].to_ascii_lowercase();
        if matches!(name.as_str(), "rgb" | "rgba" | "hsl" | "hsla") && toks.get(i + 1).map(|t| t == "(").unwrap_or(false) {
            // collect up to the matching ")" (no nesting allowed)
            let mut j = i + 2;
            let mut args: Vec<&str> = Vec::new();
            let mut ok = true;
            while j < toks.len() && toks[j] != ")" {
                match toks[j].as_str() {
                    " " | "," | "/" => {}
                    "(" => {
                        ok = false;
                        break;
                    }
                    t => args.push(t),
                }
                j += 1;
            }
            if ok && j < toks.len() && (args.len() == 3 || args.len() == 4) {
                let num = |t: &str| -> Option<(f64, String)> {
                    let end = t.find(|c: char| !(c.is_ascii_digit() || c == '.' || c == '-' || c == '+')).unwrap_or(t.len());
                    let v: f64 = t[..end].parse().ok()?;
                    Some((v, t[end..].to_ascii_lowercase()))
                };
                let vals: Option<Vec<(f64, String)>> = args.iter().map(|a| num(a)).collect();
                if let Some(v) = vals {
                    let alpha = if v.len() == 4 { if v[3].1 == "%" { v[3].0 / 100.0 } else { v[3].0 } } else { 1.0 };
                    let rgb = if name.starts_with("rgb") {
                        let ch = |x: &(f64, String)| if x.1 == "%" { x.0 * 255.0 / 100.0 } else { x.0 };
                        Some((ch(&v[0]), ch(&v[1]), ch(&v[2])))
                    } else if v[1].1 == "%" && v[2].1 == "%" && (v[0].1.is_empty() || v[0].1 == "deg") {
                        Some(super::color::hsl_to_rgb(v[0].0, v[1].0, v[2].0))
                    } else {
                        None
                    };
                    if let Some((r, g, b)) = rgb {
                        let c = |x: f64| x.round().clamp(0.0, 255.0) as u32;
                        if (alpha - 1.0).abs() < 1e-9 {
                            out.push(format!("#{:02x}{:02x}{:02x}", c(r), c(g), c(b)));
                        } else {
                            out.push(format!("rgba({},{},{},{})", c(r), c(g), c(b), canon_number(&super::num::render(alpha, false)).unwrap_or_default()));
                        }
                        i = j + 1;
                        continue;
                    }
                }
            }
        }
        out.push(toks[i].clone());
        i += 1;
    }
    out
}

fn canon_nodes(nodes: &[Node], keep_all_comments: bool) -> Vec<C> {
    let mut out = Vec::new();
    for n in nodes {
        match n {
            Node::Comment(c) => {
                if keep_all_comments || c.starts_with("/*!") {
                    out.push(C::Comment(c.split_whitespace().collect::<Vec<_>>().join(" ")));
                }
            }
            Node::Decl { prop, value } => {
                // custom properties keep their value verbatim (modulo outer whitespace)
                let v = canon_text(value);
                out.push(C::Decl { prop: prop.trim().to_string(), value: v });
            }
            Node::Rule { selector, children } => {
                let ch = canon_nodes(children, keep_all_comments);
                // a rule left empty once non-preserved comments are erased has no effect
                if ch.is_empty() && !keep_all_comments {
                    continue;
                }
                out.push(C::Rule { selector: canon_text(selector), children: ch })
            }
            Node::At { name, prelude, children } => {
                if name.eq_ignore_ascii_case("charset") {
                    continue;
                }
                out.push(C::At { name: name.to_ascii_lowercase(), prelude: canon_text(prelude), children: children.as_ref().map(|c| canon_nodes(c, keep_all_comments)) })
            }
        }
    }
    out
}

pub fn canon_nodes_pub(nodes: &[Node], keep_all_comments: bool) -> Vec<C> {
    canon_nodes(nodes, keep_all_comments)
}

/// Canonical tree of a stylesheet; `keep_all_comments = false` drops comments other than `/*!`.
pub fn canon(cssout: &str, keep_all_comments: bool) -> Result<Vec<C>, css::CssError> {
    Ok(canon_nodes(&css::parse(cssout)?, keep_all_comments))
}

/// first difference between two canonical trees, as a short description
pub fn first_diff(a: &[C], b: &[C]) -> Option<String> {
    for i in 0..a.len().max(b.len()) {
        match (a.get(i), b.get(i)) {
            (Some(x), Some(y)) if x == y => {}
            (Some(C::Rule { selector: s1, children: c1 }), Some(C::Rule { selector: s2, children: c2 })) if s1 == s2 => {
                return first_diff(c1, c2).map(|d| format!("in `{}`: {}", s1, d));
            }
            (Some(C::At { name: n1, prelude: p1, children: Some(c1) }), Some(C::At { name: n2, prelude: p2, children: Some(c2) })) if n1 == n2 && p1 == p2 => {
                return first_diff(c1, c2).map(|d| format!("in `@{} {}`: {}", n1, p1, d));
            }
            (x, y) => return Some(format!("{:?} vs {:?}", x, y)),
        }
    }
    None
}
