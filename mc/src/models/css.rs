//! Independent CSS block reader and canonicaliser (shares no code with grass).
//!
//! Reads grass's output (expanded or compressed) into a tree of at-rules, style rules,
//! declarations and comments. It is a structural reader: strings, comments, url(), and
//! bracket nesting are honoured; values are kept as text (see `value.rs` for component values).

#[derive(Clone, Debug, PartialEq, Eq)]
pub enum Node {
    /// `@name prelude { children }` or `@name prelude;` (children = None)
    At { name: String, prelude: String, children: Option<Vec<Node>> },
    Rule { selector: String, children: Vec<Node> },
    Decl { prop: String, value: String },
    Comment(String),
}

#[derive(Debug, Clone, PartialEq, Eq)]
pub struct CssError(pub String);

struct R<'a> {
    s: &'a [u8],
    src: &'a str,
    i: usize,
}

fn is_ws(b: u8) -> bool {
    matches!(b, b' ' | b'\n' | b'\t' | b'\r' | 0x0c)
}

impl<'a> R<'a> {
    fn peek(&self) -> Option<u8> {
        self.s.get(self.i).copied()
    }
    fn starts(&self, p: &str) -> bool {
        self.s[self.i..].starts_with(p.as_bytes())
    }
    fn skip_ws(&mut self) {
        while let Some(b) = self.peek() {
            if is_ws(b) {
                self.i += 1;
            } else {
                break;
            }
        }
    }
    /// consume a string starting at the quote; returns Err when unterminated
    fn string(&mut self) -> Result<(), CssError> {
        let q = self.s[self.i];
        let start = self.i;
        self.i += 1;
        loop {
            match self.peek() {
                None => return Err(CssError(format!("unterminated string starting at byte {}", start))),
                Some(b'\\') => {
                    self.i += 2;
                }
                Some(b'\n') => return Err(CssError(format!("raw newline in string starting at byte {}", start))),
                Some(b) if b == q => {
                    self.i += 1;
                    return Ok(());
                }
                Some(_) => self.i += 1,
            }
        }
    }
    fn comment(&mut self) -> Result<&'a str, CssError> {
        let start = self.i;
        self.i += 2;
        loop {
            if self.i >= self.s.len() {
                return Err(CssError(format!("unterminated comment at byte {}", start)));
            }
            if self.starts("*/") {
                self.i += 2;
                return Ok(&self.src[start..self.i]);
            }
            self.i += 1;
        }
    }
    /// Read up to one of the depth-0 terminators `{`, `;`, `}` or EOF. Returns the text read
    /// and the terminator (0 for EOF). Tracks () and [] nesting, strings, comments and
    /// unquoted url( ... ).
    fn until_term(&mut self) -> Result<(String, u8), CssError> {
        let start = self.i;
        let mut depth: Vec<u8> = Vec::new();
        loop {
            let Some(b) = self.peek() else {
                if !depth.is_empty() {
                    return Err(CssError(format!("unbalanced {:?} at EOF", depth.iter().map(|c| *c as char).collect::<String>())));
                }
                return Ok((self.src[start..self.i].to_string(), 0));
            };
            match b {
                b'"' | b'\'' => self.string()?,
                b'/' if self.starts("/*") => {
                    self.comment()?;
                }
                b'\\' => self.i += 2,
                b'(' => {
                    // url( with unquoted content: skip raw to the closing paren
                    let before = &self.src[start..self.i];
                    let lower = before.to_ascii_lowercase();
                    self.i += 1;
                    if lower.ends_with("url") {
                        let save = self.i;
                        self.skip_ws();
                        if !matches!(self.peek(), Some(b'"') | Some(b'\'')) {
                            // raw url: read to ')' honouring escapes; a '(' inside means it is an
                            // ordinary function call (url(fn(..))), handled by the generic path
                            let mut k = self.i;
                            let mut raw = true;
                            loop {
                                match self.s.get(k) {
                                    None => return Err(CssError("unterminated url(".into())),
                                    Some(b'\\') => k += 2,
                                    Some(b'(') => {
                                        raw = false;
                                        break;
                                    }
                                    Some(b')') => {
                                        k += 1;
                                        break;
                                    }
                                    _ => k += 1,
                                }
                            }
                            if raw {
                                self.i = k;
                                continue;
                            }
                        }
                        self.i = save;
                    }
                    depth.push(b')');
                }
                b'[' => {
                    depth.push(b']');
                    self.i += 1;
                }
                b')' | b']' => {
                    match depth.pop() {
                        Some(c) if c == b => {}
                        other => {
                            return Err(CssError(format!(
                                "unbalanced `{}` at byte {} (open: {:?})",
                                b as char, self.i, other.map(|c| c as char)
                            )))
                        }
                    }
                    self.i += 1;
                }
                b'{' | b';' | b'}' if depth.is_empty() => {
                    // `#{` cannot occur in CSS; treat `{` normally
                    let t = self.src[start..self.i].to_string();
                    self.i += 1;
                    return Ok((t, b));
                }
                b'{' | b'}' => {
                    return Err(CssError(format!("brace inside parentheses at byte {}", self.i)));
                }
                _ => self.i += 1,
            }
        }
    }

    fn block(&mut self, top: bool) -> Result<Vec<Node>, CssError> {
        let mut out = Vec::new();
        loop {
            self.skip_ws();
            match self.peek() {
                None => {
                    if top {
                        return Ok(out);
                    }
                    return Err(CssError("unexpected EOF inside block".into()));
                }
                Some(b'}') => {
                    if top {
                        return Err(CssError(format!("unmatched `}}` at byte {}", self.i)));
                    }
                    self.i += 1;
                    return Ok(out);
                }
                Some(b';') => {
                    self.i += 1;
                    continue;
                }
                Some(b'/') if self.starts("/*") => {
                    let c = self.comment()?;
                    out.push(Node::Comment(c.to_string()));
                    continue;
                }
                _ => {}
            }
            let at = self.peek() == Some(b'@');
            let (text, term) = self.until_term()?;
            let text_t = text.trim().to_string();
            if at {
                let body = &text_t[1..];
                let name_end = body
                    .find(|c: char| c.is_whitespace() || c == '(' || c == '"' || c == '\'')
                    .unwrap_or(body.len());
                let name = body[..name_end].to_string();
                let prelude = body[name_end..].trim().to_string();
                match term {
                    b'{' => {
                        let ch = self.block(false)?;
                        out.push(Node::At { name, prelude, children: Some(ch) });
                    }
                    b'}' => {
                        out.push(Node::At { name, prelude, children: None });
                        if top {
                            return Err(CssError("unmatched `}`".into()));
                        }
                        return Ok(out);
                    }
                    _ => out.push(Node::At { name, prelude, children: None }),
                }
                continue;
            }
            match term {
                b'{' => {
                    let ch = self.block(false)?;
                    out.push(Node::Rule { selector: text_t, children: ch });
                }
                b';' | b'}' | 0 => {
                    if !text_t.is_empty() {
                        if top {
                            return Err(CssError(format!("declaration or junk at top level: {:?}", text_t)));
                        }
                        match split_decl(&text_t) {
                            Some((p, v)) => out.push(Node::Decl { prop: p, value: v }),
                            None => return Err(CssError(format!("not a declaration: {:?}", text_t))),
                        }
                    }
                    if term == b'}' {
                        if top {
                            return Err(CssError("unmatched `}`".into()));
                        }
                        return Ok(out);
                    }
                    if term == 0 {
                        if top {
                            return Ok(out);
                        }
                        return Err(CssError("unexpected EOF inside block".into()));
                    }
                }
                _ => unreachable!(),
            }
        }
    }
}

/// Split `prop: value` at the first depth-0 colon outside strings.
pub fn split_decl(t: &str) -> Option<(String, String)> {
    let b = t.as_bytes();
    let mut i = 0;
    let mut depth = 0i32;
    while i < b.len() {
        match b[i] {
            b'"' | b'\'' => {
                let q = b[i];
                i += 1;
                while i < b.len() && b[i] != q {
                    if b[i] == b'\\' {
                        i += 1;
                    }
                    i += 1;
                }
            }
            b'\\' => i += 1,
            b'(' | b'[' => depth += 1,
            b')' | b']' => depth -= 1,
            b':' if depth == 0 => {
                return Some((t[..i].trim().to_string(), t[i + 1..].trim().to_string()));
            }
            _ => {}
        }
        i += 1;
    }
    None
}

/// Parse a whole stylesheet. A leading BOM is skipped.
pub fn parse(css: &str) -> Result<Vec<Node>, CssError> {
    let css = css.strip_prefix('\u{feff}').unwrap_or(css);
    let mut r = R { s: css.as_bytes(), src: css, i: 0 };
    r.block(true)
}

/// Collapse runs of whitespace outside strings to one space; remove spaces around
/// `,` `>` `+` `~` when `tight` (selector canonicalisation), trim.
pub fn squash_ws(s: &str) -> String {
    let mut out = String::with_capacity(s.len());
    let mut chars = s.chars().peekable();
    let mut last_space = true;
    while let Some(c) = chars.next() {
        match c {
            '"' | '\'' => {
                out.push(c);
                while let Some(d) = chars.next() {
                    out.push(d);
                    if d == '\\' {
                        if let Some(e) = chars.next() {
                            out.push(e);
                        }
                    } else if d == c {
                        break;
                    }
                }
                last_space = false;
            }
            c if c.is_whitespace() => {
                if !last_space {
                    out.push(' ');
                    last_space = true;
                }
            }
            c => {
                out.push(c);
                last_space = false;
            }
        }
    }
    out.trim().to_string()
}

/// Split at depth-0 commas outside strings / parens / brackets.
pub fn split_top(s: &str, sep: char) -> Vec<String> {
    let mut out = Vec::new();
    let mut cur = String::new();
    let mut depth = 0i32;
    let mut chars = s.chars().peekable();
    while let Some(c) = chars.next() {
        match c {
            '"' | '\'' => {
                cur.push(c);
                while let Some(d) = chars.next() {
                    cur.push(d);
                    if d == '\\' {
                        if let Some(e) = chars.next() {
                            cur.push(e);
                        }
                    } else if d == c {
                        break;
                    }
                }
            }
            '\\' => {
                cur.push(c);
                if let Some(e) = chars.next() {
                    cur.push(e);
                }
            }
            '(' | '[' => {
                depth += 1;
                cur.push(c);
            }
            ')' | ']' => {
                depth -= 1;
                cur.push(c);
            }
            c if c == sep && depth == 0 => {
                out.push(cur.trim().to_string());
                cur = String::new();
            }
            c => cur.push(c),
        }
    }
    out.push(cur.trim().to_string());
    out
}

/// A flattened leaf block: (at-rule path, selector, declarations).
#[derive(Clone, Debug, PartialEq, Eq)]
pub struct Block {
    pub path: Vec<String>,
    pub selector: String,
    pub decls: Vec<(String, String)>,
}

/// Flatten a parsed tree into leaf blocks in document order. Declarations directly inside an
/// at-rule (no style rule) get selector "".
pub fn flatten(nodes: &[Node]) -> Vec<Block> {
    fn go(nodes: &[Node], path: &mut Vec<String>, sel: &str, out: &mut Vec<Block>) {
        let mut cur: Option<Block> = None;
        for n in nodes {
            match n {
                Node::Decl { prop, value } => {
                    let b = cur.get_or_insert_with(|| Block { path: path.clone(), selector: sel.to_string(), decls: vec![] });
                    b.decls.push((prop.clone(), squash_ws(value)));
                }
                Node::Comment(_) => {}
                Node::Rule { selector, children } => {
                    if let Some(b) = cur.take() {
                        out.push(b);
                    }
                    go(children, path, &squash_ws(selector), out);
                }
                Node::At { name, prelude, children } => {
                    if let Some(b) = cur.take() {
                        out.push(b);
                    }
                    if let Some(ch) = children {
                        path.push(squash_ws(&format!("@{} {}", name, prelude)));
                        go(ch, path, sel, out);
                        path.pop();
                    } else {
                        out.push(Block {
                            path: path.clone(),
                            selector: String::new(),
                            decls: vec![(format!("@{}", name), squash_ws(prelude))],
                        });
                    }
                }
            }
        }
        if let Some(b) = cur.take() {
            out.push(b);
        }
    }
    let mut out = Vec::new();
    go(nodes, &mut Vec::new(), "", &mut out);
    out
}
