//! Independent selector parser, DOM model and element matcher (DESIGN A.6).
//! A DOM is an ordered tree of <= n elements; an element has a type, an optional id and a set
//! of boolean features (classes, attributes, opaque pseudo-classes, pseudo-elements).

use std::collections::BTreeSet;

#[derive(Clone, Debug, PartialEq, Eq, PartialOrd, Ord)]
pub enum Simple {
    Universal,
    Type(String),
    Class(String),
    Id(String),
    Attr(String),
    Pseudo(String),    // opaque pseudo-class or pseudo-element incl. its argument text
    Placeholder(String),
    Not(Vec<Complex>),
    Is(Vec<Complex>), // :is / :where / :matches / :any
}

pub type Compound = Vec<Simple>;

#[derive(Clone, Debug, PartialEq, Eq, PartialOrd, Ord)]
pub enum Part {
    C(Compound),
    Comb(char), // ' ' '>' '+' '~'
}

pub type Complex = Vec<Part>;
pub type List = Vec<Complex>;

#[derive(Debug)]
pub struct SelErr(pub String);

fn split_top(s: &str, sep: char) -> Vec<String> {
    let mut out = Vec::new();
    let mut depth = 0;
    let mut cur = String::new();
    let mut inq: Option<char> = None;
    for c in s.chars() {
        if let Some(q) = inq {
            cur.push(c);
            if c == q {
                inq = None;
            }
            continue;
        }
        match c {
            '"' | '\'' => {
                inq = Some(c);
                cur.push(c);
            }
            '(' | '[' => {
                depth += 1;
                cur.push(c);
            }
            ')' | ']' => {
                depth -= 1;
                cur.push(c);
            }
            c if c == sep && depth == 0 => {
                out.push(std::mem::take(&mut cur));
            }
            c => cur.push(c),
        }
    }
    out.push(cur);
    out
}

pub fn parse_list(s: &str) -> Result<List, SelErr> {
    let mut out = Vec::new();
    for c in split_top(s, ',') {
        let c = c.trim();
        if c.is_empty() {
            return Err(SelErr(format!("empty complex selector in {:?}", s)));
        }
        out.push(parse_complex(c)?);
    }
    Ok(out)
}

pub fn parse_complex(s: &str) -> Result<Complex, SelErr> {
    let b: Vec<char> = s.chars().collect();
    let mut parts: Vec<String> = Vec::new();
    let mut cur = String::new();
    let mut depth = 0;
    let mut i = 0;
    while i < b.len() {
        let c = b[i];
        match c {
            '(' | '[' => {
                depth += 1;
                cur.push(c);
            }
            ')' | ']' => {
                depth -= 1;
                cur.push(c);
            }
            '\\' => {
                cur.push(c);
                if i + 1 < b.len() {
                    cur.push(b[i + 1]);
                    i += 1;
                }
            }
            ' ' | '>' | '+' | '~' if depth == 0 => {
                if !cur.is_empty() {
                    parts.push(std::mem::take(&mut cur));
                }
                if c != ' ' {
                    parts.push(c.to_string());
                }
            }
            c => cur.push(c),
        }
        i += 1;
    }
    if !cur.is_empty() {
        parts.push(cur);
    }
    let mut res: Complex = Vec::new();
    let mut prev_compound = false;
    for p in parts {
        if p == ">" || p == "+" || p == "~" {
            res.push(Part::Comb(p.chars().next().unwrap()));
            prev_compound = false;
        } else {
            if prev_compound {
                res.push(Part::Comb(' '));
            }
            res.push(Part::C(parse_compound(&p)?));
            prev_compound = true;
        }
    }
    Ok(res)
}

fn ident_len(b: &[char]) -> usize {
    let mut i = 0;
    while i < b.len() {
        let c = b[i];
        if c == '\\' && i + 1 < b.len() {
            i += 2;
            continue;
        }
        if c.is_alphanumeric() || c == '-' || c == '_' || !c.is_ascii() {
            i += 1;
        } else {
            break;
        }
    }
    i
}

pub fn parse_compound(s: &str) -> Result<Compound, SelErr> {
    let b: Vec<char> = s.chars().collect();
    let mut out = Vec::new();
    let mut i = 0;
    if b.first() == Some(&'*') {
        out.push(Simple::Universal);
        i = 1;
    } else {
        let n = ident_len(&b);
        if n > 0 {
            out.push(Simple::Type(b[..n].iter().collect()));
            i = n;
        }
    }
    while i < b.len() {
        match b[i] {
            '.' | '#' | '%' => {
                let n = ident_len(&b[i + 1..]);
                if n == 0 {
                    return Err(SelErr(format!("bad simple selector in {:?}", s)));
                }
                let name: String = b[i + 1..i + 1 + n].iter().collect();
                out.push(match b[i] {
                    '.' => Simple::Class(name),
                    '#' => Simple::Id(name),
                    _ => Simple::Placeholder(name),
                });
                i += 1 + n;
            }
            '[' => {
                let mut j = i;
                while j < b.len() && b[j] != ']' {
                    j += 1;
                }
                out.push(Simple::Attr(b[i..=j.min(b.len() - 1)].iter().collect()));
                i = j + 1;
            }
            ':' => {
                let mut j = i + 1;
                if b.get(j) == Some(&':') {
                    j += 1;
                }
                let n = ident_len(&b[j..]);
                let name: String = b[j..j + n].iter().collect();
                let is_element = j == i + 2;
                j += n;
                if b.get(j) == Some(&'(') {
                    let mut depth = 0;
                    let start = j;
                    loop {
                        if j >= b.len() {
                            return Err(SelErr(format!("unbalanced parentheses in {:?}", s)));
                        }
                        if b[j] == '(' {
                            depth += 1;
                        }
                        if b[j] == ')' {
                            depth -= 1;
                            if depth == 0 {
                                break;
                            }
                        }
                        j += 1;
                    }
                    let arg: String = b[start + 1..j].iter().collect();
                    j += 1;
                    let lname = name.to_ascii_lowercase();
                    if !is_element && lname == "not" {
                        out.push(Simple::Not(parse_list(&arg)?));
                    } else if !is_element && matches!(lname.as_str(), "is" | "where" | "matches" | "any" | "-moz-any" | "-webkit-any") {
                        out.push(Simple::Is(parse_list(&arg)?));
                    } else {
                        out.push(Simple::Pseudo(format!("{}{}({})", if is_element { "::" } else { ":" }, name, arg.split_whitespace().collect::<Vec<_>>().join(" "))));
                    }
                } else {
                    out.push(Simple::Pseudo(format!("{}{}", if is_element { "::" } else { ":" }, name)));
                }
                i = j;
            }
            c => return Err(SelErr(format!("unexpected {:?} in compound {:?}", c, s))),
        }
    }
    if out.is_empty() {
        return Err(SelErr(format!("empty compound in {:?}", s)));
    }
    Ok(out)
}

// ---------------------------------------------------------------------------------------------
// DOM
// ---------------------------------------------------------------------------------------------

#[derive(Clone, Debug)]
pub struct El {
    pub ty: usize,            // index into Features.types
    pub id: Option<usize>,    // index into Features.ids
    pub flags: u32,           // bit i = feature i of Features.flags present
    pub parent: Option<usize>,
    pub prev: Option<usize>,
}

#[derive(Clone, Debug, Default)]
pub struct Features {
    pub types: Vec<String>, // last entry is a type no selector mentions
    pub ids: Vec<String>,
    pub flags: Vec<Simple>, // Class / Attr / Pseudo
}

pub fn collect_features(lists: &[&List]) -> Features {
    let mut types = BTreeSet::new();
    let mut ids = BTreeSet::new();
    let mut flags = BTreeSet::new();
    fn walk(cx: &Complex, types: &mut BTreeSet<String>, ids: &mut BTreeSet<String>, flags: &mut BTreeSet<Simple>) {
        for p in cx {
            if let Part::C(c) = p {
                for s in c {
                    match s {
                        Simple::Type(t) => {
                            types.insert(t.clone());
                        }
                        Simple::Id(i) => {
                            ids.insert(i.clone());
                        }
                        Simple::Class(_) | Simple::Attr(_) | Simple::Pseudo(_) => {
                            flags.insert(s.clone());
                        }
                        Simple::Not(l) | Simple::Is(l) => {
                            for c2 in l {
                                walk(c2, types, ids, flags);
                            }
                        }
                        _ => {}
                    }
                }
            }
        }
    }
    for l in lists {
        for cx in l.iter() {
            walk(cx, &mut types, &mut ids, &mut flags);
        }
    }
    let mut t: Vec<String> = types.into_iter().collect();
    t.push("zz-unmentioned".into());
    Features { types: t, ids: ids.into_iter().collect(), flags: flags.into_iter().collect() }
}

/// tree shapes (parent index per node) for n nodes, in document order
pub fn shapes(n: usize) -> Vec<Vec<Option<usize>>> {
    match n {
        1 => vec![vec![None]],
        2 => vec![vec![None, Some(0)]],
        3 => vec![vec![None, Some(0), Some(1)], vec![None, Some(0), Some(0)]],
        4 => vec![
            vec![None, Some(0), Some(1), Some(2)],
            vec![None, Some(0), Some(1), Some(1)],
            vec![None, Some(0), Some(1), Some(0)],
            vec![None, Some(0), Some(0), Some(2)],
            vec![None, Some(0), Some(0), Some(0)],
        ],
        _ => vec![],
    }
}

/// number of distinct element labels
pub fn label_count(f: &Features) -> u64 {
    f.types.len() as u64 * (f.ids.len() as u64 + 1) * (1u64 << f.flags.len())
}

pub fn label(f: &Features, k: u64) -> (usize, Option<usize>, u32) {
    let nt = f.types.len() as u64;
    let ni = f.ids.len() as u64 + 1;
    let ty = (k % nt) as usize;
    let idv = ((k / nt) % ni) as usize;
    let flags = (k / (nt * ni)) as u32;
    (ty, if idv == 0 { None } else { Some(idv - 1) }, flags)
}

pub fn build_dom(f: &Features, shape: &[Option<usize>], labels: &[u64]) -> Vec<El> {
    let mut els: Vec<El> = Vec::new();
    for (i, par) in shape.iter().enumerate() {
        let (ty, id, flags) = label(f, labels[i]);
        let prev = (0..i).rev().find(|j| els[*j].parent == *par);
        els.push(El { ty, id, flags, parent: *par, prev });
    }
    els
}

/// credit[e] = set of simple selectors element e is credited with (extend crediting)
pub type Credit = Vec<BTreeSet<Simple>>;

pub fn has(f: &Features, dom: &[El], e: usize, s: &Simple, credit: &Credit) -> bool {
    if !matches!(s, Simple::Not(_) | Simple::Is(_)) && credit.get(e).map(|c| c.contains(s)).unwrap_or(false) {
        return true;
    }
    match s {
        Simple::Universal => true,
        Simple::Type(t) => f.types[dom[e].ty] == *t,
        Simple::Id(i) => dom[e].id.map(|k| f.ids[k] == *i).unwrap_or(false),
        Simple::Class(_) | Simple::Attr(_) | Simple::Pseudo(_) => f.flags.iter().position(|x| x == s).map(|k| dom[e].flags & (1 << k) != 0).unwrap_or(false),
        Simple::Placeholder(_) => false,
        Simple::Not(l) => !l.iter().any(|c| m_complex(f, dom, e, c, credit)),
        Simple::Is(l) => l.iter().any(|c| m_complex(f, dom, e, c, credit)),
    }
}

pub fn m_compound(f: &Features, dom: &[El], e: usize, c: &Compound, credit: &Credit) -> bool {
    c.iter().all(|s| has(f, dom, e, s, credit))
}

fn m_from(f: &Features, dom: &[El], e: usize, cx: &Complex, i: usize, credit: &Credit) -> bool {
    let Part::C(c) = &cx[i] else { return false };
    if !m_compound(f, dom, e, c, credit) {
        return false;
    }
    if i == 0 {
        return true;
    }
    let Part::Comb(comb) = &cx[i - 1] else { return false };
    if i < 2 {
        return false; // leading combinator: matches nothing on its own
    }
    match comb {
        ' ' => {
            let mut p = dom[e].parent;
            while let Some(pp) = p {
                if m_from(f, dom, pp, cx, i - 2, credit) {
                    return true;
                }
                p = dom[pp].parent;
            }
            false
        }
        '>' => dom[e].parent.map(|p| m_from(f, dom, p, cx, i - 2, credit)).unwrap_or(false),
        '+' => dom[e].prev.map(|p| m_from(f, dom, p, cx, i - 2, credit)).unwrap_or(false),
        _ => {
            let mut p = dom[e].prev;
            while let Some(pp) = p {
                if m_from(f, dom, pp, cx, i - 2, credit) {
                    return true;
                }
                p = dom[pp].prev;
            }
            false
        }
    }
}

pub fn m_complex(f: &Features, dom: &[El], e: usize, cx: &Complex, credit: &Credit) -> bool {
    if cx.is_empty() || !matches!(cx.last(), Some(Part::C(_))) {
        return false;
    }
    m_from(f, dom, e, cx, cx.len() - 1, credit)
}

pub fn m_list(f: &Features, dom: &[El], e: usize, l: &List, credit: &Credit) -> bool {
    l.iter().any(|c| m_complex(f, dom, e, c, credit))
}

pub fn compounds_in(cx: &Complex) -> usize {
    cx.iter().filter(|p| matches!(p, Part::C(_))).count()
}

pub fn spec_simple(s: &Simple) -> u64 {
    match s {
        Simple::Id(_) => 1_000_000,
        Simple::Class(_) | Simple::Attr(_) | Simple::Placeholder(_) => 1000,
        Simple::Pseudo(p) => {
            if p.starts_with("::") {
                1
            } else {
                1000
            }
        }
        Simple::Type(_) => 1,
        Simple::Universal => 0,
        Simple::Not(l) | Simple::Is(l) => l.iter().map(spec_complex).max().unwrap_or(0),
    }
}

pub fn spec_complex(cx: &Complex) -> u64 {
    cx.iter()
        .map(|p| match p {
            Part::C(c) => c.iter().map(spec_simple).sum(),
            _ => 0,
        })
        .sum()
}

pub fn has_placeholder(l: &List) -> bool {
    l.iter().any(|cx| cx.iter().any(|p| matches!(p, Part::C(c) if c.iter().any(|s| matches!(s, Simple::Placeholder(_))))))
}

pub fn mentions_not(l: &List) -> bool {
    fn in_c(cx: &Complex) -> bool {
        cx.iter().any(|p| matches!(p, Part::C(c) if c.iter().any(|s| match s { Simple::Not(_) => true, Simple::Is(l) => l.iter().any(in_c), _ => false })))
    }
    l.iter().any(in_c)
}

/// Enumerate every DOM with <= maxn elements over the features; calls `f(dom)`; stops when it
/// returns false. Returns the number of DOMs visited.
pub fn for_each_dom(feat: &Features, maxn: usize, f: impl FnMut(&[El]) -> bool) -> u64 {
    for_each_dom_with(feat, maxn, false, f)
}

/// forests (several top-level elements, siblings of each other) stand for trees with one more,
/// unlabelled, root element: a sibling relation between the top-level elements costs no element
pub fn forest_shapes(n: usize) -> Vec<Vec<Option<usize>>> {
    match n {
        2 => vec![vec![None, None]],
        3 => vec![vec![None, None, None], vec![None, None, Some(1)], vec![None, Some(0), None]],
        _ => vec![],
    }
}

pub fn for_each_dom_with(feat: &Features, maxn: usize, forests: bool, mut f: impl FnMut(&[El]) -> bool) -> u64 {
    let nl = label_count(feat);
    let mut count = 0u64;
    for n in 1..=maxn {
        let mut all = shapes(n);
        if forests {
            all.extend(forest_shapes(n));
        }
        for shape in all {
            let total = nl.pow(n as u32);
            let mut labels = vec![0u64; n];
            for k in 0..total {
                let mut x = k;
                for l in labels.iter_mut() {
                    *l = x % nl;
                    x /= nl;
                }
                let dom = build_dom(feat, &shape, &labels);
                count += 1;
                if !f(&dom) {
                    return count;
                }
            }
        }
    }
    count
}
