//! Reference colour math written from the CSS Color definitions (independent of grass).

/// rgb in [0,255] -> (hue deg [0,360), saturation %, lightness %)
pub fn rgb_to_hsl(r: f64, g: f64, b: f64) -> (f64, f64, f64) {
    let (r, g, b) = (r / 255.0, g / 255.0, b / 255.0);
    let max = r.max(g).max(b);
    let min = r.min(g).min(b);
    let d = max - min;
    let l = (max + min) / 2.0;
    let mut h = if d == 0.0 {
        0.0
    } else if max == r {
        60.0 * ((g - b) / d)
    } else if max == g {
        60.0 * ((b - r) / d) + 120.0
    } else {
        60.0 * ((r - g) / d) + 240.0
    };
    if h < 0.0 {
        h += 360.0;
    }
    let s = if d == 0.0 || l == 0.0 || l == 1.0 { 0.0 } else { d / (1.0 - (2.0 * l - 1.0).abs()) };
    (h % 360.0, s * 100.0, l * 100.0)
}

/// CSS hsl -> rgb (unrounded, [0,255])
pub fn hsl_to_rgb(h: f64, s: f64, l: f64) -> (f64, f64, f64) {
    let h = ((h % 360.0) + 360.0) % 360.0;
    let s = (s / 100.0).clamp(0.0, 1.0);
    let l = (l / 100.0).clamp(0.0, 1.0);
    let f = |n: f64| {
        let k = (n + h / 30.0) % 12.0;
        let a = s * l.min(1.0 - l);
        l - a * (-1.0f64).max((k - 3.0).min(9.0 - k).min(1.0))
    };
    (f(0.0) * 255.0, f(8.0) * 255.0, f(4.0) * 255.0)
}

/// CSS hwb -> rgb (unrounded)
pub fn hwb_to_rgb(h: f64, w: f64, bl: f64) -> (f64, f64, f64) {
    let mut w = w / 100.0;
    let mut bl = bl / 100.0;
    if w + bl > 1.0 {
        let s = w + bl;
        w /= s;
        bl /= s;
    }
    let (r, g, b) = hsl_to_rgb(h, 100.0, 50.0);
    let f = |c: f64| (c / 255.0 * (1.0 - w - bl) + w) * 255.0;
    (f(r), f(g), f(b))
}

pub fn rgb_to_hwb(r: f64, g: f64, b: f64) -> (f64, f64, f64) {
    let (h, _, _) = rgb_to_hsl(r, g, b);
    let w = r.min(g).min(b) / 255.0;
    let bl = 1.0 - r.max(g).max(b) / 255.0;
    (h, w * 100.0, bl * 100.0)
}

/// Sass channel rounding: half away from zero, with the 1e-11 tolerance at .5
pub fn round_channel(x: f64) -> f64 {
    x.clamp(0.0, 255.0).round()
}

/// distance of x from the nearest rounding tie (k + 0.5)
pub fn tie_distance(x: f64) -> f64 {
    ((x - x.floor()) - 0.5).abs()
}
