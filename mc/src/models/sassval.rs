//! A small SassScript value model with source and inspect() printers and reference
//! implementations of the list / map / string built-ins, written from the Sass documentation.

#[derive(Clone, Debug, PartialEq)]
pub enum Sep {
    Space,
    Comma,
    Slash,
    Undecided,
}

#[derive(Clone, Debug, PartialEq)]
pub enum Val {
    Num(f64),
    Str(String, bool),
    Null,
    Bool(bool),
    List(Vec<Val>, Sep, bool),
    Map(Vec<(Val, Val)>),
}

pub struct RefErr;
pub type R = Result<Val, RefErr>;

pub fn s(t: &str) -> Val {
    Val::Str(t.to_string(), false)
}
pub fn q(t: &str) -> Val {
    Val::Str(t.to_string(), true)
}
pub fn n(x: f64) -> Val {
    Val::Num(x)
}

fn fmtnum(x: f64) -> String {
    super::num::render(x, false)
}

impl Val {
    /// SassScript source text that evaluates to this value
    pub fn src(&self) -> String {
        match self {
            Val::Num(x) => {
                if x.fract() == 0.0 || (x * 1e10).fract() == 0.0 {
                    fmtnum(*x)
                } else {
                    format!("{:.16}", x).trim_end_matches('0').to_string()
                }
            }
            Val::Str(t, true) => {
                // double quotes unless the text contains a double quote and no single quote
                if t.contains('"') && !t.contains('\'') {
                    format!("'{}'", t)
                } else {
                    format!("\"{}\"", t.replace('"', "\\\""))
                }
            }
            Val::Str(t, false) => t.clone(),
            Val::Null => "null".into(),
            Val::Bool(b) => b.to_string(),
            Val::Map(es) => {
                if es.is_empty() {
                    "map-remove((k: 1), k)".into()
                } else {
                    format!("({})", es.iter().map(|(k, v)| format!("{}: {}", k.src(), v.src_in_comma())).collect::<Vec<_>>().join(", "))
                }
            }
            Val::List(items, sep, br) => {
                if *sep == Sep::Slash {
                    return format!("list.slash({})", items.iter().map(|i| i.src_in_comma()).collect::<Vec<_>>().join(", "));
                }
                let j = match sep {
                    Sep::Comma => items.iter().map(|i| i.src_in_comma()).collect::<Vec<_>>().join(", "),
                    _ => items.iter().map(|i| i.src_in_space()).collect::<Vec<_>>().join(" "),
                };
                let j = if *sep == Sep::Comma && items.len() == 1 { format!("{},", j) } else { j };
                if *br {
                    format!("[{}]", j)
                } else {
                    format!("({})", j)
                }
            }
        }
    }
    fn src_in_comma(&self) -> String {
        match self {
            Val::List(_, Sep::Comma, false) => self.src(),
            _ => self.src(),
        }
    }
    fn src_in_space(&self) -> String {
        self.src()
    }

    /// what `inspect()` prints
    pub fn inspect(&self) -> String {
        match self {
            Val::Num(x) => fmtnum(*x),
            Val::Str(t, true) => {
                if t.contains('"') && !t.contains('\'') {
                    format!("'{}'", t)
                } else {
                    format!("\"{}\"", t.replace('"', "\\\""))
                }
            }
            Val::Str(t, false) => t.clone(),
            Val::Null => "null".into(),
            Val::Bool(b) => b.to_string(),
            Val::Map(es) => format!(
                "({})",
                es.iter()
                    .map(|(k, v)| {
                        let ks = match k {
                            Val::List(i, Sep::Comma, false) if !i.is_empty() => format!("({})", k.inspect()),
                            _ => k.inspect(),
                        };
                        let vs = match v {
                            Val::List(i, Sep::Comma, false) if !i.is_empty() => format!("({})", v.inspect()),
                            _ => v.inspect(),
                        };
                        format!("{}: {}", ks, vs)
                    })
                    .collect::<Vec<_>>()
                    .join(", ")
            ),
            Val::List(items, sep, br) => {
                if items.is_empty() {
                    return if *br { "[]".into() } else { "()".into() };
                }
                let el = |i: &Val| {
                    let t = i.inspect();
                    if let Val::List(inner, isep, false) = i {
                        if inner.len() >= 2 || (inner.len() == 1 && matches!(isep, Sep::Comma | Sep::Slash)) {
                            let need = match sep {
                                Sep::Comma => *isep == Sep::Comma,
                                Sep::Slash => matches!(isep, Sep::Comma | Sep::Slash),
                                _ => *isep != Sep::Undecided,
                            };
                            if need && inner.len() >= 2 {
                                return format!("({})", t);
                            }
                        }
                    }
                    t
                };
                let joiner = match sep {
                    Sep::Comma => ", ",
                    Sep::Slash => " / ",
                    _ => " ",
                };
                let mut j = items.iter().map(el).collect::<Vec<_>>().join(joiner);
                let single = items.len() == 1 && matches!(sep, Sep::Comma | Sep::Slash);
                if single {
                    j.push_str(if *sep == Sep::Comma { "," } else { "/" });
                }
                if *br {
                    format!("[{}]", j)
                } else if single {
                    format!("({})", j)
                } else {
                    j
                }
            }
        }
    }

    pub fn as_list(&self) -> (Vec<Val>, Sep, bool) {
        match self {
            Val::List(i, s, b) => (i.clone(), s.clone(), *b),
            Val::Map(es) => (es.iter().map(|(k, v)| Val::List(vec![k.clone(), v.clone()], Sep::Space, false)).collect(), if es.is_empty() { Sep::Undecided } else { Sep::Comma }, false),
            v => (vec![v.clone()], Sep::Undecided, false),
        }
    }

    /// Sass `==` on the modelled kinds (numbers exact here: the universes avoid fuzzy neighbours)
    pub fn sass_eq(&self, o: &Val) -> bool {
        match (self, o) {
            (Val::Str(a, _), Val::Str(b, _)) => a == b,
            (Val::Num(a), Val::Num(b)) => a == b,
            (Val::List(a, sa, ba), Val::List(b, sb, bb)) => {
                let norm = |s: &Sep| if *s == Sep::Undecided { Sep::Space } else { s.clone() };
                if a.is_empty() && b.is_empty() {
                    return ba == bb;
                }
                norm(sa) == norm(sb) && ba == bb && a.len() == b.len() && a.iter().zip(b).all(|(x, y)| x.sass_eq(y))
            }
            (Val::Map(a), Val::Map(b)) => a.len() == b.len() && a.iter().all(|(k, v)| b.iter().any(|(k2, v2)| k.sass_eq(k2) && v.sass_eq(v2))),
            (Val::Map(a), Val::List(b, _, false)) | (Val::List(b, _, false), Val::Map(a)) => a.is_empty() && b.is_empty(),
            (a, b) => a == b,
        }
    }
}

// ---------------------------------------------------------------------------------------------
// lists
// ---------------------------------------------------------------------------------------------

pub fn index_of(nv: &Val, len: usize) -> Result<usize, RefErr> {
    let Val::Num(x) = nv else { return Err(RefErr) };
    if (x - x.round()).abs() > 1e-11 {
        return Err(RefErr);
    }
    let k = x.round() as i64;
    if k == 0 || k.unsigned_abs() as usize > len {
        return Err(RefErr);
    }
    Ok(if k > 0 { k as usize - 1 } else { (len as i64 + k) as usize })
}

pub fn nth(l: &Val, i: &Val) -> R {
    let (items, _, _) = l.as_list();
    Ok(items[index_of(i, items.len())?].clone())
}
pub fn set_nth(l: &Val, i: &Val, v: &Val) -> R {
    let (mut items, sep, br) = l.as_list();
    let k = index_of(i, items.len())?;
    items[k] = v.clone();
    Ok(Val::List(items, sep, br))
}
pub fn length(l: &Val) -> R {
    Ok(Val::Num(l.as_list().0.len() as f64))
}
pub fn index(l: &Val, v: &Val) -> R {
    Ok(l.as_list().0.iter().position(|x| x.sass_eq(v)).map(|i| Val::Num(i as f64 + 1.0)).unwrap_or(Val::Null))
}
pub fn append(l: &Val, v: &Val, sep: Option<&str>) -> R {
    let (mut items, s, br) = l.as_list();
    items.push(v.clone());
    let s = match sep {
        None | Some("auto") => {
            if s == Sep::Undecided {
                Sep::Space
            } else {
                s
            }
        }
        Some("comma") => Sep::Comma,
        Some("space") => Sep::Space,
        Some("slash") => Sep::Slash,
        _ => return Err(RefErr),
    };
    Ok(Val::List(items, s, br))
}
pub fn join(a: &Val, b: &Val, sep: Option<&str>, bracketed: Option<bool>) -> R {
    let (mut i1, s1, b1) = a.as_list();
    let (i2, s2, _) = b.as_list();
    i1.extend(i2);
    let s = match sep {
        None | Some("auto") => {
            if s1 != Sep::Undecided {
                s1
            } else if s2 != Sep::Undecided {
                s2
            } else {
                Sep::Space
            }
        }
        Some("comma") => Sep::Comma,
        Some("space") => Sep::Space,
        Some("slash") => Sep::Slash,
        _ => return Err(RefErr),
    };
    Ok(Val::List(i1, s, bracketed.unwrap_or(b1)))
}
pub fn separator(l: &Val) -> R {
    Ok(s(match l.as_list().1 {
        Sep::Comma => "comma",
        Sep::Slash => "slash",
        _ => "space",
    }))
}
pub fn is_bracketed(l: &Val) -> R {
    Ok(Val::Bool(matches!(l, Val::List(_, _, true))))
}
pub fn zip(ls: &[Val]) -> R {
    let lists: Vec<Vec<Val>> = ls.iter().map(|l| l.as_list().0).collect();
    let m = lists.iter().map(|l| l.len()).min().unwrap_or(0);
    Ok(Val::List((0..m).map(|i| Val::List(lists.iter().map(|l| l[i].clone()).collect(), Sep::Space, false)).collect(), Sep::Comma, false))
}

// ---------------------------------------------------------------------------------------------
// maps
// ---------------------------------------------------------------------------------------------

fn as_map(v: &Val) -> Result<Vec<(Val, Val)>, RefErr> {
    match v {
        Val::Map(e) => Ok(e.clone()),
        Val::List(i, _, false) if i.is_empty() => Ok(vec![]),
        _ => Err(RefErr),
    }
}
pub fn map_get(m: &Val, keys: &[Val]) -> R {
    let mut cur = m.clone();
    for (i, k) in keys.iter().enumerate() {
        let es = match as_map(&cur) {
            Ok(e) => e,
            Err(_) => {
                if i == 0 {
                    return Err(RefErr);
                }
                return Ok(Val::Null);
            }
        };
        match es.iter().find(|(k2, _)| k2.sass_eq(k)) {
            Some((_, v)) => cur = v.clone(),
            None => return Ok(Val::Null),
        }
    }
    Ok(cur)
}
pub fn map_has_key(m: &Val, keys: &[Val]) -> R {
    let mut cur = m.clone();
    for (i, k) in keys.iter().enumerate() {
        let es = match as_map(&cur) {
            Ok(e) => e,
            Err(_) => {
                if i == 0 {
                    return Err(RefErr);
                }
                return Ok(Val::Bool(false));
            }
        };
        match es.iter().find(|(k2, _)| k2.sass_eq(k)) {
            Some((_, v)) => cur = v.clone(),
            None => return Ok(Val::Bool(false)),
        }
    }
    Ok(Val::Bool(true))
}
pub fn map_keys(m: &Val) -> R {
    Ok(Val::List(as_map(m)?.into_iter().map(|e| e.0).collect(), Sep::Comma, false))
}
pub fn map_values(m: &Val) -> R {
    Ok(Val::List(as_map(m)?.into_iter().map(|e| e.1).collect(), Sep::Comma, false))
}
fn put(es: &mut Vec<(Val, Val)>, k: &Val, v: Val) {
    if let Some(e) = es.iter_mut().find(|e| e.0.sass_eq(k)) {
        e.1 = v;
    } else {
        es.push((k.clone(), v));
    }
}
pub fn map_merge(a: &Val, b: &Val) -> R {
    let mut es = as_map(a)?;
    for (k, v) in as_map(b)? {
        put(&mut es, &k, v);
    }
    Ok(Val::Map(es))
}
/// map.merge($map1, $keys..., $map2)
pub fn map_merge_nested(a: &Val, keys: &[Val], b: &Val) -> R {
    if keys.is_empty() {
        return map_merge(a, b);
    }
    let mut es = as_map(a)?;
    let inner = es.iter().find(|e| e.0.sass_eq(&keys[0])).map(|e| e.1.clone());
    let inner_map = match inner {
        Some(v) if as_map(&v).is_ok() => v,
        _ => Val::Map(vec![]),
    };
    let merged = map_merge_nested(&inner_map, &keys[1..], b)?;
    put(&mut es, &keys[0], merged);
    Ok(Val::Map(es))
}
pub fn map_remove(m: &Val, keys: &[Val]) -> R {
    let mut es = as_map(m)?;
    es.retain(|e| !keys.iter().any(|k| e.0.sass_eq(k)));
    Ok(Val::Map(es))
}
pub fn map_set(m: &Val, keys: &[Val], v: &Val) -> R {
    let mut es = as_map(m)?;
    if keys.len() == 1 {
        put(&mut es, &keys[0], v.clone());
        return Ok(Val::Map(es));
    }
    let inner = es.iter().find(|e| e.0.sass_eq(&keys[0])).map(|e| e.1.clone());
    let inner_map = match inner {
        Some(x) if as_map(&x).is_ok() => x,
        _ => Val::Map(vec![]),
    };
    let r = map_set(&inner_map, &keys[1..], v)?;
    put(&mut es, &keys[0], r);
    Ok(Val::Map(es))
}
pub fn deep_merge(a: &Val, b: &Val) -> R {
    let mut es = as_map(a)?;
    for (k, v) in as_map(b)? {
        let existing = es.iter().find(|e| e.0.sass_eq(&k)).map(|e| e.1.clone());
        match (existing, &v) {
            (Some(ev), nv) if matches!(ev, Val::Map(_)) && matches!(nv, Val::Map(_)) => {
                let r = deep_merge(&ev, nv)?;
                put(&mut es, &k, r);
            }
            _ => put(&mut es, &k, v),
        }
    }
    Ok(Val::Map(es))
}
/// `Err(RefErr)` doubles as "not specified": the documentation does not say what happens when an
/// intermediate key is missing or is not a map (the reference implementation inserts `key: null`);
/// callers treat that sub-space as outside the oracle.
pub fn deep_remove(m: &Val, keys: &[Val]) -> Result<Option<Val>, RefErr> {
    let mut es = as_map(m)?;
    if keys.len() == 1 {
        es.retain(|e| !e.0.sass_eq(&keys[0]));
        return Ok(Some(Val::Map(es)));
    }
    match es.iter().position(|e| e.0.sass_eq(&keys[0])) {
        Some(pos) if matches!(es[pos].1, Val::Map(_)) => match deep_remove(&es[pos].1.clone(), &keys[1..])? {
            Some(r) => {
                es[pos].1 = r;
                Ok(Some(Val::Map(es)))
            }
            None => Ok(None),
        },
        _ => Ok(None),
    }
}

// ---------------------------------------------------------------------------------------------
// strings (positions are code points)
// ---------------------------------------------------------------------------------------------

fn text(v: &Val) -> Result<(Vec<char>, bool), RefErr> {
    match v {
        Val::Str(t, qd) => Ok((t.chars().collect(), *qd)),
        _ => Err(RefErr),
    }
}
fn int(v: &Val) -> Result<i64, RefErr> {
    match v {
        Val::Num(x) if (x - x.round()).abs() <= 1e-11 => Ok(x.round() as i64),
        _ => Err(RefErr),
    }
}
pub fn str_length(sv: &Val) -> R {
    Ok(Val::Num(text(sv)?.0.len() as f64))
}
pub fn str_slice(sv: &Val, a: &Val, b: Option<&Val>) -> R {
    let (t, qd) = text(sv)?;
    let len = t.len() as i64;
    let a = int(a)?;
    let b = match b {
        Some(b) => int(b)?,
        None => -1,
    };
    if b == 0 {
        return Ok(Val::Str(String::new(), qd));
    }
    // 1-based inclusive, negative from the end
    let start = if a == 0 { 0 } else if a > 0 { (a - 1).min(len) } else { (len + a).max(0) };
    let mut end = if b > 0 { (b - 1).min(len) } else { len + b };
    if end == len {
        end -= 1;
    }
    if end < start || end < 0 {
        return Ok(Val::Str(String::new(), qd));
    }
    Ok(Val::Str(t[start as usize..=end as usize].iter().collect(), qd))
}
pub fn str_index(sv: &Val, sub: &Val) -> R {
    let (t, _) = text(sv)?;
    let (u, _) = text(sub)?;
    if u.is_empty() {
        return Ok(Val::Num(1.0));
    }
    for i in 0..t.len() {
        if i + u.len() <= t.len() && t[i..i + u.len()] == u[..] {
            return Ok(Val::Num(i as f64 + 1.0));
        }
    }
    Ok(Val::Null)
}
pub fn str_insert(sv: &Val, ins: &Val, i: &Val) -> R {
    let (t, qd) = text(sv)?;
    let (u, _) = text(ins)?;
    let k = int(i)?;
    let len = t.len() as i64;
    let off = if k < 0 { (len + k + 1).max(0) } else if k == 0 { 0 } else { (k - 1).min(len) } as usize;
    let mut out: Vec<char> = t[..off].to_vec();
    out.extend(u);
    out.extend(&t[off..]);
    Ok(Val::Str(out.into_iter().collect(), qd))
}
pub fn to_upper(sv: &Val) -> R {
    let (t, qd) = text(sv)?;
    Ok(Val::Str(t.iter().map(|c| if c.is_ascii_lowercase() { c.to_ascii_uppercase() } else { *c }).collect(), qd))
}
pub fn to_lower(sv: &Val) -> R {
    let (t, qd) = text(sv)?;
    Ok(Val::Str(t.iter().map(|c| if c.is_ascii_uppercase() { c.to_ascii_lowercase() } else { *c }).collect(), qd))
}
pub fn quote(sv: &Val) -> R {
    let (t, _) = text(sv)?;
    Ok(Val::Str(t.into_iter().collect(), true))
}
pub fn unquote(sv: &Val) -> R {
    let (t, _) = text(sv)?;
    Ok(Val::Str(t.into_iter().collect(), false))
}
pub fn split(sv: &Val, sepv: &Val, limit: Option<&Val>) -> R {
    let (t, qd) = text(sv)?;
    let (sp, _) = text(sepv)?;
    let limit = match limit {
        Some(l) => {
            let k = int(l)?;
            if k < 1 {
                return Err(RefErr);
            }
            Some(k as usize)
        }
        None => None,
    };
    let mk = |c: &[char]| Val::Str(c.iter().collect(), qd);
    let mut parts: Vec<Val> = Vec::new();
    if t.is_empty() {
        return Ok(Val::List(vec![], Sep::Comma, true));
    }
    if sp.is_empty() {
        let max = limit.map(|l| l.min(t.len())).unwrap_or(t.len());
        for (i, c) in t.iter().enumerate() {
            if limit.is_some() && i >= max {
                parts.push(mk(&t[i..]));
                break;
            }
            parts.push(mk(&[*c]));
        }
        return Ok(Val::List(parts, Sep::Comma, true));
    }
    let mut start = 0;
    let mut i = 0;
    while i + sp.len() <= t.len() {
        if limit.map(|l| parts.len() >= l).unwrap_or(false) {
            break;
        }
        if t[i..i + sp.len()] == sp[..] {
            parts.push(mk(&t[start..i]));
            i += sp.len();
            start = i;
        } else {
            i += 1;
        }
    }
    parts.push(mk(&t[start..]));
    Ok(Val::List(parts, Sep::Comma, true))
}
