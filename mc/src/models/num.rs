//! Exact decimal arithmetic on f64 for the number-printing reference (DESIGN A.7).
//! A double is m * 2^e exactly; its decimal expansion is computed with big integers, rounded
//! to 10 places half away from zero, zeros stripped, no exponent, no "-0".

#[derive(Clone, Debug, PartialEq, Eq)]
pub struct Big(Vec<u32>); // little endian base 2^32

impl Big {
    pub fn from_u64(v: u64) -> Big {
        let mut b = Big(vec![v as u32, (v >> 32) as u32]);
        b.trim();
        b
    }
    fn trim(&mut self) {
        while self.0.len() > 1 && *self.0.last().unwrap() == 0 {
            self.0.pop();
        }
        if self.0.is_empty() {
            self.0.push(0);
        }
    }
    pub fn is_zero(&self) -> bool {
        self.0.iter().all(|d| *d == 0)
    }
    pub fn mul_small(&mut self, k: u32) {
        let mut carry = 0u64;
        for d in self.0.iter_mut() {
            let v = *d as u64 * k as u64 + carry;
            *d = v as u32;
            carry = v >> 32;
        }
        if carry > 0 {
            self.0.push(carry as u32);
        }
    }
    pub fn add_small(&mut self, k: u32) {
        let mut carry = k as u64;
        for d in self.0.iter_mut() {
            if carry == 0 {
                break;
            }
            let v = *d as u64 + carry;
            *d = v as u32;
            carry = v >> 32;
        }
        if carry > 0 {
            self.0.push(carry as u32);
        }
    }
    pub fn shl(&mut self, bits: u32) {
        let words = (bits / 32) as usize;
        let b = bits % 32;
        if b > 0 {
            let mut carry = 0u32;
            for d in self.0.iter_mut() {
                let v = ((*d as u64) << b) | carry as u64;
                *d = v as u32;
                carry = (v >> 32) as u32;
            }
            if carry > 0 {
                self.0.push(carry);
            }
        }
        if words > 0 {
            let mut v = vec![0u32; words];
            v.extend_from_slice(&self.0);
            self.0 = v;
        }
    }
    /// (self >> bits, comparison of the shifted-out remainder with half: -1 below, 0 tie, 1 above, and whether remainder is zero)
    pub fn shr_round_info(&self, bits: u32) -> (Big, i32, bool) {
        let words = (bits / 32) as usize;
        let b = bits % 32;
        if bits == 0 {
            return (self.clone(), -1, true);
        }
        // remainder bits: low `bits` bits
        let bit_at = |i: u32| -> bool {
            let w = (i / 32) as usize;
            if w >= self.0.len() {
                false
            } else {
                self.0[w] & (1 << (i % 32)) != 0
            }
        };
        let half_bit = bit_at(bits - 1);
        let mut rest_nonzero = false;
        for i in 0..(bits - 1) {
            if bit_at(i) {
                rest_nonzero = true;
                break;
            }
        }
        let cmp = if half_bit {
            if rest_nonzero {
                1
            } else {
                0
            }
        } else {
            -1
        };
        let rem_zero = !half_bit && !rest_nonzero;
        let mut out = Vec::new();
        for i in words..self.0.len() {
            let lo = self.0[i] >> b;
            let hi = if b > 0 && i + 1 < self.0.len() { self.0[i + 1] << (32 - b) } else { 0 };
            out.push(lo | hi);
        }
        let mut q = Big(out);
        q.trim();
        (q, cmp, rem_zero)
    }
    pub fn to_decimal(&self) -> String {
        let mut v = self.0.clone();
        let mut digits = Vec::new();
        loop {
            let mut rem = 0u64;
            let mut allzero = true;
            for d in v.iter_mut().rev() {
                let cur = (rem << 32) | *d as u64;
                *d = (cur / 1_000_000_000) as u32;
                rem = cur % 1_000_000_000;
                if *d != 0 {
                    allzero = false;
                }
            }
            digits.push(rem as u32);
            if allzero {
                break;
            }
        }
        let mut s = String::new();
        for (i, d) in digits.iter().rev().enumerate() {
            if i == 0 {
                s.push_str(&format!("{}", d));
            } else {
                s.push_str(&format!("{:09}", d));
            }
        }
        s
    }
}

/// Decompose a finite f64 into (negative, mantissa, exponent) with value = mantissa * 2^exponent.
pub fn decompose(x: f64) -> (bool, u64, i32) {
    let bits = x.to_bits();
    let neg = bits >> 63 != 0;
    let exp = ((bits >> 52) & 0x7ff) as i32;
    let frac = bits & ((1u64 << 52) - 1);
    if exp == 0 {
        (neg, frac, -1074)
    } else {
        (neg, frac | (1u64 << 52), exp - 1075)
    }
}

/// Scaled integer N = round(|x| * 10^places) with the given tie policy (true = away from zero,
/// false = to even); returns decimal digits of N.
fn scaled(x: f64, places: u32, tie_away: bool) -> String {
    let (_, m, e) = decompose(x);
    let mut n = Big::from_u64(m);
    for _ in 0..places {
        n.mul_small(10);
    }
    if e >= 0 {
        n.shl(e as u32);
        return n.to_decimal();
    }
    let (mut q, cmp, _) = n.shr_round_info((-e) as u32);
    let up = match cmp {
        1 => true,
        0 => {
            if tie_away {
                true
            } else {
                q.0[0] & 1 == 1
            }
        }
        _ => false,
    };
    if up {
        q.add_small(1);
    }
    q.to_decimal()
}

fn format_scaled(neg: bool, digits: &str, places: usize, compressed: bool) -> String {
    let mut d = digits.to_string();
    while d.len() <= places {
        d.insert(0, '0');
    }
    let (ip, fp) = d.split_at(d.len() - places);
    let fp = fp.trim_end_matches('0');
    let nonzero = ip.chars().any(|c| c != '0') || !fp.is_empty();
    let mut s = String::new();
    if neg && nonzero {
        s.push('-');
    }
    if compressed && ip == "0" && !fp.is_empty() {
        // leading zero omitted
    } else {
        s.push_str(ip);
    }
    if !fp.is_empty() {
        s.push('.');
        s.push_str(fp);
    }
    s
}

/// Reference rendering of a finite double: at most 10 fractional digits, correctly rounded.
pub fn render(x: f64, compressed: bool) -> String {
    if x.is_nan() {
        return "NaN".into();
    }
    if x.is_infinite() {
        return if x > 0.0 { "Infinity".into() } else { "-Infinity".into() };
    }
    let (neg, _, _) = decompose(x);
    format_scaled(neg, &scaled(x, 10, true), 10, compressed)
}

/// All renderings a correct implementation may produce: both tie policies at an exact tie.
pub fn accepted(x: f64, compressed: bool) -> Vec<String> {
    if !x.is_finite() {
        return vec![render(x, compressed)];
    }
    let (neg, _, _) = decompose(x);
    let mut v = vec![
        format_scaled(neg, &scaled(x, 10, true), 10, compressed),
        format_scaled(neg, &scaled(x, 10, false), 10, compressed),
    ];
    v.dedup();
    v
}

/// Is |x| * 10^places exactly halfway between two integers?
pub fn is_exact_tie(x: f64, places: u32) -> bool {
    if !x.is_finite() {
        return false;
    }
    let (_, m, e) = decompose(x);
    if e >= 0 {
        return false;
    }
    let mut n = Big::from_u64(m);
    for _ in 0..places {
        n.mul_small(10);
    }
    n.shr_round_info((-e) as u32).1 == 0
}

pub fn next_up(x: f64) -> f64 {
    if x.is_nan() || x == f64::INFINITY {
        return x;
    }
    if x == 0.0 {
        return f64::from_bits(1);
    }
    let b = x.to_bits();
    f64::from_bits(if x > 0.0 { b + 1 } else { b - 1 })
}
pub fn next_down(x: f64) -> f64 {
    -next_up(-x)
}

/// Parse a Sass-printed number (optional sign, digits, optional fraction; or Infinity/NaN).
pub fn parse_printed(s: &str) -> Option<f64> {
    match s {
        "NaN" => return Some(f64::NAN),
        "Infinity" => return Some(f64::INFINITY),
        "-Infinity" => return Some(f64::NEG_INFINITY),
        _ => {}
    }
    if s.is_empty() {
        return None;
    }
    let body = s.strip_prefix('-').unwrap_or(s);
    if body.is_empty() || !body.chars().all(|c| c.is_ascii_digit() || c == '.') || body.matches('.').count() > 1 {
        return None;
    }
    if body.starts_with('.') {
        format!("{}0{}", if s.starts_with('-') { "-" } else { "" }, body).parse().ok()
    } else {
        s.parse().ok()
    }
}

pub const EPS: f64 = 1e-11;
pub fn fuzzy_eq(a: f64, b: f64) -> bool {
    if a == b {
        return true;
    }
    (a - b).abs() <= EPS && (a * 1e11).round() == (b * 1e11).round()
}

#[cfg(test)]
mod t {
    use super::*;
    #[test]
    fn basics() {
        assert_eq!(render(0.1, false), "0.1");
        assert_eq!(render(0.5, true), ".5");
        assert_eq!(render(-0.0, false), "0");
        assert_eq!(render(1e18, false), "1000000000000000000");
        assert_eq!(render(0.99999999999, true), "1");
        assert_eq!(render(1.0 / 3.0, false), "0.3333333333");
        assert_eq!(render(-0.00000000001, false), "0");
        assert!(is_exact_tie(0.00048828125, 10));
    }
}
