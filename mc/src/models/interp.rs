//! Reference interpreter for SassCore (DESIGN A.1): scope chain of plain maps with a `semi`
//! flag, closures that capture the list of frames, argument binding from the language
//! reference, a log of probes / @debug / @warn. No caches, no flags.

use super::sassval::{Sep, Val};
use crate::gen::core::*;
use std::cell::RefCell;
use std::collections::BTreeMap;
use std::rc::Rc;

#[derive(Debug, Clone, PartialEq)]
pub enum Ev {
    /// probe id -> inspect text (emitted as a declaration)
    Probe(usize, String),
    /// (kind, message, statement id for the line)
    Log(&'static str, String, usize),
}

#[derive(Debug)]
pub struct SassErr(pub String);

type Frame = Rc<RefCell<(BTreeMap<String, Val>, bool)>>; // (variables, semi-global)

#[derive(Clone)]
struct Callable {
    params: Params,
    body: Vec<S>,
    env: Vec<Frame>,
    first_id: usize, // id of the first Probe/Debug/Warn inside the body (ids are static)
}

#[derive(Clone)]
struct ContentBlock {
    params: Params,
    body: Vec<S>,
    env: Vec<Frame>,
    first_id: usize,
    mixins: BTreeMap<String, Callable>,
    functions: BTreeMap<String, Callable>,
    content: Option<Box<ContentBlock>>,
}

pub struct Interp {
    pub events: Vec<Ev>,
    functions: BTreeMap<String, Callable>,
    mixins: BTreeMap<String, Callable>,
    content: Option<Box<ContentBlock>>,
    steps: u64,
    kw_used: std::collections::BTreeSet<usize>,
    kw_next: usize,
}

enum Flow {
    Normal,
    Return(Val),
}

fn new_frame(semi: bool) -> Frame {
    Rc::new(RefCell::new((BTreeMap::new(), semi)))
}

pub fn count_ids(ss: &[S]) -> usize {
    ss.iter()
        .map(|s| match s {
            S::Probe(_) | S::Decl(_) | S::Debug(_) | S::Warn(_) => 1,
            S::Rule(_, b) | S::Each(_, _, b) | S::For(_, _, _, _, b) | S::While(_, b) | S::MixinDef(_, _, b) | S::FuncDef(_, _, b) => count_ids(b),
            S::If(br, e) => br.iter().map(|x| count_ids(&x.1)).sum::<usize>() + e.as_ref().map(|x| count_ids(x)).unwrap_or(0),
            S::Include(_, _, Some((_, b))) => count_ids(b),
            _ => 0,
        })
        .sum()
}

pub fn truthy(v: &Val) -> bool {
    !matches!(v, Val::Null | Val::Bool(false))
}

impl Interp {
    pub fn run(prog: &[S]) -> Result<Vec<Ev>, SassErr> {
        let mut it = Interp { events: vec![], functions: BTreeMap::new(), mixins: BTreeMap::new(), content: None, steps: 0, kw_used: Default::default(), kw_next: 0 };
        let env = vec![new_frame(true)];
        let mut id = 0;
        match it.block(prog, &env, &mut id)? {
            Flow::Normal => Ok(it.events),
            Flow::Return(_) => Err(SassErr("@return outside function".into())),
        }
    }

    fn lookup(env: &[Frame], name: &str) -> Option<Val> {
        for f in env.iter().rev() {
            if let Some(v) = f.borrow().0.get(name) {
                return Some(v.clone());
            }
        }
        None
    }

    fn assign(env: &[Frame], name: &str, val: Val, global: bool) {
        if global || env.len() == 1 {
            env[0].borrow_mut().0.insert(name.to_string(), val);
            return;
        }
        for i in (0..env.len()).rev() {
            if env[i].borrow().0.contains_key(name) {
                if i > 0 {
                    env[i].borrow_mut().0.insert(name.to_string(), val);
                } else if env[env.len() - 1].borrow().1 {
                    env[0].borrow_mut().0.insert(name.to_string(), val);
                } else {
                    env[env.len() - 1].borrow_mut().0.insert(name.to_string(), val);
                }
                return;
            }
        }
        env[env.len() - 1].borrow_mut().0.insert(name.to_string(), val);
    }

    fn block(&mut self, ss: &[S], env: &[Frame], id: &mut usize) -> Result<Flow, SassErr> {
        for s in ss {
            self.steps += 1;
            if self.steps > 200_000 {
                return Err(SassErr("step limit".into()));
            }
            match s {
                S::Set { var, e, global, default } => {
                    if *default {
                        let cur = if *global { env[0].borrow().0.get(var).cloned() } else { Self::lookup(env, var) };
                        if let Some(c) = cur {
                            if c != Val::Null {
                                continue;
                            }
                        }
                    }
                    let val = self.eval(e, env)?;
                    Self::assign(env, var, val, *global);
                }
                S::Probe(e) | S::Decl(e) => {
                    let my = *id;
                    *id += 1;
                    let v = self.eval(e, env)?;
                    self.events.push(Ev::Probe(my, v.inspect()));
                }
                S::Debug(e) | S::Warn(e) => {
                    let my = *id;
                    *id += 1;
                    let v = self.eval(e, env)?;
                    let kind = if matches!(s, S::Debug(_)) { "debug" } else { "warn" };
                    let msg = if kind == "debug" { v.inspect() } else { css_text(&v)? };
                    self.events.push(Ev::Log(kind, msg, my));
                }
                S::Rule(_, body) => {
                    let mut e2 = env.to_vec();
                    e2.push(new_frame(false));
                    if let Flow::Return(v) = self.block(body, &e2, id)? {
                        return Ok(Flow::Return(v));
                    }
                }
                S::If(branches, els) => {
                    let semi = env[env.len() - 1].borrow().1;
                    let mut taken = false;
                    let mut skip_ids = 0usize;
                    let mut result = Flow::Normal;
                    for (c, body) in branches {
                        if !taken && truthy(&self.eval(c, env)?) {
                            taken = true;
                            let mut e2 = env.to_vec();
                            e2.push(new_frame(semi));
                            let mut local = *id + skip_ids;
                            result = self.block(body, &e2, &mut local)?;
                        }
                        skip_ids += count_ids(body);
                    }
                    if let Some(eb) = els {
                        if !taken {
                            let mut e2 = env.to_vec();
                            e2.push(new_frame(semi));
                            let mut local = *id + skip_ids;
                            result = self.block(eb, &e2, &mut local)?;
                        }
                        skip_ids += count_ids(eb);
                    }
                    *id += skip_ids;
                    if let Flow::Return(v) = result {
                        return Ok(Flow::Return(v));
                    }
                }
                S::Each(vars, e, body) => {
                    let semi = env[env.len() - 1].borrow().1;
                    let list = self.eval(e, env)?.as_list().0;
                    let start = *id;
                    let mut e2 = env.to_vec();
                    e2.push(new_frame(semi));
                    for item in list {
                        if vars.len() == 1 {
                            e2[e2.len() - 1].borrow_mut().0.insert(vars[0].clone(), item);
                        } else {
                            let parts = item.as_list().0;
                            for (k, var) in vars.iter().enumerate() {
                                e2[e2.len() - 1].borrow_mut().0.insert(var.clone(), parts.get(k).cloned().unwrap_or(Val::Null));
                            }
                        }
                        let mut local = start;
                        if let Flow::Return(v) = self.block(body, &e2, &mut local)? {
                            return Ok(Flow::Return(v));
                        }
                    }
                    *id = start + count_ids(body);
                }
                S::For(var, a, bnd, through, body) => {
                    let semi = env[env.len() - 1].borrow().1;
                    let from = int_of(&self.eval(a, env)?)?;
                    let to = int_of(&self.eval(bnd, env)?)?;
                    let start = *id;
                    let mut e2 = env.to_vec();
                    e2.push(new_frame(semi));
                    let step: i64 = if from <= to { 1 } else { -1 };
                    let end = if *through { to + step } else { to };
                    let mut k = from;
                    while k != end {
                        e2[e2.len() - 1].borrow_mut().0.insert(var.clone(), Val::Num(k as f64));
                        let mut local = start;
                        if let Flow::Return(v) = self.block(body, &e2, &mut local)? {
                            return Ok(Flow::Return(v));
                        }
                        k += step;
                    }
                    *id = start + count_ids(body);
                }
                S::While(c, body) => {
                    let semi = env[env.len() - 1].borrow().1;
                    let start = *id;
                    let mut e2 = env.to_vec();
                    e2.push(new_frame(semi));
                    let mut guard = 0;
                    while truthy(&self.eval(c, &e2)?) {
                        guard += 1;
                        if guard > 1000 {
                            return Err(SassErr("loop limit".into()));
                        }
                        let mut local = start;
                        if let Flow::Return(v) = self.block(body, &e2, &mut local)? {
                            return Ok(Flow::Return(v));
                        }
                    }
                    *id = start + count_ids(body);
                }
                S::MixinDef(name, params, body) => {
                    self.mixins.insert(name.replace('_', "-"), Callable { params: params.clone(), body: body.clone(), env: env.to_vec(), first_id: *id });
                    *id += count_ids(body);
                }
                S::FuncDef(name, params, body) => {
                    self.functions.insert(name.replace('_', "-"), Callable { params: params.clone(), body: body.clone(), env: env.to_vec(), first_id: *id });
                    *id += count_ids(body);
                }
                S::Include(name, args, content) => {
                    let m = self.mixins.get(&name.replace('_', "-")).cloned().ok_or_else(|| SassErr("undefined mixin".into()))?;
                    let cb = content.as_ref().map(|(params, body)| {
                        Box::new(ContentBlock { params: params.clone(), body: body.clone(), env: env.to_vec(), first_id: *id, mixins: self.mixins.clone(), functions: self.functions.clone(), content: self.content.clone() })
                    });
                    if let Some((_, body)) = content {
                        *id += count_ids(body);
                    }
                    let (pos, named) = self.eval_args(args, env)?;
                    let mut e2 = m.env.clone();
                    e2.push(new_frame(false));
                    let pending = self.bind(&m.params, pos, named, &e2)?;
                    let saved = std::mem::replace(&mut self.content, cb);
                    let mut local = m.first_id;
                    let r = self.block(&m.body, &e2, &mut local);
                    self.content = saved;
                    if let Flow::Return(_) = r? {
                        return Err(SassErr("@return in mixin".into()));
                    }
                    self.check_kw(pending)?;
                }
                S::Content(args) => {
                    if let Some(cb) = self.content.clone() {
                        let (pos, named) = self.eval_args(args, env)?;
                        let mut e2 = cb.env.clone();
                        e2.push(new_frame(false));
                        let pending = self.bind(&cb.params, pos, named, &e2)?;
                        // the block runs with the callables and the content block visible where it was written
                        let saved_c = std::mem::replace(&mut self.content, cb.content.clone());
                        let mut local = cb.first_id;
                        let r = self.block(&cb.body, &e2, &mut local);
                        self.content = saved_c;
                        r?;
                        self.check_kw(pending)?;
                    }
                }
                S::Return(e) => {
                    let v = self.eval(e, env)?;
                    return Ok(Flow::Return(v));
                }
            }
        }
        Ok(Flow::Normal)
    }

    fn eval_args(&mut self, args: &[Arg], env: &[Frame]) -> Result<(Vec<Val>, Vec<(String, Val)>), SassErr> {
        let mut pos = Vec::new();
        let mut named: Vec<(String, Val)> = Vec::new();
        for a in args {
            match a {
                Arg::Pos(e) => pos.push(self.eval(e, env)?),
                Arg::Named(n, e) => {
                    let v = self.eval(e, env)?;
                    let n = n.replace('_', "-");
                    if named.iter().any(|x| x.0 == n) {
                        return Err(SassErr("duplicate named argument".into()));
                    }
                    named.push((n, v));
                }
                Arg::Splat(e) => match self.eval(e, env)? {
                    Val::Map(es) => {
                        for (k, v) in es {
                            match k {
                                Val::Str(s, _) => named.push((s.replace('_', "-"), v)),
                                _ => return Err(SassErr("non-string keyword".into())),
                            }
                        }
                    }
                    other => pos.extend(other.as_list().0),
                },
            }
        }
        Ok((pos, named))
    }

    /// Returns the id of the argument list when keywords were left over for the rest parameter:
    /// the call fails afterwards unless the body looked at them through keywords().
    fn bind(&mut self, params: &Params, mut pos: Vec<Val>, mut named: Vec<(String, Val)>, env: &[Frame]) -> Result<Option<usize>, SassErr> {
        let top = env[env.len() - 1].clone();
        if pos.len() > params.params.len() && params.rest.is_none() {
            return Err(SassErr("too many positional arguments".into()));
        }
        for (k, p) in params.params.iter().enumerate() {
            let pname = p.name.replace('_', "-");
            let from_named = named.iter().position(|x| x.0 == pname);
            if k < pos.len() {
                if from_named.is_some() {
                    return Err(SassErr("passed both by position and by name".into()));
                }
                top.borrow_mut().0.insert(p.name.clone(), pos[k].clone());
            } else if let Some(j) = from_named {
                let (_, v) = named.remove(j);
                top.borrow_mut().0.insert(p.name.clone(), v);
            } else if let Some(d) = &p.default {
                let v = self.eval(d, env)?;
                top.borrow_mut().0.insert(p.name.clone(), v);
            } else {
                return Err(SassErr("missing argument".into()));
            }
        }
        let extra: Vec<Val> = if pos.len() > params.params.len() { pos.split_off(params.params.len()) } else { vec![] };
        match &params.rest {
            Some(r) => {
                // the rest list carries the remaining keywords; the model observes them through keywords()
                let list = Val::List(extra, Sep::Comma, false);
                let pending = if named.is_empty() { None } else { Some(self.kw_next) };
                top.borrow_mut().0.insert(r.clone(), list);
                top.borrow_mut().0.insert(format!("{}%kwid", r), Val::Num(self.kw_next as f64));
                self.kw_next += 1;
                top.borrow_mut().0.insert(format!("{}%keywords", r), Val::Map(named.into_iter().map(|(k, v)| (Val::Str(k, false), v)).collect()));
                return Ok(pending);
            }
            None => {
                if !named.is_empty() {
                    return Err(SassErr("unknown named argument".into()));
                }
            }
        }
        Ok(None)
    }

    fn check_kw(&self, pending: Option<usize>) -> Result<(), SassErr> {
        match pending {
            Some(id) if !self.kw_used.contains(&id) => Err(SassErr("named arguments left in a rest list nobody looked at".into())),
            _ => Ok(()),
        }
    }

    pub fn eval(&mut self, e: &E, env: &[Frame]) -> Result<Val, SassErr> {
        Ok(match e {
            E::Int(n) => Val::Num(*n as f64),
            E::Dec(x) => Val::Num(*x),
            E::Str(s) => Val::Str(s.clone(), true),
            E::Ident(s) => Val::Str(s.clone(), false),
            E::Bool(b) => Val::Bool(*b),
            E::Null => Val::Null,
            E::Var(n) => Self::lookup(env, n).ok_or_else(|| SassErr(format!("undefined variable ${}", n)))?,
            E::Paren(x) => self.eval(x, env)?,
            E::Not(x) => Val::Bool(!truthy(&self.eval(x, env)?)),
            E::Neg(x) => match self.eval(x, env)? {
                Val::Num(n) => Val::Num(-n),
                Val::Null => return Err(SassErr("UNSPECIFIED: arithmetic on null".into())),
                other => Val::Str(format!("-{}", inspect_operand(&other)?), false),
            },
            E::List(items, comma) => {
                let vs: Result<Vec<Val>, SassErr> = items.iter().map(|x| self.eval(x, env)).collect();
                Val::List(vs?, if *comma { Sep::Comma } else { Sep::Space }, false)
            }
            E::Map(es) => {
                let mut out: Vec<(Val, Val)> = Vec::new();
                for (k, w) in es {
                    let kv = self.eval(k, env)?;
                    let wv = self.eval(w, env)?;
                    if out.iter().any(|x| x.0.sass_eq(&kv)) {
                        return Err(SassErr("duplicate key".into()));
                    }
                    out.push((kv, wv));
                }
                Val::Map(out)
            }
            E::Bin(op, l, r) => {
                match *op {
                    "and" => {
                        let lv = self.eval(l, env)?;
                        if !truthy(&lv) {
                            return Ok(lv);
                        }
                        return self.eval(r, env);
                    }
                    "or" => {
                        let lv = self.eval(l, env)?;
                        if truthy(&lv) {
                            return Ok(lv);
                        }
                        return self.eval(r, env);
                    }
                    _ => {}
                }
                let lv = self.eval(l, env)?;
                let rv = self.eval(r, env)?;
                binop(op, lv, rv)?
            }
            E::Call(f, args) => {
                match f.as_str() {
                    "keywords" => {
                        if let Some(Arg::Pos(E::Var(n))) = args.first() {
                            if let Some(Val::Num(k)) = Self::lookup(env, &format!("{}%kwid", n)) {
                                self.kw_used.insert(k as usize);
                            }
                            return Self::lookup(env, &format!("{}%keywords", n)).ok_or_else(|| SassErr("not an arglist".into()));
                        }
                        return Err(SassErr("keywords() needs a variable".into()));
                    }
                    "length" => {
                        let (pos, _) = self.eval_args(args, env)?;
                        return Ok(Val::Num(pos[0].as_list().0.len() as f64));
                    }
                    "nth" => {
                        let (pos, _) = self.eval_args(args, env)?;
                        return super::sassval::nth(&pos[0], &pos[1]).map_err(|_| SassErr("nth".into()));
                    }
                    _ => {}
                }
                let c = self.functions.get(&f.replace('_', "-")).cloned().ok_or_else(|| SassErr(format!("undefined function {}", f)))?;
                let (pos, named) = self.eval_args(args, env)?;
                let mut e2 = c.env.clone();
                e2.push(new_frame(false));
                let pending = self.bind(&c.params, pos, named, &e2)?;
                let mut local = c.first_id;
                match self.block(&c.body, &e2, &mut local)? {
                    Flow::Return(v) => {
                        self.check_kw(pending)?;
                        v
                    }
                    Flow::Normal => return Err(SassErr("function finished without @return".into())),
                }
            }
        })
    }
}

fn int_of(v: &Val) -> Result<i64, SassErr> {
    match v {
        Val::Num(x) if x.fract() == 0.0 => Ok(*x as i64),
        _ => Err(SassErr("not an integer".into())),
    }
}

/// text of a value when used as CSS (interpolation, concatenation, @warn)
pub fn css_text(v: &Val) -> Result<String, SassErr> {
    Ok(match v {
        Val::Num(x) => super::num::render(*x, false),
        Val::Str(s, _) => s.clone(),
        Val::Bool(b) => b.to_string(),
        Val::Null => String::new(),
        Val::List(items, sep, br) => {
            let parts: Result<Vec<String>, SassErr> = items.iter().filter(|x| **x != Val::Null).map(css_text).collect();
            let j = parts?.join(match sep {
                Sep::Comma => ", ",
                Sep::Slash => "/",
                _ => " ",
            });
            if *br {
                format!("[{}]", j)
            } else {
                j
            }
        }
        Val::Map(_) => return Err(SassErr("map is not a CSS value".into())),
    })
}

pub fn binop(op: &str, l: Val, r: Val) -> Result<Val, SassErr> {
    if matches!(op, "+" | "-") && l == Val::Null && r == Val::Null {
        // text of null + null (empty unquoted string or null) is not settled by the reference material
        return Err(SassErr("UNSPECIFIED: arithmetic on null".into()));
    }
    Ok(match op {
        "==" => Val::Bool(l.sass_eq(&r)),
        "!=" => Val::Bool(!l.sass_eq(&r)),
        "<" | ">" | "<=" | ">=" => match (&l, &r) {
            (Val::Num(a), Val::Num(b)) => Val::Bool(match op {
                "<" => a < b,
                ">" => a > b,
                "<=" => a <= b,
                _ => a >= b,
            }),
            _ => return Err(SassErr("undefined comparison".into())),
        },
        "+" => match (&l, &r) {
            (Val::Num(a), Val::Num(b)) => Val::Num(a + b),
            (Val::Map(_), _) | (_, Val::Map(_)) => return Err(SassErr("map in +".into())),
            (Val::Str(a, qa), _) => Val::Str(format!("{}{}", a, css_text(&r)?), *qa),
            (_, Val::Str(b, qb)) => Val::Str(format!("{}{}", css_text(&l)?, b), *qb),
            _ => Val::Str(format!("{}{}", css_text(&l)?, css_text(&r)?), false),
        },
        "-" => match (&l, &r) {
            (Val::Num(a), Val::Num(b)) => Val::Num(a - b),
            (Val::Map(_), _) | (_, Val::Map(_)) => return Err(SassErr("map in -".into())),
            _ => Val::Str(format!("{}-{}", inspect_operand(&l)?, inspect_operand(&r)?), false),
        },
        "*" => match (&l, &r) {
            (Val::Num(a), Val::Num(b)) => Val::Num(a * b),
            _ => return Err(SassErr("undefined *".into())),
        },
        "%" => match (&l, &r) {
            (Val::Num(a), Val::Num(b)) => {
                if *b == 0.0 {
                    Val::Num(f64::NAN)
                } else {
                    let m = a % b;
                    Val::Num(if m != 0.0 && (m < 0.0) != (*b < 0.0) { m + b } else { m })
                }
            }
            _ => return Err(SassErr("undefined %".into())),
        },
        _ => return Err(SassErr(format!("operator {}", op))),
    })
}

/// `a - b` on non-numbers keeps quotes of quoted operands
fn inspect_operand(v: &Val) -> Result<String, SassErr> {
    match v {
        // a quoted operand is serialized the way inspect() prints it (single quotes when the text holds a `"`)
        Val::Str(_, true) => Ok(v.inspect()),
        other => css_text(other),
    }
}
