//! Explorer core: subject runner, in-memory Fs, collecting Logger, parallel enumeration with
//! watchdog, report / evidence / known-findings bookkeeping.
//!
//! Determinism rules: no HashMap iteration reaches a verdict, no clocks in verdicts, no
//! randomness. `VERIF_SEED` only rotates the order in which shards are handed to workers.

pub mod crash;
pub mod fs;
pub mod report;
pub mod run;
pub mod sched;

pub use fs::*;
pub use report::*;
pub use run::*;

use std::sync::atomic::{AtomicBool, AtomicU64, Ordering};
use std::sync::Arc;
use std::time::{Duration, Instant};

/// Deterministic 64-bit digest (FNV-1a).
pub fn digest(bytes: &[u8]) -> u64 {
    let mut h: u64 = 0xcbf29ce484222325;
    for b in bytes {
        h ^= *b as u64;
        h = h.wrapping_mul(0x100000001b3);
    }
    h
}

pub fn digest_str(s: &str) -> u64 {
    digest(s.as_bytes())
}

pub fn nworkers() -> usize {
    std::env::var("VERIF_JOBS")
        .ok()
        .and_then(|v| v.parse().ok())
        .unwrap_or_else(|| {
            std::thread::available_parallelism()
                .map(|n| n.get())
                .unwrap_or(8)
        })
}

pub const WORKER_STACK: usize = 256 << 20;

/// Per-worker accumulator; merged into the report when the worker finishes a space.
#[derive(Default)]
pub struct Local {
    pub evals: u64,
    pub validated: u64,
    pub nontrivial: u64,
    pub outcomes: std::collections::BTreeSet<u64>,
    pub counters: std::collections::BTreeMap<&'static str, u64>,
}

impl Local {
    #[inline]
    pub fn outcome(&mut self, d: u64) {
        // bounded: distinct-outcome counting saturates (reported as ">= cap")
        if self.outcomes.len() < 200_000 {
            self.outcomes.insert(d);
        }
    }
    #[inline]
    pub fn count(&mut self, k: &'static str, n: u64) {
        *self.counters.entry(k).or_insert(0) += n;
    }
}

/// Enumerate indices `0..n` of sub-space `sub` on all cores. `f(i, local)` runs case i.
/// A watchdog reports a case that makes no progress for `hang_limit` as a Hang violation
/// (after which the run is finalised at once, since the stuck thread cannot be reclaimed).
pub fn par<F, D>(ctx: &Ctx, sub: &str, n: u64, describe: D, f: F) -> u64
where
    F: Fn(u64, &mut Local) + Sync,
    D: Fn(u64) -> serde_json::Value + Sync,
{
    if let Some((s, _)) = &ctx.replay_filter {
        if s != sub {
            return u64::MAX;
        }
    }
    let ordinal = ctx.par_ordinal.fetch_add(1, Ordering::SeqCst);
    crash::SUB_ORDINAL.store(ordinal, Ordering::SeqCst);
    match &ctx.mode {
        Mode::Normal => {}
        Mode::Only { ord, idx } => {
            if *ord == ordinal && *idx < n {
                let mut local = Local::default();
                f(*idx, &mut local);
                ctx.merge(sub, local);
            }
            return ordinal;
        }
        Mode::DescribeCrash { ord, idxs } => {
            if *ord == ordinal {
                for &i in idxs {
                    if i >= n {
                        continue;
                    }
                    let exe = std::env::current_exe().expect("current_exe");
                    let st = std::process::Command::new(exe)
                        .args([&ctx.prop, ctx.tier.name(), "--only", &ordinal.to_string(), &i.to_string()])
                        .stdout(std::process::Stdio::null())
                        .stderr(std::process::Stdio::null())
                        .status();
                    let crashed = match st {
                        Ok(s) => s.code().map(|c| c == 3 || c >= 128).unwrap_or(true),
                        Err(_) => false,
                    };
                    if crashed {
                        let d = describe(i);
                        let key = d.get("key").and_then(|k| k.as_str()).map(|s| s.to_string()).unwrap_or_else(|| format!("crash:{}:{}", sub, i));
                        ctx.violation(sub, &key, "Crash: the process aborted (stack overflow, allocation failure or abort) while running this case", serde_json::json!({"class": "crash", "index": i, "case": d}));
                    }
                }
            }
            return ordinal;
        }
    }
    let nw = nworkers().max(1);
    let chunk: u64 = (n / (nw as u64 * 64)).clamp(1, 4096);
    let next = AtomicU64::new(0);
    let nchunks = (n + chunk - 1) / chunk;
    let rot = if nchunks > 0 { ctx.seed % nchunks } else { 0 };
    let slots: Vec<(AtomicU64, AtomicU64)> = (0..nw)
        .map(|_| (AtomicU64::new(u64::MAX), AtomicU64::new(0)))
        .collect();
    let done = AtomicBool::new(false);
    let t0 = Instant::now();
    let hang_limit = Duration::from_secs(ctx.hang_limit_s.load(Ordering::Relaxed));
    std::thread::scope(|s| {
        let mut handles = Vec::new();
        for w in 0..nw {
            let next = &next;
            let slots = &slots;
            let f = &f;
            let h = std::thread::Builder::new()
                .stack_size(WORKER_STACK)
                .spawn_scoped(s, move || {
                    let mut local = Local::default();
                    loop {
                        let c = next.fetch_add(1, Ordering::Relaxed);
                        if c >= nchunks {
                            break;
                        }
                        let c = (c + rot) % nchunks;
                        let lo = c * chunk;
                        let hi = (lo + chunk).min(n);
                        for i in lo..hi {
                            slots[w].1.store(t0.elapsed().as_millis() as u64, Ordering::Relaxed);
                            slots[w].0.store(i, Ordering::Relaxed);
                            crash::SLOTS[w % crash::MAX_SLOTS].store(i, Ordering::Relaxed);
                            f(i, &mut local);
                        }
                    }
                    slots[w].0.store(u64::MAX, Ordering::Relaxed);
                    crash::SLOTS[w % crash::MAX_SLOTS].store(u64::MAX, Ordering::Relaxed);
                    local
                })
                .expect("spawn worker");
            handles.push(h);
        }
        // watchdog
        let done_ref = &done;
        let slots_ref = &slots;
        let describe = &describe;
        let wd = s.spawn(move || {
            while !done_ref.load(Ordering::Relaxed) {
                std::thread::sleep(Duration::from_millis(200));
                let now = t0.elapsed().as_millis() as u64;
                for sl in slots_ref.iter() {
                    let i = sl.0.load(Ordering::Relaxed);
                    let st = sl.1.load(Ordering::Relaxed);
                    if i != u64::MAX && now.saturating_sub(st) > hang_limit.as_millis() as u64 {
                        // confirm the slot is still on the same case
                        if sl.0.load(Ordering::Relaxed) == i && sl.1.load(Ordering::Relaxed) == st {
                            let d = describe(i);
                            ctx.hang(sub, i, d);
                        }
                    }
                }
            }
        });
        for h in handles {
            match h.join() {
                Ok(local) => ctx.merge(sub, local),
                Err(_) => ctx.machinery(&format!("worker thread panicked in harness code (sub {sub})")),
            }
        }
        done.store(true, Ordering::Relaxed);
        let _ = wd.join();
    });
    ctx.space_done(sub, n);
    ctx.space_wall(sub, t0.elapsed().as_secs_f64());
    ordinal
}

/// Cases whose key is listed in KNOWN_FINDINGS.txt as a [hang] or [crash] finding are not run
/// inside the shared explorer process (a hung thread cannot be reclaimed); each is re-run alone
/// in a subprocess with a time limit, and reported under its key if it still hangs/aborts.
pub fn run_isolated(ctx: &Ctx, sub: &str, ordinal: u64, cases: &[(u64, String)]) {
    if !matches!(ctx.mode, Mode::Normal) {
        return;
    }
    for (idx, key) in cases {
        let exe = std::env::current_exe().expect("current_exe");
        let mut child = match std::process::Command::new(exe)
            .args([&ctx.prop, ctx.tier.name(), "--only", &ordinal.to_string(), &idx.to_string()])
            .stdout(std::process::Stdio::null())
            .stderr(std::process::Stdio::null())
            .spawn()
        {
            Ok(c) => c,
            Err(e) => {
                ctx.machinery(&format!("cannot spawn isolated case: {}", e));
                continue;
            }
        };
        let t0 = Instant::now();
        let limit = Duration::from_secs(10);
        let verdict = loop {
            match child.try_wait() {
                Ok(Some(st)) => {
                    break match st.code() {
                        Some(0) | Some(1) => None,
                        Some(c) => Some(format!("Crash: isolated run exited with code {}", c)),
                        None => Some("Crash: isolated run was killed by a signal".to_string()),
                    }
                }
                Ok(None) => {
                    if t0.elapsed() > limit {
                        let _ = child.kill();
                        let _ = child.wait();
                        break Some(format!("Hang: no result within {:?} when run alone in a fresh process", limit));
                    }
                    std::thread::sleep(Duration::from_millis(20));
                }
                Err(_) => break None,
            }
        };
        ctx.add(sub, "known_hang_or_crash_cases_run_isolated", 1);
        if let Some(v) = verdict {
            ctx.violation(sub, key, &v, serde_json::json!({"class": "isolated", "index": idx}));
        }
    }
}

/// Run `f` on a fresh OS thread (fresh thread-local interner) with a big stack.
pub fn fresh_thread<T: Send, F: FnOnce() -> T + Send>(f: F) -> T {
    std::thread::scope(|s| {
        std::thread::Builder::new()
            .stack_size(16 << 20)
            .spawn_scoped(s, f)
            .expect("spawn")
            .join()
            .expect("fresh thread panicked in harness code")
    })
}

pub fn arc<T>(t: T) -> Arc<T> {
    Arc::new(t)
}
