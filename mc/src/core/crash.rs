//! Abort handling. A stack overflow or allocation failure inside grass aborts the process
//! (Rust prints a message and raises SIGABRT). The handler below writes which sub-space and
//! which case indices were in flight to `<root>/target/crash.<prop>.txt` and exits with code 3;
//! `./check` then re-invokes `mc <prop> <tier> --describe-crash`, which re-enumerates only those
//! indices, re-runs each alone in a subprocess to see which one aborts, and reports it.

use std::sync::atomic::{AtomicI32, AtomicU64, Ordering};

pub const MAX_SLOTS: usize = 256;
pub static SLOTS: [AtomicU64; MAX_SLOTS] = [const { AtomicU64::new(u64::MAX) }; MAX_SLOTS];
pub static SUB_ORDINAL: AtomicU64 = AtomicU64::new(0);
static CRASH_FD: AtomicI32 = AtomicI32::new(-1);

fn put_num(buf: &mut [u8], pos: &mut usize, mut n: u64) {
    let mut tmp = [0u8; 20];
    let mut k = 0;
    if n == 0 {
        tmp[0] = b'0';
        k = 1;
    }
    while n > 0 {
        tmp[k] = b'0' + (n % 10) as u8;
        n /= 10;
        k += 1;
    }
    while k > 0 {
        k -= 1;
        if *pos < buf.len() {
            buf[*pos] = tmp[k];
            *pos += 1;
        }
    }
}

extern "C" fn on_abort(_sig: libc::c_int) {
    let fd = CRASH_FD.load(Ordering::Relaxed);
    let mut buf = [0u8; 4096];
    let mut pos = 0usize;
    put_num(&mut buf, &mut pos, SUB_ORDINAL.load(Ordering::Relaxed));
    for s in SLOTS.iter() {
        let v = s.load(Ordering::Relaxed);
        if v != u64::MAX && pos + 24 < buf.len() {
            buf[pos] = b' ';
            pos += 1;
            put_num(&mut buf, &mut pos, v);
        }
    }
    buf[pos] = b'\n';
    pos += 1;
    unsafe {
        if fd >= 0 {
            libc::write(fd, buf.as_ptr() as *const libc::c_void, pos);
            libc::fsync(fd);
        }
        libc::_exit(3);
    }
}

pub fn crash_file(root: &std::path::Path, prop: &str) -> std::path::PathBuf {
    root.join("target").join(format!("crash.{}.txt", prop))
}

pub fn install(root: &std::path::Path, prop: &str) {
    let p = crash_file(root, prop);
    let _ = std::fs::create_dir_all(p.parent().unwrap());
    let _ = std::fs::remove_file(&p);
    let c = std::ffi::CString::new(p.to_string_lossy().as_bytes()).unwrap();
    unsafe {
        let fd = libc::open(c.as_ptr(), libc::O_CREAT | libc::O_WRONLY | libc::O_TRUNC, 0o644);
        CRASH_FD.store(fd, Ordering::Relaxed);
        let mut sa: libc::sigaction = std::mem::zeroed();
        sa.sa_sigaction = on_abort as usize;
        sa.sa_flags = libc::SA_ONSTACK;
        libc::sigemptyset(&mut sa.sa_mask);
        libc::sigaction(libc::SIGABRT, &sa, std::ptr::null_mut());
    }
}
