//! In-memory file system with call tracing, and a collecting Logger.

use grass_compiler::codemap::SpanLoc;
use std::collections::{BTreeMap, BTreeSet};
use std::io;
use std::path::{Component, Path, PathBuf};
use std::sync::Mutex;

/// Lexical normalisation: drops `.` components, resolves `..`, keeps it relative or absolute.
pub fn normalize(p: &Path) -> String {
    let mut out: Vec<String> = Vec::new();
    let mut abs = false;
    for c in p.components() {
        match c {
            Component::RootDir => abs = true,
            Component::CurDir => {}
            Component::ParentDir => {
                if matches!(out.last().map(|s| s.as_str()), Some(s) if s != "..") {
                    out.pop();
                } else if !abs {
                    out.push("..".into());
                }
            }
            Component::Normal(s) => out.push(s.to_string_lossy().into_owned()),
            Component::Prefix(_) => {}
        }
    }
    let j = out.join("/");
    if abs {
        format!("/{}", j)
    } else {
        j
    }
}

#[derive(Clone, Debug, PartialEq, Eq, PartialOrd, Ord)]
pub enum FsCall {
    IsFile(String),
    IsDir(String),
    Read(String),
    Canon(String),
}
impl FsCall {
    pub fn path(&self) -> &str {
        match self {
            FsCall::IsFile(p) | FsCall::IsDir(p) | FsCall::Read(p) | FsCall::Canon(p) => p,
        }
    }
}

#[derive(Debug, Default)]
pub struct MemFs {
    pub files: BTreeMap<String, Vec<u8>>,
    pub dirs: BTreeSet<String>,
    pub trace: Mutex<Vec<FsCall>>,
    /// canonicalize() normalises lexically (true) or is the trait default identity (false)
    pub canon: bool,
}

impl MemFs {
    pub fn new() -> Self {
        MemFs { canon: true, ..Default::default() }
    }
    pub fn add(&mut self, path: &str, content: &str) -> &mut Self {
        self.add_bytes(path, content.as_bytes().to_vec())
    }
    pub fn add_bytes(&mut self, path: &str, content: Vec<u8>) -> &mut Self {
        let n = normalize(Path::new(path));
        let mut p = Path::new(&n).parent();
        while let Some(d) = p {
            let ds = d.to_string_lossy().into_owned();
            if !ds.is_empty() {
                self.dirs.insert(ds);
            }
            p = d.parent();
        }
        self.files.insert(n, content);
        self
    }
    pub fn add_dir(&mut self, path: &str) -> &mut Self {
        self.dirs.insert(normalize(Path::new(path)));
        self
    }
    pub fn take_trace(&self) -> Vec<FsCall> {
        std::mem::take(&mut *self.trace.lock().unwrap())
    }
    fn log(&self, c: FsCall) {
        self.trace.lock().unwrap().push(c);
    }
    pub fn json(&self) -> serde_json::Value {
        let m: serde_json::Map<String, serde_json::Value> = self
            .files
            .iter()
            .map(|(k, v)| (k.clone(), serde_json::Value::String(String::from_utf8_lossy(v).into_owned())))
            .collect();
        serde_json::Value::Object(m)
    }
}

impl grass_compiler::Fs for MemFs {
    fn is_dir(&self, path: &Path) -> bool {
        let raw = path.to_string_lossy().into_owned();
        self.log(FsCall::IsDir(raw));
        let n = normalize(path);
        n.is_empty() || self.dirs.contains(&n)
    }
    fn is_file(&self, path: &Path) -> bool {
        let raw = path.to_string_lossy().into_owned();
        self.log(FsCall::IsFile(raw));
        self.files.contains_key(&normalize(path))
    }
    fn read(&self, path: &Path) -> io::Result<Vec<u8>> {
        let raw = path.to_string_lossy().into_owned();
        self.log(FsCall::Read(raw));
        self.files
            .get(&normalize(path))
            .cloned()
            .ok_or_else(|| io::Error::new(io::ErrorKind::NotFound, "no such file in MemFs"))
    }
    fn canonicalize(&self, path: &Path) -> io::Result<PathBuf> {
        let raw = path.to_string_lossy().into_owned();
        self.log(FsCall::Canon(raw));
        if self.canon {
            Ok(PathBuf::from(normalize(path)))
        } else {
            Ok(path.to_path_buf())
        }
    }
}

#[derive(Clone, Debug, PartialEq, Eq)]
pub struct LogEvent {
    pub kind: &'static str, // "debug" | "warn"
    pub message: String,
    pub file: String,
    pub line: usize, // 0-based
    pub col: usize,
}
impl LogEvent {
    pub fn json(&self) -> serde_json::Value {
        serde_json::json!({"kind": self.kind, "message": self.message, "file": self.file, "line": self.line+1, "col": self.col+1})
    }
}

#[derive(Debug, Default)]
pub struct CollectLogger {
    pub events: Mutex<Vec<LogEvent>>,
}
impl CollectLogger {
    pub fn new() -> Self {
        Self::default()
    }
    pub fn take(&self) -> Vec<LogEvent> {
        std::mem::take(&mut *self.events.lock().unwrap())
    }
}
impl grass_compiler::Logger for CollectLogger {
    fn debug(&self, location: SpanLoc, message: &str) {
        self.events.lock().unwrap().push(LogEvent {
            kind: "debug",
            message: message.to_string(),
            file: location.file.name().to_string(),
            line: location.begin.line,
            col: location.begin.column,
        });
    }
    fn warn(&self, location: SpanLoc, message: &str) {
        self.events.lock().unwrap().push(LogEvent {
            kind: "warn",
            message: message.to_string(),
            file: location.file.name().to_string(),
            line: location.begin.line,
            col: location.begin.column,
        });
    }
}
