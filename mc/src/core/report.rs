//! Per-run context: counters, violations, known-findings matching, evidence + replay files.

use super::Local;
use serde_json::{json, Value};
use std::collections::{BTreeMap, BTreeSet};
use std::path::PathBuf;
use std::sync::Mutex;
use std::time::{Duration, Instant};

#[derive(Clone, Copy, Debug, PartialEq, Eq)]
pub enum Tier {
    Quick,
    Thorough,
}
impl Tier {
    pub fn name(self) -> &'static str {
        match self {
            Tier::Quick => "quick",
            Tier::Thorough => "thorough",
        }
    }
    pub fn is_thorough(self) -> bool {
        self == Tier::Thorough
    }
}

#[derive(Clone, Debug)]
pub struct Violation {
    pub sub: String,
    pub key: String,
    pub what: String,
    pub detail: Value,
}

#[derive(Default)]
pub struct SubStats {
    pub cases: u64,
    pub evals: u64,
    pub validated: u64,
    pub nontrivial: u64,
    pub outcomes: BTreeSet<u64>,
    pub counters: BTreeMap<String, u64>,
    pub bound: String,
    pub exhaustive: bool,
    pub samples: Vec<Value>,
    pub wall: f64,
}

#[derive(Default)]
pub struct Report {
    pub subs: BTreeMap<String, SubStats>,
    pub violations: Vec<Violation>,
    pub viol_keys: BTreeSet<(String, String)>,
    pub viol_total: u64,
    pub caps: Vec<String>,
    pub notes: Vec<String>,
    pub assumptions: Vec<String>,
    pub machinery: Vec<String>,
    pub extra: BTreeMap<String, Value>,
}

pub enum Mode {
    Normal,
    Only { ord: u64, idx: u64 },
    DescribeCrash { ord: u64, idxs: Vec<u64> },
}

pub struct Ctx {
    pub mode: Mode,
    pub par_ordinal: std::sync::atomic::AtomicU64,
    pub prop: String,
    pub tier: Tier,
    pub seed: u64,
    pub root: PathBuf, // /verif
    pub hang_limit_s: std::sync::atomic::AtomicU64,
    pub t0: Instant,
    pub rep: Mutex<Report>,
    pub known: Vec<(String, String)>, // (key, text) for open findings of this property
    pub replay_filter: Option<(String, String)>, // (sub, key) when replaying one case
}

pub const MAX_RECORDED: usize = 60;

impl Ctx {
    pub fn new(prop: &str, tier: Tier) -> Ctx {
        let root = PathBuf::from(std::env::var("VERIF_ROOT").unwrap_or_else(|_| "/verif".into()));
        let seed = std::env::var("VERIF_SEED").ok().and_then(|s| s.parse().ok()).unwrap_or(0u64);
        let known = load_known(&root, prop);
        Ctx {
            mode: Mode::Normal,
            par_ordinal: std::sync::atomic::AtomicU64::new(0),
            prop: prop.to_string(),
            tier,
            seed,
            root,
            hang_limit_s: std::sync::atomic::AtomicU64::new(20),
            t0: Instant::now(),
            rep: Mutex::new(Report::default()),
            known,
            replay_filter: None,
        }
    }
    pub fn quick(&self) -> bool {
        self.tier == Tier::Quick
    }
    pub fn thorough(&self) -> bool {
        self.tier == Tier::Thorough
    }
    pub fn pick<T>(&self, q: T, t: T) -> T {
        if self.quick() {
            q
        } else {
            t
        }
    }

    pub fn merge(&self, sub: &str, l: Local) {
        let mut r = self.rep.lock().unwrap();
        let s = r.subs.entry(sub.to_string()).or_default();
        s.evals += l.evals;
        s.validated += l.validated;
        s.nontrivial += l.nontrivial;
        for o in l.outcomes {
            if s.outcomes.len() < 1_000_000 {
                s.outcomes.insert(o);
            }
        }
        for (k, v) in l.counters {
            *s.counters.entry(k.to_string()).or_insert(0) += v;
        }
    }
    pub fn space_done(&self, sub: &str, n: u64) {
        let mut r = self.rep.lock().unwrap();
        let s = r.subs.entry(sub.to_string()).or_default();
        s.cases += n;
    }
    pub fn space_wall(&self, sub: &str, w: f64) {
        let mut r = self.rep.lock().unwrap();
        let s = r.subs.entry(sub.to_string()).or_default();
        s.wall += w;
    }
    /// Declare the bound reached by a sub-space and whether it was enumerated completely.
    pub fn bound(&self, sub: &str, bound: &str, exhaustive: bool) {
        let mut r = self.rep.lock().unwrap();
        let s = r.subs.entry(sub.to_string()).or_default();
        s.bound = bound.to_string();
        s.exhaustive = exhaustive;
    }
    pub fn sample(&self, sub: &str, v: Value) {
        let mut r = self.rep.lock().unwrap();
        let s = r.subs.entry(sub.to_string()).or_default();
        if s.samples.len() < 3 {
            s.samples.push(v);
        }
    }
    pub fn cap(&self, what: &str) {
        self.rep.lock().unwrap().caps.push(what.to_string());
    }
    pub fn note(&self, what: &str) {
        self.rep.lock().unwrap().notes.push(what.to_string());
    }
    pub fn assume(&self, what: &str) {
        self.rep.lock().unwrap().assumptions.push(what.to_string());
    }
    pub fn extra(&self, k: &str, v: Value) {
        self.rep.lock().unwrap().extra.insert(k.to_string(), v);
    }
    pub fn add(&self, sub: &str, counter: &str, n: u64) {
        let mut r = self.rep.lock().unwrap();
        let s = r.subs.entry(sub.to_string()).or_default();
        *s.counters.entry(counter.to_string()).or_insert(0) += n;
    }
    pub fn machinery(&self, what: &str) {
        eprintln!("MACHINERY-ERROR property={} {}", self.prop, what);
        self.rep.lock().unwrap().machinery.push(what.to_string());
    }

    /// Record a violation. `key` is the specific finding key matched against KNOWN_FINDINGS.txt.
    pub fn violation(&self, sub: &str, key: &str, what: &str, detail: Value) {
        let mut r = self.rep.lock().unwrap();
        r.viol_total += 1;
        if r.viol_keys.insert((sub.to_string(), key.to_string())) && r.violations.len() < MAX_RECORDED {
            r.violations.push(Violation {
                sub: sub.to_string(),
                key: key.to_string(),
                what: what.to_string(),
                detail,
            });
        }
    }

    pub fn hang(&self, sub: &str, idx: u64, detail: Value) {
        let key = detail
            .get("key")
            .and_then(|k| k.as_str())
            .map(|s| s.to_string())
            .unwrap_or_else(|| format!("hang:{}:{}", sub, idx));
        self.violation(
            sub,
            &key,
            &format!("Hang: no progress for {} s on case {} of {}", self.hang_limit_s.load(std::sync::atomic::Ordering::Relaxed), idx, sub),
            json!({"class": "hang", "index": idx, "case": detail}),
        );
        self.cap(&format!("run finalised early: a case of {} hung and its thread cannot be reclaimed", sub));
        let code = self.finish_inner(false);
        std::process::exit(code);
    }

    /// known finding of the hang/crash class: must be run in isolation
    pub fn isolate(&self, key: &str) -> bool {
        matches!(self.mode, Mode::Normal) && self.known.iter().any(|(k, t)| k == key && (t.contains("[hang]") || t.contains("[crash]")))
    }

    pub fn is_known(&self, key: &str) -> Option<&str> {
        self.known.iter().find(|(k, _)| k == key).map(|(_, t)| t.as_str())
    }

    pub fn finish(&self) -> i32 {
        self.finish_inner(true)
    }

    fn finish_inner(&self, complete: bool) -> i32 {
        let r = self.rep.lock().unwrap();
        let wall = self.t0.elapsed().as_secs_f64();
        let mut states: u64 = 0;
        let mut transitions: u64 = 0;
        let mut validated: u64 = 0;
        let mut nontrivial: u64 = 0;
        let mut distinct_outcomes: u64 = 0;
        let mut samples: Vec<Value> = Vec::new();
        let mut subs_json = serde_json::Map::new();
        let mut all_exh = complete && r.caps.is_empty();
        for (name, s) in &r.subs {
            states += s.cases + s.outcomes.len() as u64;
            transitions += s.evals;
            validated += s.validated;
            nontrivial += s.nontrivial;
            distinct_outcomes += s.outcomes.len() as u64;
            for v in &s.samples {
                if samples.len() < 24 {
                    samples.push(json!({"sub": name, "case": v}));
                }
            }
            if !s.exhaustive {
                all_exh = false;
            }
            subs_json.insert(
                name.clone(),
                json!({
                    "cases_enumerated": s.cases, "implementation_executions": s.evals,
                    "validated_against_oracle": s.validated, "nontrivial": s.nontrivial,
                    "distinct_outcomes": s.outcomes.len(), "bound": s.bound,
                    "exhaustive_within_bound": s.exhaustive, "counters": s.counters, "wall_s": (s.wall * 100.0).round() / 100.0,
                }),
            );
        }
        if samples.is_empty() {
            samples.push(json!("<no cases>"));
        }
        // classify violations
        let mut new_v: Vec<&Violation> = Vec::new();
        let mut known_v: BTreeMap<String, (String, u64)> = BTreeMap::new();
        for v in &r.violations {
            if self.is_known(&v.key).is_some() {
                let e = known_v.entry(v.key.clone()).or_insert((v.what.clone(), 0));
                e.1 += 1;
            } else {
                new_v.push(v);
            }
        }
        let mut out_lines = Vec::new();
        for (k, (_w, _n)) in &known_v {
            out_lines.push(format!("KNOWN-FINDING: property={} key={} {}", self.prop, k, self.is_known(k).unwrap_or("")));
        }
        let rdir = self.root.join("replays").join(&self.prop);
        let mut replay_paths = Vec::new();
        if !new_v.is_empty() {
            let _ = std::fs::create_dir_all(&rdir);
        }
        for (i, v) in new_v.iter().enumerate() {
            let body = json!({
                "property": self.prop, "tier": self.tier.name(), "sub": v.sub, "key": v.key,
                "what": v.what, "detail": v.detail,
                "replay": format!("./check {} --replay <this file>", self.prop),
            });
            let h = super::digest_str(&format!("{}|{}", v.sub, v.key));
            let p = rdir.join(format!("{:016x}.json", h));
            let _ = std::fs::write(&p, serde_json::to_string_pretty(&body).unwrap());
            replay_paths.push(p.clone());
            if i < 40 {
                out_lines.push(format!("VIOLATION property={} replay={}", self.prop, p.display()));
                out_lines.push(format!("  [{}] {} :: {}", v.sub, v.key, v.what));
            }
        }
        if new_v.len() > 40 {
            out_lines.push(format!("  ... {} further distinct violations recorded under {}", new_v.len() - 40, rdir.display()));
        }
        let exit = if !r.machinery.is_empty() {
            2
        } else if !new_v.is_empty() {
            1
        } else {
            0
        };
        let ev = json!({
            "property_id": self.prop,
            "tier": self.tier.name(),
            "seed": self.seed,
            "level": "model_checking",
            "coverage": {
                "states": states.max(1),
                "transitions": transitions.max(1),
                "traces_validated_against_impl": validated,
                "samples": samples,
                "evaluations": transitions.max(1),
                "distinct_nontrivial": nontrivial.max(distinct_outcomes),
                "distinct_outcomes": distinct_outcomes,
                "rule": "states = enumerated input cases (distinct by construction of the enumeration) + distinct observed outcome digests; transitions = executions of the real implementation (one compile / CLI run each); traces_validated = executions whose result was compared with the oracle (reference model, relation or invariant); nontrivial = cases that reached the behaviour under test as counted per sub-space (see subspaces.*.counters)",
                "exhaustive": all_exh,
                "caps_hit": r.caps,
                "subspaces": Value::Object(subs_json),
                "extra": r.extra,
            },
            "assumptions": r.assumptions,
            "notes": r.notes,
            "wall_s": wall,
            "violations": new_v.len(),
            "violation_instances_total": r.viol_total,
            "known_findings_observed": known_v.iter().map(|(k, (w, n))| json!({"key": k, "what": w, "distinct": n})).collect::<Vec<_>>(),
            "machinery_errors": r.machinery,
        });
        if self.replay_filter.is_none() && !matches!(self.mode, Mode::Only { .. }) {
            let edir = self.root.join("evidence");
            let _ = std::fs::create_dir_all(&edir);
            let p = edir.join(format!("{}.json", self.prop));
            if let Err(e) = std::fs::write(&p, serde_json::to_string_pretty(&ev).unwrap()) {
                eprintln!("MACHINERY-ERROR cannot write evidence {}: {}", p.display(), e);
                return 2;
            }
        }
        for l in &out_lines {
            println!("{}", l);
        }
        println!(
            "SUMMARY property={} tier={} states={} transitions={} validated={} distinct_outcomes={} violations={} known={} exhaustive={} wall={:.1}s",
            self.prop, self.tier.name(), states, transitions, validated, distinct_outcomes, new_v.len(), known_v.len(), all_exh, wall
        );
        exit
    }
}

/// KNOWN_FINDINGS.txt: `open: property=<id> key=<key> -- <text>`; `fixed:` lines suppress nothing.
pub fn load_known(root: &std::path::Path, prop: &str) -> Vec<(String, String)> {
    let mut v = Vec::new();
    let txt = std::fs::read_to_string(root.join("KNOWN_FINDINGS.txt")).unwrap_or_default();
    for line in txt.lines() {
        let line = line.trim();
        if let Some(rest) = line.strip_prefix("open:") {
            let rest = rest.trim();
            let Some(rest) = rest.strip_prefix(&format!("property={} ", prop)) else { continue };
            let Some(rest) = rest.trim().strip_prefix("key=") else { continue };
            let (key, text) = match rest.split_once(" -- ") {
                Some((k, t)) => (k.trim().to_string(), t.trim().to_string()),
                None => (rest.trim().to_string(), String::new()),
            };
            v.push((key, text));
        }
    }
    v
}
