//! Preemption-bounded scheduler over real OS threads (DESIGN §2.3).
//!
//! Managed threads run one at a time under a baton. `point()` — called by grass at every
//! access to process-global or thread-global state when built with `--cfg grass_verif` — is the
//! only place a thread can lose the baton. A run replays a prefix of choices and then follows
//! the default policy (keep running the current thread; on exit the lowest unfinished thread).

use grass_compiler::verif::Site;
use std::cell::Cell;
use std::sync::{Arc, Condvar, Mutex};

pub struct Decision {
    pub cur_enabled: bool,
    pub n_enabled: usize,
    pub chosen: usize,
}

struct St {
    running: usize,
    finished: Vec<bool>,
    choices: Vec<usize>,
    pos: usize,
    trace: Vec<Decision>,
    events: Vec<(u8, u8)>, // (thread, site) for every point passed
    nthreads: usize,
    diverged: bool,
}
struct Sched {
    m: Mutex<St>,
    cv: Condvar,
}
static SCHED: Mutex<Option<Arc<Sched>>> = Mutex::new(None);
thread_local!(static TID: Cell<usize> = const { Cell::new(usize::MAX) });
thread_local!(static MY: std::cell::RefCell<Option<Arc<Sched>>> = const { std::cell::RefCell::new(None) });

fn decide(st: &mut St, cur: usize, cur_enabled: bool) -> usize {
    let mut en = Vec::new();
    if cur_enabled {
        en.push(cur);
    }
    for t in 0..st.nthreads {
        if !st.finished[t] && !(cur_enabled && t == cur) {
            en.push(t);
        }
    }
    let i = st.pos;
    st.pos += 1;
    let mut c = if i < st.choices.len() { st.choices[i] } else { 0 };
    if c >= en.len() {
        st.diverged = true;
        c = 0;
    }
    let chosen = en[c];
    st.trace.push(Decision { cur_enabled, n_enabled: en.len(), chosen: c });
    chosen
}

fn site_code(s: Site) -> u8 {
    match s {
        Site::Intern => 0,
        Site::ComplexSelectorId => 1,
        Site::BuiltinId => 2,
    }
}

fn point(site: Site) {
    let me = TID.with(|t| t.get());
    if me == usize::MAX {
        return;
    }
    let s = MY.with(|m| m.borrow().clone());
    let Some(s) = s else { return };
    let mut st = s.m.lock().unwrap();
    st.events.push((me as u8, site_code(site)));
    let next = decide(&mut st, me, true);
    if next != me {
        st.running = next;
        s.cv.notify_all();
        while st.running != me {
            st = s.cv.wait(st).unwrap();
        }
    }
}

pub struct RunResult {
    pub outputs: Vec<String>,
    pub trace: Vec<Decision>,
    pub events: Vec<(u8, u8)>,
    pub diverged: bool,
}

/// Run `bodies` (one per managed thread) under the schedule given by `choices`.
pub fn run_schedule(bodies: Vec<Box<dyn FnOnce() -> String + Send>>, choices: Vec<usize>) -> RunResult {
    let n = bodies.len();
    let s = Arc::new(Sched {
        m: Mutex::new(St { running: usize::MAX, finished: vec![false; n], choices, pos: 0, trace: vec![], events: vec![], nthreads: n, diverged: false }),
        cv: Condvar::new(),
    });
    *SCHED.lock().unwrap() = Some(s.clone());
    grass_compiler::verif::set_hook(Some(point));
    let mut hs = Vec::new();
    for (i, body) in bodies.into_iter().enumerate() {
        let s2 = s.clone();
        hs.push(
            std::thread::Builder::new()
                .stack_size(64 << 20)
                .spawn(move || {
                    TID.with(|t| t.set(i));
                    MY.with(|m| *m.borrow_mut() = Some(s2.clone()));
                    {
                        let mut st = s2.m.lock().unwrap();
                        while st.running != i {
                            st = s2.cv.wait(st).unwrap();
                        }
                    }
                    let out = body();
                    let mut st = s2.m.lock().unwrap();
                    st.finished[i] = true;
                    if st.finished.iter().all(|f| *f) {
                        st.running = usize::MAX;
                    } else {
                        let nx = decide(&mut st, i, false);
                        st.running = nx;
                    }
                    s2.cv.notify_all();
                    TID.with(|t| t.set(usize::MAX));
                    out
                })
                .expect("spawn managed thread"),
        );
    }
    {
        let mut st = s.m.lock().unwrap();
        let first = decide(&mut st, usize::MAX, false);
        st.running = first;
        s.cv.notify_all();
    }
    let outputs: Vec<String> = hs.into_iter().map(|h| h.join().unwrap_or_else(|_| "<managed thread panicked outside catch_unwind>".into())).collect();
    grass_compiler::verif::set_hook(None);
    let mut st = s.m.lock().unwrap();
    RunResult { outputs, trace: std::mem::take(&mut st.trace), events: std::mem::take(&mut st.events), diverged: st.diverged }
}

/// Successor prefixes of an executed schedule under a preemption bound (stateless DFS step).
pub fn successors(prefix_len: usize, trace: &[(bool, usize, usize)], bound: usize) -> Vec<Vec<usize>> {
    let mut out = Vec::new();
    let mut cost = 0usize;
    let mut costs = Vec::with_capacity(trace.len());
    for (cur_en, _n, ch) in trace {
        costs.push(cost);
        if *cur_en && *ch != 0 {
            cost += 1;
        }
    }
    for i in prefix_len..trace.len() {
        let (cur_en, n, _) = trace[i];
        for alt in 1..n {
            let c = costs[i] + if cur_en { 1 } else { 0 };
            if c > bound {
                continue;
            }
            let mut np: Vec<usize> = trace[..i].iter().map(|t| t.2).collect();
            np.push(alt);
            out.push(np);
        }
    }
    out
}
