//! Subject runner: one call into grass under catch_unwind, with owned options.

use grass_compiler::{ErrorKind, InputSyntax, Options, OutputStyle};
use std::panic::{catch_unwind, AssertUnwindSafe};
use std::sync::Mutex;

#[derive(Clone, Copy, Debug, PartialEq, Eq, Hash, PartialOrd, Ord)]
pub enum Syn {
    Scss,
    Sass,
    Css,
}
impl Syn {
    pub const ALL: [Syn; 3] = [Syn::Scss, Syn::Sass, Syn::Css];
    pub fn name(self) -> &'static str {
        match self {
            Syn::Scss => "scss",
            Syn::Sass => "sass",
            Syn::Css => "css",
        }
    }
    pub fn to_grass(self) -> InputSyntax {
        match self {
            Syn::Scss => InputSyntax::Scss,
            Syn::Sass => InputSyntax::Sass,
            Syn::Css => InputSyntax::Css,
        }
    }
}

#[derive(Clone, Debug)]
pub struct Cfg {
    pub syntax: Option<Syn>,
    pub compressed: bool,
    pub charset: bool,
    pub unicode: bool,
    pub quiet: bool,
    pub load_paths: Vec<String>,
}
impl Default for Cfg {
    fn default() -> Self {
        Cfg {
            syntax: Some(Syn::Scss),
            compressed: false,
            charset: true,
            unicode: true,
            quiet: true,
            load_paths: vec![],
        }
    }
}
impl Cfg {
    pub fn scss() -> Self {
        Self::default()
    }
    pub fn syn(s: Syn) -> Self {
        Cfg { syntax: Some(s), ..Self::default() }
    }
    pub fn compressed(mut self, c: bool) -> Self {
        self.compressed = c;
        self
    }
    pub fn json(&self) -> serde_json::Value {
        serde_json::json!({
            "syntax": self.syntax.map(|s| s.name()),
            "style": if self.compressed {"compressed"} else {"expanded"},
            "allows_charset": self.charset, "unicode_error_messages": self.unicode,
            "quiet": self.quiet, "load_paths": self.load_paths,
        })
    }
}

#[derive(Clone, Debug, PartialEq, Eq)]
pub struct ErrInfo {
    pub message: String,
    pub file: String,
    pub begin: (usize, usize),
    pub end: (usize, usize),
    pub rendered: String,
    /// the text of the file the error names (as grass holds it)
    pub source_len: usize,
    pub source_digest: u64,
    pub line_count: usize,
    pub kind: &'static str,
}

#[derive(Clone, Debug, PartialEq, Eq)]
pub enum Outcome {
    Ok(String),
    Err(Box<ErrInfo>),
    Panic(String),
}
impl Outcome {
    pub fn is_ok(&self) -> bool {
        matches!(self, Outcome::Ok(_))
    }
    pub fn is_err(&self) -> bool {
        matches!(self, Outcome::Err(_))
    }
    pub fn ok(&self) -> Option<&str> {
        match self {
            Outcome::Ok(s) => Some(s),
            _ => None,
        }
    }
    pub fn class(&self) -> &'static str {
        match self {
            Outcome::Ok(_) => "ok",
            Outcome::Err(_) => "err",
            Outcome::Panic(_) => "panic",
        }
    }
    pub fn brief(&self) -> String {
        match self {
            Outcome::Ok(s) => format!("Ok({:?})", s),
            Outcome::Err(e) => format!("Err({:?} @{}:{}:{})", e.message, e.file, e.begin.0 + 1, e.begin.1 + 1),
            Outcome::Panic(p) => format!("Panic({:?})", p),
        }
    }
    pub fn digest(&self) -> u64 {
        super::digest_str(&self.brief())
    }
    /// Text that must be byte-identical across runs (C02): css, or rendered error.
    pub fn bytes(&self) -> String {
        match self {
            Outcome::Ok(s) => format!("OK\n{}", s),
            Outcome::Err(e) => format!("ERR\n{}", e.rendered),
            Outcome::Panic(p) => format!("PANIC\n{}", p),
        }
    }
}

static PANIC_MSG: Mutex<()> = Mutex::new(());
thread_local! {
    static LAST_PANIC: std::cell::RefCell<String> = std::cell::RefCell::new(String::new());
}

/// Install a panic hook that records the message + location per thread and prints nothing.
pub fn install_quiet_panic_hook() {
    let _g = PANIC_MSG.lock();
    std::panic::set_hook(Box::new(|info| {
        let msg = if let Some(s) = info.payload().downcast_ref::<&str>() {
            (*s).to_string()
        } else if let Some(s) = info.payload().downcast_ref::<String>() {
            s.clone()
        } else {
            "<non-string panic>".to_string()
        };
        let loc = info
            .location()
            .map(|l| format!("{}:{}", l.file(), l.line()))
            .unwrap_or_default();
        let _ = LAST_PANIC.try_with(|p| *p.borrow_mut() = format!("{} at {}", msg, loc));
        if std::env::var_os("VERIF_SHOW_PANICS").is_some() {
            eprintln!("panic: {} at {}", msg, loc);
        }
    }));
}

pub fn last_panic() -> String {
    LAST_PANIC.with(|p| p.borrow().clone())
}

fn err_info(e: Box<grass_compiler::Error>) -> Result<ErrInfo, String> {
    let rendered = match catch_unwind(AssertUnwindSafe(|| format!("{}", e))) {
        Ok(r) => r,
        Err(_) => return Err(format!("Display of error panicked: {}", last_panic())),
    };
    let kind = match catch_unwind(AssertUnwindSafe(|| (*e).clone().kind())) {
        Ok(k) => k,
        Err(_) => return Err(format!("Error::kind() panicked: {}", last_panic())),
    };
    Ok(match kind {
        ErrorKind::ParseError { message, loc, .. } => {
            let src = loc.file.source();
            ErrInfo {
                message,
                file: loc.file.name().to_string(),
                begin: (loc.begin.line, loc.begin.column),
                end: (loc.end.line, loc.end.column),
                rendered,
                source_len: src.len(),
                source_digest: super::digest_str(src),
                line_count: src.split('\n').count(),
                kind: "parse",
            }
        }
        ErrorKind::IoError(io) => ErrInfo {
            message: io.to_string(),
            file: String::new(),
            begin: (0, 0),
            end: (0, 0),
            rendered,
            source_len: 0,
            source_digest: 0,
            line_count: 0,
            kind: "io",
        },
        ErrorKind::FromUtf8Error(s) => ErrInfo {
            message: s,
            file: String::new(),
            begin: (0, 0),
            end: (0, 0),
            rendered,
            source_len: 0,
            source_digest: 0,
            line_count: 0,
            kind: "utf8",
        },
        _ => ErrInfo {
            message: "<unknown error kind>".into(),
            file: String::new(),
            begin: (0, 0),
            end: (0, 0),
            rendered,
            source_len: 0,
            source_digest: 0,
            line_count: 0,
            kind: "other",
        },
    })
}

pub struct Env<'a> {
    pub fs: &'a dyn grass_compiler::Fs,
    pub logger: &'a dyn grass_compiler::Logger,
}

pub fn options<'a>(cfg: &Cfg, env: &Env<'a>) -> Options<'a> {
    let mut o = Options::default()
        .fs(env.fs)
        .logger(env.logger)
        .style(if cfg.compressed { OutputStyle::Compressed } else { OutputStyle::Expanded })
        .allows_charset(cfg.charset)
        .unicode_error_messages(cfg.unicode)
        .quiet(cfg.quiet);
    if let Some(s) = cfg.syntax {
        o = o.input_syntax(s.to_grass());
    }
    for lp in &cfg.load_paths {
        o = o.load_path(lp);
    }
    o
}

fn wrap(r: std::thread::Result<grass_compiler::Result<String>>) -> Outcome {
    match r {
        Ok(Ok(css)) => Outcome::Ok(css),
        Ok(Err(e)) => match err_info(e) {
            Ok(i) => Outcome::Err(Box::new(i)),
            Err(p) => Outcome::Panic(p),
        },
        Err(_) => Outcome::Panic(last_panic()),
    }
}

/// Compile a string with NullFs / NullLogger.
pub fn compile(src: &str, cfg: &Cfg) -> Outcome {
    let env = Env { fs: &grass_compiler::NullFs, logger: &grass_compiler::NullLogger };
    compile_env(src, cfg, &env)
}

pub fn compile_env(src: &str, cfg: &Cfg, env: &Env) -> Outcome {
    let o = options(cfg, env);
    wrap(catch_unwind(AssertUnwindSafe(|| grass_compiler::from_string(src.to_string(), &o))))
}

pub fn compile_path(path: &str, cfg: &Cfg, env: &Env) -> Outcome {
    let o = options(cfg, env);
    wrap(catch_unwind(AssertUnwindSafe(|| grass_compiler::from_path(path, &o))))
}

/// Convenience: expanded SCSS compile that must succeed (for harness-internal probes).
pub fn css_of(src: &str) -> Result<String, String> {
    match compile(src, &Cfg::scss()) {
        Outcome::Ok(s) => Ok(s),
        o => Err(o.brief()),
    }
}
