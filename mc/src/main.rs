#![allow(dead_code, unused_imports)]
//! mc — bounded exhaustive exploration of grass against the properties C01..C20.
//!   mc <Cnn> quick|thorough
//!   mc <Cnn> --replay <file>
//!   mc --one <args..>      (internal: isolated single-case executions)
mod checks;
mod core;
mod gen;
mod models;

use crate::core::{Ctx, Tier};

fn main() {
    let args: Vec<String> = std::env::args().skip(1).collect();
    core::install_quiet_panic_hook();
    if args.is_empty() {
        eprintln!("usage: mc <Cnn> quick|thorough | mc <Cnn> --replay <file>");
        std::process::exit(2);
    }
    if args[0] == "--one" {
        std::process::exit(checks::one(&args[1..]));
    }
    let prop = args[0].to_uppercase();
    let Some(runner) = checks::lookup(&prop) else {
        eprintln!("unknown property {}", prop);
        std::process::exit(2);
    };
    if args.get(1).map(|s| s.as_str()) == Some("--replay") {
        let Some(path) = args.get(2) else {
            eprintln!("--replay needs a file");
            std::process::exit(2);
        };
        std::process::exit(replay(&prop, runner, path));
    }
    let tier = match args.get(1).map(|s| s.as_str()).or(std::env::var("VERIF_TIER").ok().as_deref().map(|_| "env")) {
        Some("thorough") => Tier::Thorough,
        Some("env") => {
            if std::env::var("VERIF_TIER").unwrap() == "thorough" { Tier::Thorough } else { Tier::Quick }
        }
        _ => Tier::Quick,
    };
    let mut ctx = Ctx::new(&prop, tier);
    match args.get(2).map(|s| s.as_str()) {
        Some("--only") => {
            let ord = args.get(3).and_then(|s| s.parse().ok()).unwrap_or(u64::MAX);
            let idx = args.get(4).and_then(|s| s.parse().ok()).unwrap_or(u64::MAX);
            ctx.mode = core::Mode::Only { ord, idx };
            ctx.known.clear();
        }
        Some("--describe-crash") => {
            let p = core::crash::crash_file(&ctx.root, &prop);
            let txt = std::fs::read_to_string(&p).unwrap_or_default();
            let nums: Vec<u64> = txt.split_whitespace().filter_map(|t| t.parse().ok()).collect();
            if nums.is_empty() {
                println!("VIOLATION property={} replay={}", prop, p.display());
                println!("  the explorer process died without a crash record (killed by a signal other than SIGABRT)");
                std::process::exit(1);
            }
            ctx.mode = core::Mode::DescribeCrash { ord: nums[0], idxs: nums[1..].to_vec() };
            ctx.cap("run ended early: the explorer process aborted; only the in-flight cases were re-examined");
        }
        _ => {
            core::crash::install(&ctx.root, &prop);
            // replays of earlier runs are stale
            let _ = std::fs::remove_dir_all(ctx.root.join("replays").join(&prop));
        }
    }
    runner(&ctx);
    std::process::exit(ctx.finish());
}

/// Re-run the sub-space a recorded violation came from, twice; it must reproduce identically.
fn replay(prop: &str, runner: fn(&Ctx), path: &str) -> i32 {
    let txt = match std::fs::read_to_string(path) {
        Ok(t) => t,
        Err(e) => {
            eprintln!("cannot read {}: {}", path, e);
            return 2;
        }
    };
    let v: serde_json::Value = match serde_json::from_str(&txt) {
        Ok(v) => v,
        Err(e) => {
            eprintln!("bad replay file: {}", e);
            return 2;
        }
    };
    let sub = v["sub"].as_str().unwrap_or("").to_string();
    let key = v["key"].as_str().unwrap_or("").to_string();
    let tier = if v["tier"].as_str() == Some("thorough") { Tier::Thorough } else { Tier::Quick };
    let mut seen = Vec::new();
    for round in 0..2 {
        let mut ctx = Ctx::new(prop, tier);
        ctx.replay_filter = Some((sub.clone(), key.clone()));
        ctx.known.clear();
        runner(&ctx);
        let r = ctx.rep.lock().unwrap();
        let hit = r.violations.iter().find(|x| x.sub == sub && x.key == key).map(|x| x.what.clone());
        println!("replay round {}: {}", round + 1, match &hit { Some(w) => format!("REPRODUCED: {}", w), None => "not reproduced".into() });
        seen.push(hit);
    }
    if seen[0] != seen[1] {
        eprintln!("MACHINERY-ERROR replay diverged between two identical runs");
        return 2;
    }
    if seen[0].is_some() {
        println!("VIOLATION property={} replay={}", prop, path);
        1
    } else {
        0
    }
}
