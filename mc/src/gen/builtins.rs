//! Names of grass's built-in functions (global and per module) and a universe of argument
//! values shared by C01 (typed near-misses) and C14/C12 (module vs global agreement).

pub const GLOBAL_FNS: &[&str] = &[
    "abs", "adjust-color", "adjust-hue", "alpha", "append", "blue", "call", "ceil", "change-color",
    "comparable", "complement", "content-exists", "darken", "desaturate", "fade-in", "fade-out",
    "feature-exists", "floor", "function-exists", "get-function", "global-variable-exists", "grayscale",
    "green", "hsl", "hsla", "hue", "hwb", "ie-hex-str", "if", "index", "inspect", "invert", "is-bracketed",
    "is-superselector", "join", "keywords", "length", "lighten", "lightness", "list-separator", "map-get",
    "map-has-key", "map-keys", "map-merge", "map-remove", "map-values", "max", "min", "mix", "mixin-exists",
    "nth", "opacify", "opacity", "percentage", "quote", "red", "rgb", "rgba", "round",
    "saturate", "saturation", "scale-color", "selector-append", "selector-extend", "selector-nest",
    "selector-parse", "selector-replace", "selector-unify", "set-nth", "simple-selectors", "str-index",
    "str-insert", "str-length", "str-slice", "to-lower-case", "to-upper-case", "transparentize", "type-of",
    "unit", "unitless", "unquote", "variable-exists", "zip", "whiteness", "blackness",
    // plain-CSS / special functions handled by the evaluator
    "calc", "clamp", "url", "var", "env", "element", "expression", "progid", "not", "and", "or",
];

pub const MODULE_FNS: &[(&str, &[&str])] = &[
    ("math", &[
        "ceil", "floor", "max", "min", "round", "abs", "compatible", "is-unitless", "unit", "percentage",
        "clamp", "sqrt", "cos", "sin", "tan", "acos", "asin", "atan", "atan2", "log", "pow", "hypot", "div",
    ]),
    ("list", &["append", "index", "is-bracketed", "join", "length", "separator", "nth", "set-nth", "zip", "slash"]),
    ("map", &["get", "has-key", "keys", "merge", "remove", "values", "set", "deep-merge", "deep-remove"]),
    ("string", &["quote", "index", "insert", "length", "slice", "split", "to-lower-case", "to-upper-case", "unquote"]),
    ("color", &[
        "adjust", "alpha", "blue", "change", "complement", "grayscale", "green", "hue", "ie-hex-str", "invert",
        "lightness", "mix", "red", "saturation", "scale", "blackness", "whiteness", "hwb",
    ]),
    ("selector", &["is-superselector", "append", "extend", "nest", "parse", "replace", "unify", "simple-selectors"]),
    ("meta", &[
        "feature-exists", "inspect", "type-of", "keywords", "global-variable-exists", "variable-exists",
        "function-exists", "mixin-exists", "content-exists", "module-variables", "module-functions",
        "get-function", "call", "calc-args", "calc-name",
    ]),
];

/// 40 SassScript expressions covering every value kind and the awkward members of each.
pub const UNIVERSE: &[&str] = &[
    "0", "1", "-1", "2.5", "1px", "2em", "50%", "90deg", "3s", "1.5x",
    "(1px*1px)", "math.div(1px,1s)", "math.div(1,0)", "math.div(-1,0)", "math.div(0,0)", "1e18", "0.00000000001",
    "\"\"", "\"a\"", "a", "\"é😀\"", "\".a > b\"", "\"%p\"",
    "red", "#abc", "rgba(1,2,3,0.5)", "transparent",
    "null", "true", "false",
    "()", "(1,)", "(1 2)", "[1,2]", "(a b, c d)", "(1/2)",
    "(a:1)", "(a:(b:2),c:3)",
    "calc(1px + 1%)", "get-function(\"abs\")",
];

/// A smaller universe (16) for arity-3 sweeps in the quick tier.
pub const SMALL_UNIVERSE: &[&str] = &[
    "0", "1", "-1", "1px", "2em", "50%", "math.div(1,0)", "\"a\"", "a", "red", "null", "true", "()", "(1 2)",
    "(a:1)", "calc(1px + 1%)",
];
