pub mod builtins;
pub mod corpus;
pub mod tree;
pub mod core;
