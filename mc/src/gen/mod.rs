pub mod builtins;
pub mod corpus;
