//! SassCore: a small AST of the SassScript / control-flow core with an SCSS printer that records
//! the line of every statement, shared by C03 (values), C19 (log order and locations).

#[derive(Clone, Debug, PartialEq)]
pub enum E {
    Int(i64),
    Dec(f64),
    Str(String),   // quoted
    Ident(String), // unquoted
    Bool(bool),
    Null,
    Var(String),
    Bin(&'static str, Box<E>, Box<E>),
    Not(Box<E>),
    Neg(Box<E>),
    Paren(Box<E>),
    Call(String, Vec<Arg>),
    List(Vec<E>, bool), // comma?
    Map(Vec<(E, E)>),
}

#[derive(Clone, Debug, PartialEq)]
pub enum Arg {
    Pos(E),
    Named(String, E),
    Splat(E),
}

#[derive(Clone, Debug, PartialEq)]
pub struct Param {
    pub name: String,
    pub default: Option<E>,
}

#[derive(Clone, Debug, PartialEq)]
pub struct Params {
    pub params: Vec<Param>,
    pub rest: Option<String>,
}

#[derive(Clone, Debug, PartialEq)]
pub enum S {
    Set { var: String, e: E, global: bool, default: bool },
    /// observable: emits `pN: inspect(e)` (inside a function: `@debug "pN=" + inspect(e)`)
    Probe(E),
    /// observable, only legal directly inside a style rule: emits the declaration `pN: inspect(e)`
    Decl(E),
    Rule(String, Vec<S>),
    If(Vec<(E, Vec<S>)>, Option<Vec<S>>),
    Each(Vec<String>, E, Vec<S>),
    For(String, E, E, bool, Vec<S>),
    While(E, Vec<S>),
    MixinDef(String, Params, Vec<S>),
    Include(String, Vec<Arg>, Option<(Params, Vec<S>)>),
    Content(Vec<Arg>),
    FuncDef(String, Params, Vec<S>),
    Return(E),
    Debug(E),
    Warn(E),
}

pub fn b(op: &'static str, l: E, r: E) -> E {
    E::Bin(op, Box::new(l), Box::new(r))
}
pub fn v(n: &str) -> E {
    E::Var(n.to_string())
}
pub fn i(n: i64) -> E {
    E::Int(n)
}

pub fn prec(op: &str) -> u8 {
    match op {
        "or" => 1,
        "and" => 2,
        "==" | "!=" => 4,
        "<" | ">" | "<=" | ">=" => 5,
        "+" | "-" => 6,
        "*" | "/" | "%" => 7,
        _ => 9,
    }
}

impl E {
    pub fn scss(&self) -> String {
        self.print(0, false)
    }
    /// full = parenthesise every binary sub-expression
    pub fn scss_full(&self) -> String {
        self.print(0, true)
    }
    fn print(&self, parent: u8, full: bool) -> String {
        match self {
            E::Int(n) => n.to_string(),
            E::Dec(x) => crate::models::num::render(*x, false),
            E::Str(s) => format!("\"{}\"", s),
            E::Ident(s) => s.clone(),
            E::Bool(t) => t.to_string(),
            E::Null => "null".into(),
            E::Var(n) => format!("${}", n),
            E::Bin(op, l, r) => {
                let p = prec(op);
                // left-associative: the right operand needs parentheses at equal precedence
                let s = format!("{} {} {}", l.print(p, full), op, r.print(p + 1, full));
                if full || p < parent {
                    format!("({})", s)
                } else {
                    s
                }
            }
            E::Not(e) => format!("not {}", e.print(8, full)),
            E::Neg(e) => {
                // `-3` / `-$x` / `-"s"` are unary minus; `-null`, `-t`, `--3` would lex as identifiers
                let inner = e.print(8, full);
                let plain = matches!(**e, E::Var(_) | E::Str(_) | E::Call(..) | E::List(..) | E::Map(..)) || (matches!(**e, E::Int(_) | E::Dec(_)) && !inner.starts_with('-'));
                if plain || inner.starts_with('(') {
                    format!("-{}", inner)
                } else {
                    format!("-({})", inner)
                }
            }
            E::Paren(e) => format!("({})", e.print(0, full)),
            E::Call(f, args) => format!("{}({})", f, print_args(args)),
            E::List(items, comma) => {
                let inner: Vec<String> = items.iter().map(|x| x.print(if *comma { 0 } else { 8 }, full)).collect();
                if *comma {
                    format!("({}{})", inner.join(", "), if items.len() == 1 { "," } else { "" })
                } else {
                    format!("({})", inner.join(" "))
                }
            }
            E::Map(es) => format!("({})", es.iter().map(|(k, w)| format!("{}: {}", k.print(8, full), w.print(0, full))).collect::<Vec<_>>().join(", ")),
        }
    }
}

pub fn print_args(args: &[Arg]) -> String {
    args.iter()
        .map(|a| match a {
            Arg::Pos(e) => e.scss(),
            Arg::Named(n, e) => format!("${}: {}", n, e.scss()),
            Arg::Splat(e) => format!("{}...", e.scss()),
        })
        .collect::<Vec<_>>()
        .join(", ")
}

pub fn print_params(p: &Params) -> String {
    let mut parts: Vec<String> = p.params.iter().map(|q| match &q.default { Some(d) => format!("${}: {}", q.name, d.scss()), None => format!("${}", q.name) }).collect();
    if let Some(r) = &p.rest {
        parts.push(format!("${}...", r));
    }
    parts.join(", ")
}

/// Printed program: source text plus, for every Probe / Debug / Warn statement in print order,
/// its id and line (1-based).
pub struct Printed {
    pub src: String,
    pub marks: Vec<(usize, usize)>, // (statement ordinal, line)
}

pub struct Printer {
    out: String,
    line: usize,
    next_id: usize,
    pub lines: Vec<usize>,
}

impl Printer {
    pub fn new() -> Self {
        Printer { out: String::new(), line: 1, next_id: 0, lines: Vec::new() }
    }
    pub fn with_first_id(first_id: usize) -> Self {
        Printer { out: String::new(), line: 1, next_id: first_id, lines: Vec::new() }
    }
    pub fn raw_line(&mut self, text: &str) {
        self.ln(0, text)
    }
    fn ln(&mut self, ind: usize, text: &str) {
        self.out.push_str(&"  ".repeat(ind));
        self.out.push_str(text);
        self.out.push('\n');
        self.line += 1;
    }
    /// Assigns ids to Probe/Debug/Warn statements in print order; `lines[id]` is the line.
    pub fn stmts(&mut self, ss: &[S], ind: usize, in_rule: bool, in_func: bool) {
        for s in ss {
            match s {
                S::Set { var, e, global, default } => {
                    let t = format!("${}: {}{}{};", var, e.scss(), if *default { " !default" } else { "" }, if *global { " !global" } else { "" });
                    self.ln(ind, &t)
                }
                S::Probe(e) => {
                    let id = self.next_id;
                    self.next_id += 1;
                    self.lines.push(self.line);
                    let _ = in_rule;
                    if in_func {
                        self.ln(ind, &format!("@debug \"p{}=\" + inspect({});", id, e.scss()));
                    } else {
                        // a nested rule is legal at the root, inside rules, mixins and content blocks alike
                        self.ln(ind, &format!("q {{ p{}: inspect({}); }}", id, e.scss()));
                    }
                }
                S::Decl(e) => {
                    let id = self.next_id;
                    self.next_id += 1;
                    self.lines.push(self.line);
                    self.ln(ind, &format!("p{}: inspect({});", id, e.scss()));
                }
                S::Debug(e) | S::Warn(e) => {
                    self.next_id += 1;
                    self.lines.push(self.line);
                    self.ln(ind, &format!("@{} {};", if matches!(s, S::Debug(_)) { "debug" } else { "warn" }, e.scss()));
                }
                S::Rule(sel, body) => {
                    self.ln(ind, &format!("{} {{", sel));
                    self.stmts(body, ind + 1, true, in_func);
                    self.ln(ind, "}");
                }
                S::If(branches, els) => {
                    for (k, (c, body)) in branches.iter().enumerate() {
                        let head = if k == 0 { format!("@if {} {{", c.scss()) } else { format!("}} @else if {} {{", c.scss()) };
                        self.ln(ind, &head);
                        self.stmts(body, ind + 1, in_rule, in_func);
                    }
                    if let Some(e) = els {
                        self.ln(ind, "} @else {");
                        self.stmts(e, ind + 1, in_rule, in_func);
                    }
                    self.ln(ind, "}");
                }
                S::Each(vars, e, body) => {
                    self.ln(ind, &format!("@each {} in {} {{", vars.iter().map(|x| format!("${}", x)).collect::<Vec<_>>().join(", "), e.scss()));
                    self.stmts(body, ind + 1, in_rule, in_func);
                    self.ln(ind, "}");
                }
                S::For(var, a, bnd, through, body) => {
                    self.ln(ind, &format!("@for ${} from {} {} {} {{", var, a.scss(), if *through { "through" } else { "to" }, bnd.scss()));
                    self.stmts(body, ind + 1, in_rule, in_func);
                    self.ln(ind, "}");
                }
                S::While(c, body) => {
                    self.ln(ind, &format!("@while {} {{", c.scss()));
                    self.stmts(body, ind + 1, in_rule, in_func);
                    self.ln(ind, "}");
                }
                S::MixinDef(name, params, body) => {
                    self.ln(ind, &format!("@mixin {}({}) {{", name, print_params(params)));
                    // a mixin body is printed as if inside a rule: its includes below are inside rules
                    self.stmts(body, ind + 1, true, in_func);
                    self.ln(ind, "}");
                }
                S::Include(name, args, content) => match content {
                    None => self.ln(ind, &format!("@include {}({});", name, print_args(args))),
                    Some((params, body)) => {
                        let using = if params.params.is_empty() && params.rest.is_none() { String::new() } else { format!(" using ({})", print_params(params)) };
                        self.ln(ind, &format!("@include {}({}){} {{", name, print_args(args), using));
                        self.stmts(body, ind + 1, true, in_func);
                        self.ln(ind, "}");
                    }
                },
                S::Content(args) => self.ln(ind, &format!("@content({});", print_args(args))),
                S::FuncDef(name, params, body) => {
                    self.ln(ind, &format!("@function {}({}) {{", name, print_params(params)));
                    self.stmts(body, ind + 1, in_rule, true);
                    self.ln(ind, "}");
                }
                S::Return(e) => self.ln(ind, &format!("@return {};", e.scss())),
            }
        }
    }
    pub fn finish(self) -> (String, Vec<usize>) {
        (self.out, self.lines)
    }
}

pub fn print_program(ss: &[S]) -> (String, Vec<usize>) {
    let mut p = Printer::new();
    p.stmts(ss, 0, false, false);
    p.finish()
}
