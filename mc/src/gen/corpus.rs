//! Golden corpus: the inputs of `test!(name, "input", "output" [, options])` and
//! `error!(name, "input", "message" [, options])` in /repo/crates/lib/tests/*.rs, read at run
//! time by a small Rust-string-literal reader. The set is finite, so "for every corpus input"
//! is an exhaustive quantifier over it.

use crate::core::Syn;

#[derive(Clone, Debug)]
pub struct CorpusCase {
    pub file: String,
    pub name: String,
    pub is_error: bool,
    pub input: String,
    pub expect: Option<String>,
    pub syntax: Syn,
    pub compressed: bool,
    pub has_options: bool,
}

fn parse_str_lit(b: &[char], mut i: usize) -> Option<(String, usize)> {
    // raw string
    if b.get(i) == Some(&'r') && matches!(b.get(i + 1), Some('#') | Some('"')) {
        let mut j = i + 1;
        let mut hashes = 0;
        while b.get(j) == Some(&'#') {
            hashes += 1;
            j += 1;
        }
        if b.get(j) != Some(&'"') {
            return None;
        }
        j += 1;
        let start = j;
        loop {
            if j >= b.len() {
                return None;
            }
            if b[j] == '"' && (0..hashes).all(|k| b.get(j + 1 + k) == Some(&'#')) {
                let s: String = b[start..j].iter().collect();
                return Some((s, j + 1 + hashes));
            }
            j += 1;
        }
    }
    if b.get(i) != Some(&'"') {
        return None;
    }
    i += 1;
    let mut out = String::new();
    loop {
        let c = *b.get(i)?;
        match c {
            '"' => return Some((out, i + 1)),
            '\\' => {
                let e = *b.get(i + 1)?;
                match e {
                    'n' => {
                        out.push('\n');
                        i += 2
                    }
                    't' => {
                        out.push('\t');
                        i += 2
                    }
                    'r' => {
                        out.push('\r');
                        i += 2
                    }
                    '0' => {
                        out.push('\0');
                        i += 2
                    }
                    '\\' => {
                        out.push('\\');
                        i += 2
                    }
                    '"' => {
                        out.push('"');
                        i += 2
                    }
                    '\'' => {
                        out.push('\'');
                        i += 2
                    }
                    'x' => {
                        let h: String = b.get(i + 2..i + 4)?.iter().collect();
                        out.push(u8::from_str_radix(&h, 16).ok()? as char);
                        i += 4;
                    }
                    'u' => {
                        let mut j = i + 3;
                        let mut h = String::new();
                        while *b.get(j)? != '}' {
                            h.push(b[j]);
                            j += 1;
                        }
                        out.push(char::from_u32(u32::from_str_radix(&h, 16).ok()?)?);
                        i = j + 1;
                    }
                    '\n' => {
                        i += 2;
                        while matches!(b.get(i), Some(' ') | Some('\t') | Some('\n') | Some('\r')) {
                            i += 1;
                        }
                    }
                    _ => return None,
                }
            }
            c => {
                out.push(c);
                i += 1;
            }
        }
    }
}

pub fn load() -> Vec<CorpusCase> {
    let dir = std::path::Path::new("/repo/crates/lib/tests");
    let mut files: Vec<_> = match std::fs::read_dir(dir) {
        Ok(rd) => rd.filter_map(|e| e.ok()).map(|e| e.path()).filter(|p| p.extension().map(|e| e == "rs").unwrap_or(false)).collect(),
        Err(_) => return vec![],
    };
    files.sort();
    let mut cases = Vec::new();
    for f in files {
        let Ok(src) = std::fs::read_to_string(&f) else { continue };
        let fname = f.file_name().unwrap().to_string_lossy().into_owned();
        if fname == "macros.rs" {
            continue;
        }
        let b: Vec<char> = src.chars().collect();
        let mut i = 0;
        while i < b.len() {
            let rest_is = |p: &str, at: usize| p.chars().enumerate().all(|(k, c)| b.get(at + k) == Some(&c));
            let (is_error, adv) = if rest_is("test!(", i) {
                (false, 6)
            } else if rest_is("error!(", i) {
                (true, 7)
            } else {
                i += 1;
                continue;
            };
            if i > 0 && (b[i - 1].is_alphanumeric() || b[i - 1] == '_') {
                i += 1;
                continue;
            }
            let mut j = i + adv;
            // skip whitespace and attributes
            loop {
                while matches!(b.get(j), Some(c) if c.is_whitespace()) {
                    j += 1;
                }
                if b.get(j) == Some(&'#') {
                    while j < b.len() && b[j] != ']' {
                        j += 1;
                    }
                    j += 1;
                } else {
                    break;
                }
            }
            let ns = j;
            while matches!(b.get(j), Some(c) if c.is_alphanumeric() || *c == '_') {
                j += 1;
            }
            let name: String = b[ns..j].iter().collect();
            if name.is_empty() {
                i += adv;
                continue;
            }
            let mut strs = Vec::new();
            let mut ok = true;
            while strs.len() < 2 {
                while matches!(b.get(j), Some(c) if c.is_whitespace() || *c == ',') {
                    j += 1;
                }
                match parse_str_lit(&b, j) {
                    Some((s, nj)) => {
                        strs.push(s);
                        j = nj;
                    }
                    None => {
                        ok = false;
                        break;
                    }
                }
            }
            if !ok && strs.is_empty() {
                i += adv;
                continue;
            }
            // options text up to the closing `);`
            let mut depth = 1i32;
            let os = j;
            while j < b.len() && depth > 0 {
                match b[j] {
                    '(' => depth += 1,
                    ')' => depth -= 1,
                    '"' => {
                        if let Some((_, nj)) = parse_str_lit(&b, j) {
                            j = nj;
                            continue;
                        }
                    }
                    _ => {}
                }
                j += 1;
            }
            let opts: String = b[os..j.min(b.len())].iter().collect();
            let syntax = if opts.contains("InputSyntax::Sass") {
                Syn::Sass
            } else if opts.contains("InputSyntax::Css") {
                Syn::Css
            } else {
                Syn::Scss
            };
            cases.push(CorpusCase {
                file: fname.clone(),
                name,
                is_error,
                input: strs[0].clone(),
                expect: strs.get(1).cloned(),
                syntax,
                compressed: opts.contains("Compressed"),
                has_options: opts.contains("Options") || opts.contains("grass::"),
            });
            i = j;
        }
    }
    cases
}
