//! Statement trees over a Sass core, with two independent pretty-printers (SCSS and indented),
//! and a bounded enumerator (all forests up to a size/depth bound over a node alphabet).

#[derive(Clone, Debug, PartialEq, Eq)]
pub enum Node {
    Decl(String, String),
    /// `p: { q: v }` or `p: v { q: w }`
    NestedProp(String, Option<String>, Vec<(String, String)>),
    Rule(String, Vec<Node>),
    At(String, String, Vec<Node>), // @name prelude { children }   (media, supports, unknown, at-root)
    Comment(String),
    Var(String, String),
    If(String, Vec<Node>, Option<Vec<Node>>),
    Each(String, String, Vec<Node>),
    For(String, String, String, bool, Vec<Node>),
    While(String, Vec<Node>),
    MixinDef(String, String, Vec<Node>),
    Include(String, String, Option<Vec<Node>>),
    Content,
    FunctionDef(String, String, Vec<Node>),
    Return(String),
    Debug(String),
    Warn(String),
    Extend(String),
}

impl Node {
    pub fn size(&self) -> usize {
        1 + self.children().iter().map(|c| c.size()).sum::<usize>()
    }
    pub fn children(&self) -> Vec<&Node> {
        match self {
            Node::Rule(_, c) | Node::At(_, _, c) | Node::Each(_, _, c) | Node::For(_, _, _, _, c) | Node::While(_, c) | Node::MixinDef(_, _, c) | Node::FunctionDef(_, _, c) => c.iter().collect(),
            Node::If(_, a, b) => a.iter().chain(b.iter().flatten()).collect(),
            Node::Include(_, _, Some(c)) => c.iter().collect(),
            _ => vec![],
        }
    }
}

fn block_scss(children: &[Node], out: &mut String, ind: usize) {
    out.push_str(" {\n");
    for c in children {
        c.scss_into(out, ind + 1);
    }
    out.push_str(&"  ".repeat(ind));
    out.push_str("}\n");
}

fn block_sass(children: &[Node], out: &mut String, ind: usize) {
    out.push('\n');
    for c in children {
        c.sass_into(out, ind + 1);
    }
}

impl Node {
    pub fn scss_into(&self, out: &mut String, ind: usize) {
        let pad = "  ".repeat(ind);
        out.push_str(&pad);
        match self {
            Node::Decl(p, v) => out.push_str(&format!("{}: {};\n", p, v)),
            Node::NestedProp(p, v, ds) => {
                out.push_str(&format!("{}:{}", p, v.as_ref().map(|v| format!(" {}", v)).unwrap_or_default()));
                out.push_str(" {\n");
                for (q, w) in ds {
                    out.push_str(&format!("{}  {}: {};\n", pad, q, w));
                }
                out.push_str(&format!("{}}}\n", pad));
            }
            Node::Rule(s, c) => {
                out.push_str(s);
                block_scss(c, out, ind);
            }
            Node::At(n, p, c) => {
                out.push_str(&format!("@{}{}", n, if p.is_empty() { String::new() } else { format!(" {}", p) }));
                block_scss(c, out, ind);
            }
            Node::Comment(t) => out.push_str(&format!("/* {} */\n", t)),
            Node::Var(n, v) => out.push_str(&format!("${}: {};\n", n, v)),
            Node::If(c, a, b) => {
                out.push_str(&format!("@if {}", c));
                out.push_str(" {\n");
                for x in a {
                    x.scss_into(out, ind + 1);
                }
                out.push_str(&pad);
                out.push('}');
                if let Some(b) = b {
                    out.push_str(" @else {\n");
                    for x in b {
                        x.scss_into(out, ind + 1);
                    }
                    out.push_str(&pad);
                    out.push('}');
                }
                out.push('\n');
            }
            Node::Each(v, l, c) => {
                out.push_str(&format!("@each ${} in {}", v, l));
                block_scss(c, out, ind);
            }
            Node::For(v, a, b, through, c) => {
                out.push_str(&format!("@for ${} from {} {} {}", v, a, if *through { "through" } else { "to" }, b));
                block_scss(c, out, ind);
            }
            Node::While(cnd, c) => {
                out.push_str(&format!("@while {}", cnd));
                block_scss(c, out, ind);
            }
            Node::MixinDef(n, params, c) => {
                out.push_str(&format!("@mixin {}{}", n, if params.is_empty() { String::new() } else { format!("({})", params) }));
                block_scss(c, out, ind);
            }
            Node::Include(n, args, content) => {
                out.push_str(&format!("@include {}{}", n, if args.is_empty() { String::new() } else { format!("({})", args) }));
                match content {
                    Some(c) => block_scss(c, out, ind),
                    None => out.push_str(";\n"),
                }
            }
            Node::Content => out.push_str("@content;\n"),
            Node::FunctionDef(n, params, c) => {
                out.push_str(&format!("@function {}({})", n, params));
                block_scss(c, out, ind);
            }
            Node::Return(e) => out.push_str(&format!("@return {};\n", e)),
            Node::Debug(e) => out.push_str(&format!("@debug {};\n", e)),
            Node::Warn(e) => out.push_str(&format!("@warn {};\n", e)),
            Node::Extend(s) => out.push_str(&format!("@extend {};\n", s)),
        }
    }

    pub fn sass_into(&self, out: &mut String, ind: usize) {
        let pad = "  ".repeat(ind);
        out.push_str(&pad);
        match self {
            Node::Decl(p, v) => out.push_str(&format!("{}: {}\n", p, v)),
            Node::NestedProp(p, v, ds) => {
                out.push_str(&format!("{}:{}\n", p, v.as_ref().map(|v| format!(" {}", v)).unwrap_or_default()));
                for (q, w) in ds {
                    out.push_str(&format!("{}  {}: {}\n", pad, q, w));
                }
            }
            Node::Rule(s, c) => {
                out.push_str(s);
                block_sass(c, out, ind);
            }
            Node::At(n, p, c) => {
                out.push_str(&format!("@{}{}", n, if p.is_empty() { String::new() } else { format!(" {}", p) }));
                block_sass(c, out, ind);
            }
            Node::Comment(t) => out.push_str(&format!("/* {} */\n", t)),
            Node::Var(n, v) => out.push_str(&format!("${}: {}\n", n, v)),
            Node::If(c, a, b) => {
                out.push_str(&format!("@if {}\n", c));
                for x in a {
                    x.sass_into(out, ind + 1);
                }
                if let Some(b) = b {
                    out.push_str(&pad);
                    out.push_str("@else\n");
                    for x in b {
                        x.sass_into(out, ind + 1);
                    }
                }
            }
            Node::Each(v, l, c) => {
                out.push_str(&format!("@each ${} in {}", v, l));
                block_sass(c, out, ind);
            }
            Node::For(v, a, b, through, c) => {
                out.push_str(&format!("@for ${} from {} {} {}", v, a, if *through { "through" } else { "to" }, b));
                block_sass(c, out, ind);
            }
            Node::While(cnd, c) => {
                out.push_str(&format!("@while {}", cnd));
                block_sass(c, out, ind);
            }
            Node::MixinDef(n, params, c) => {
                out.push_str(&format!("@mixin {}{}", n, if params.is_empty() { String::new() } else { format!("({})", params) }));
                block_sass(c, out, ind);
            }
            Node::Include(n, args, content) => {
                out.push_str(&format!("@include {}{}", n, if args.is_empty() { String::new() } else { format!("({})", args) }));
                match content {
                    Some(c) => block_sass(c, out, ind),
                    None => out.push('\n'),
                }
            }
            Node::Content => out.push_str("@content\n"),
            Node::FunctionDef(n, params, c) => {
                out.push_str(&format!("@function {}({})", n, params));
                block_sass(c, out, ind);
            }
            Node::Return(e) => out.push_str(&format!("@return {}\n", e)),
            Node::Debug(e) => out.push_str(&format!("@debug {}\n", e)),
            Node::Warn(e) => out.push_str(&format!("@warn {}\n", e)),
            Node::Extend(s) => out.push_str(&format!("@extend {}\n", s)),
        }
    }
}

pub fn scss(forest: &[Node]) -> String {
    let mut s = String::new();
    for n in forest {
        n.scss_into(&mut s, 0);
    }
    s
}

pub fn sass(forest: &[Node]) -> String {
    let mut s = String::new();
    for n in forest {
        n.sass_into(&mut s, 0);
    }
    s
}

/// A node template: leaf (no children) or a constructor taking children.
#[derive(Clone)]
pub enum Tpl {
    Leaf(Node),
    Inner(fn(Vec<Node>) -> Node, &'static str),
}

/// All forests of at most `width` trees, each tree of depth <= `depth` with at most `width`
/// children per inner node. `allow(parent_label, template_index)` prunes illegal nestings.
pub fn enumerate(tpls: &[Tpl], depth: usize, widths: &[usize], allow: &dyn Fn(Option<&'static str>, usize, usize) -> bool) -> Vec<Vec<Node>> {
    fn trees(tpls: &[Tpl], depth: usize, widths: &[usize], parent: Option<&'static str>, level: usize, allow: &dyn Fn(Option<&'static str>, usize, usize) -> bool, memo: &mut std::collections::BTreeMap<(usize, Option<&'static str>, usize), Vec<Node>>) -> Vec<Node> {
        if let Some(v) = memo.get(&(depth, parent, level)) {
            return v.clone();
        }
        let mut out = Vec::new();
        for (ti, t) in tpls.iter().enumerate() {
            if !allow(parent, ti, level) {
                continue;
            }
            match t {
                Tpl::Leaf(n) => out.push(n.clone()),
                Tpl::Inner(f, label) => {
                    if depth == 0 {
                        continue;
                    }
                    let kids = trees(tpls, depth - 1, widths, Some(label), level + 1, allow, memo);
                    let w = widths.get(level + 1).copied().unwrap_or(1);
                    for forest in forests(&kids, w, true) {
                        out.push(f(forest));
                    }
                }
            }
        }
        memo.insert((depth, parent, level), out.clone());
        out
    }
    fn forests(trees: &[Node], width: usize, nonempty: bool) -> Vec<Vec<Node>> {
        let mut out: Vec<Vec<Node>> = if nonempty { vec![] } else { vec![vec![]] };
        let mut cur: Vec<Vec<Node>> = vec![vec![]];
        for _ in 0..width {
            let mut next = Vec::new();
            for f in &cur {
                for t in trees {
                    let mut g = f.clone();
                    g.push(t.clone());
                    next.push(g);
                }
            }
            out.extend(next.iter().cloned());
            cur = next;
        }
        out
    }
    let mut memo = std::collections::BTreeMap::new();
    let top = trees(tpls, depth, widths, None, 0, allow, &mut memo);
    forests(&top, widths.first().copied().unwrap_or(1), true)
}
