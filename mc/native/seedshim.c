#define _GNU_SOURCE
#include <stddef.h>
#include <stdint.h>
#include <stdlib.h>
#include <sys/types.h>
static uint64_t st; static int init;
ssize_t getrandom(void *buf, size_t len, unsigned int flags) {
  if (!init) { const char *e = getenv("VERIF_HASH_SEED"); st = e ? strtoull(e, 0, 10) : 0; st = st * 0x9E3779B97F4A7C15ULL + 1; init = 1; }
  unsigned char *p = buf;
  for (size_t i = 0; i < len; i++) { st ^= st << 13; st ^= st >> 7; st ^= st << 17; p[i] = (unsigned char)(st >> 32); }
  return (ssize_t)len;
}
