#!/bin/bash
# setup_cmd: build the harness (and grass from /repo's working tree) offline.
set -e
cd "$(dirname "$0")"
export CARGO_NET_OFFLINE=true CARGO_TARGET_DIR="$(pwd)/target" RUSTFLAGS="--cfg grass_verif"
mkdir -p target evidence replays
( cd mc && cargo build --release --offline 2>&1 | tail -3 )
if [ -f mc/native/seedshim.c ]; then gcc -O2 -shared -fPIC -o target/seedshim.so mc/native/seedshim.c; fi
echo setup-ok
