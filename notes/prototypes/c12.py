import subprocess, itertools
J='/root/scratch/target/release/proj'
LIB='$pub: 1; $-priv: 2; @function f() { @return 3; } @function -g() { @return 4; } @mixin m { x: 5; } @mixin -n { x: 6; } lib { marker: 1; }'
MIDS={'use':'@use "lib"; $mv: 7; mid { marker: lib.$pub; }',
      'forward':'@forward "lib"; $mv: 7; mid { marker: 1; }',
      'show-var':'@forward "lib" show $pub; $mv: 7;',
      'show-fn':'@forward "lib" show f; $mv: 7;',
      'show-mixin':'@forward "lib" show m; $mv: 7;',
      'hide-var':'@forward "lib" hide $pub; $mv: 7;',
      'hide-fn':'@forward "lib" hide f; $mv: 7;',
      'prefix':'@forward "lib" as p-*; $mv: 7;',
      'prefix-show':'@forward "lib" as p-* show $p-pub; $mv: 7;'}
USES={'ns':('@use "mid";','mid.'),'as':('@use "mid" as q;','q.'),'star':('@use "mid" as *;','')}
# members: (kind, name) ; visible(mid kind) -> set of exposed names
def exposed(mid):
    pub={('var','pub'),('fn','f'),('mixin','m')}
    own={('var','mv')}
    if mid=='use': return own
    if mid=='forward': return own|pub
    if mid=='show-var': return own|{('var','pub')}
    if mid=='show-fn': return own|{('fn','f')}
    if mid=='show-mixin': return own|{('mixin','m')}
    if mid=='hide-var': return own|{('fn','f'),('mixin','m')}
    if mid=='hide-fn': return own|{('var','pub'),('mixin','m')}
    if mid=='prefix': return own|{('var','p-pub'),('fn','p-f'),('mixin','p-m')}
    if mid=='prefix-show': return own|{('var','p-pub')}
probes=[('var','pub'),('var','mv'),('fn','f'),('mixin','m'),('var','p-pub'),('fn','p-f'),('mixin','p-m'),('var','priv-via-dash','-priv'),('fn','g-private','-g')]
bad=[]; n=0
for mk,mid in MIDS.items():
    for uk,(use,ns) in USES.items():
        for p in probes:
            kind=p[0]; name=p[-1] if len(p)==3 else p[1]
            if kind=='var': body='t { v: %s$%s; }'%(ns,name)
            elif kind=='fn': body='t { v: %s%s(); }'%(ns,name)
            else: body='t { @include %s%s; }'%(ns,name)
            if uk=='star' and kind=='fn' and (kind,name) not in exposed(mk) and not name.startswith('-'):
                expect='plaincss'   # unknown function -> emitted as plain css fn
            else:
                expect='ok' if (kind,name) in exposed(mk) else 'err'
            out=subprocess.run([J,'e.scss','e.scss=%s %s'%(use,body),'mid.scss='+mid,'lib.scss='+LIB],capture_output=True).stdout.decode().strip()
            n+=1
            got='ok' if out.startswith('OK') else ('panic' if out.startswith('PANIC') else 'err')
            if expect=='plaincss': okk = out.startswith('OK') and (name+'()') in out
            else: okk = (got==expect)
            # once-only + order check for forward/use
            if not okk: bad.append((mk,uk,kind,name,expect,out[:90]))
print('probes',n,'bad',len(bad))
cls={}
for b in bad: cls.setdefault((b[0],b[2],b[4]),[]).append(b)
for k,v in sorted(cls.items()): print(k,len(v),v[0][5])
