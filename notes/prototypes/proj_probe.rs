use grass_compiler as grass;
use std::{cell::RefCell, collections::BTreeMap, path::{Path, PathBuf}};
#[derive(Debug)] struct F { files: BTreeMap<PathBuf, Vec<u8>>, dirs: Vec<PathBuf>, log: RefCell<Vec<String>> }
impl grass::Fs for F {
    fn is_dir(&self,p:&Path)->bool{ self.log.borrow_mut().push(format!("is_dir {}", p.display())); self.dirs.iter().any(|d| d==p) }
    fn is_file(&self,p:&Path)->bool{ self.log.borrow_mut().push(format!("is_file {}", p.display())); self.files.contains_key(p) }
    fn read(&self,p:&Path)->std::io::Result<Vec<u8>>{ self.log.borrow_mut().push(format!("read {}", p.display())); self.files.get(p).cloned().ok_or_else(|| std::io::Error::new(std::io::ErrorKind::NotFound, "nf")) }
}
fn main() {
    // args: [-I lp]... entry name=content...
    let mut args: Vec<String> = std::env::args().skip(1).collect();
    let mut lps = vec![]; let mut trace=false;
    while args[0]=="-I" || args[0]=="-t" { if args[0]=="-t" { trace=true; args.remove(0);} else { args.remove(0); lps.push(args.remove(0)); } }
    let entry = args.remove(0);
    let mut files = BTreeMap::new(); let mut dirs = vec![];
    for a in args { let (n,c) = a.split_once('=').unwrap(); let p = PathBuf::from(n); let mut d = p.parent(); while let Some(x)=d { if !x.as_os_str().is_empty() {dirs.push(x.to_path_buf());} d=x.parent(); } files.insert(p, c.as_bytes().to_vec()); }
    let fs = F{files, dirs, log: RefCell::new(vec![])};
    let mut o = grass::Options::default().fs(&fs);
    for lp in &lps { o = o.load_path(lp); }
    let r = std::panic::catch_unwind(std::panic::AssertUnwindSafe(|| grass::from_path(&entry, &o)));
    match r { Ok(Ok(s)) => println!("OK {}", s.replace('\n'," ")), Ok(Err(e)) => println!("ERR {}", e.to_string().lines().next().unwrap()), Err(_) => println!("PANIC") }
    if trace { for l in fs.log.borrow().iter() { println!("  {}", l); } }
}
