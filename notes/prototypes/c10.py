import itertools, subprocess, re, sys, random
P='/root/scratch/target/release/probe'
# ---------- selector parsing (subset) ----------
# simple: ('type',n) ('class',n) ('id',n) ('pc',n) ('ph',n) ('not',[complex...]) ('is',[complex...])
# compound: tuple of simples; complex: list alternating compound / combinator in {' ','>','+','~'}
def parse_list(s):
    s=s.strip(); out=[]; depth=0; cur=''
    for ch in s:
        if ch=='(': depth+=1
        if ch==')': depth-=1
        if ch==',' and depth==0: out.append(cur); cur=''
        else: cur+=ch
    out.append(cur)
    return [parse_complex(c.strip()) for c in out if c.strip()]
def parse_complex(s):
    toks=[]; i=0; n=len(s); cur=''; depth=0
    # split on whitespace / combinators at depth 0
    parts=[]; 
    while i<n:
        ch=s[i]
        if ch=='(': depth+=1
        if ch==')': depth-=1
        if depth==0 and ch in ' >+~':
            if cur: parts.append(cur); cur=''
            if ch!=' ': parts.append(ch)
            i+=1; continue
        cur+=ch; i+=1
    if cur: parts.append(cur)
    res=[]; prev_comp=False
    for p in parts:
        if p in '>+~':
            res.append(p); prev_comp=False
        else:
            if prev_comp: res.append(' ')
            res.append(parse_compound(p)); prev_comp=True
    return res
def parse_compound(s):
    out=[]; i=0; n=len(s)
    m=re.match(r'[a-zA-Z][\w-]*|\*',s)
    if m: 
        if m.group(0)!='*': out.append(('type',m.group(0)))
        i=m.end()
    while i<n:
        ch=s[i]
        if ch in '.#%':
            m=re.match(r'[\w-]+',s[i+1:]); name=m.group(0); out.append(({'.':'class','#':'id','%':'ph'}[ch],name)); i+=1+len(name)
        elif ch==':':
            m=re.match(r':?[\w-]+',s[i+1:]); name=m.group(0); i+=1+len(name)
            if i<n and s[i]=='(':
                depth=0; j=i
                while True:
                    if s[j]=='(': depth+=1
                    if s[j]==')':
                        depth-=1
                        if depth==0: break
                    j+=1
                arg=s[i+1:j]; i=j+1
                if name in ('not','is','where','matches'): out.append(('not' if name=='not' else 'is', parse_list(arg)))
                else: out.append(('pc',name+'('+arg+')'))
            else: out.append(('pc',name))
        else: raise Exception('parse '+s)
    return tuple(out)
# ---------- DOM ----------
class El:
    __slots__=('type','classes','id','pcs','parent','prev')
def has(e, simple, credit):
    k=simple[0]
    if k not in ('not','is') and (id(e),simple) in credit: return True
    if k=='type': return e.type==simple[1]
    if k=='class': return simple[1] in e.classes
    if k=='id': return e.id==simple[1]
    if k=='pc': return simple[1] in e.pcs
    if k=='ph': return False
    if k=='not': return not any(m_complex(e,c,credit) for c in simple[1])
    if k=='is': return any(m_complex(e,c,credit) for c in simple[1])
def m_compound(e, comp, credit): return all(has(e,s,credit) for s in comp)
def m_complex(e, cx, credit, i=None):
    if i is None: i=len(cx)-1
    if not m_compound(e, cx[i], credit): return False
    if i==0: return True
    comb=cx[i-1]
    if comb==' ':
        p=e.parent
        while p is not None:
            if m_complex(p,cx,credit,i-2): return True
            p=p.parent
        return False
    if comb=='>': return e.parent is not None and m_complex(e.parent,cx,credit,i-2)
    if comb=='+': return e.prev is not None and m_complex(e.prev,cx,credit,i-2)
    if comb=='~':
        p=e.prev
        while p is not None:
            if m_complex(p,cx,credit,i-2): return True
            p=p.prev
        return False
def m_list(e, lst, credit): return any(m_complex(e,c,credit) for c in lst)
def spec_simple(s):
    k=s[0]
    if k=='id': return 1000000
    if k in ('class','pc','ph'): return 1000
    if k=='type': return 1
    if k in ('not','is'): return max((spec_complex(c) for c in s[1]), default=0)
def spec_complex(cx): return sum(sum(spec_simple(s) for s in c) for c in cx if not isinstance(c,str))
def features(lists):
    f={'type':set(),'class':set(),'id':set(),'pc':set()}
    def walk(cx):
        for c in cx:
            if isinstance(c,str): continue
            for s in c:
                if s[0] in f: f[s[0]].add(s[1])
                elif s[0] in ('not','is'):
                    for c2 in s[1]: walk(c2)
    for l in lists:
        for cx in l: walk(cx)
    return f
def doms(f, maxn):
    types=sorted(f['type'])+['zz']; classes=sorted(f['class']); ids=[None]+sorted(f['id']); pcs=sorted(f['pc'])
    kinds=[]
    for t in types:
        for r in range(len(classes)+1):
            for cs in itertools.combinations(classes,r):
                for i in ids:
                    for r2 in range(len(pcs)+1):
                        for ps in itertools.combinations(pcs,r2): kinds.append((t,frozenset(cs),i,frozenset(ps)))
    shapes={1:[[None]],2:[[None,0]],3:[[None,0,1],[None,0,0]]}
    for n in range(1,maxn+1):
        for sh in shapes[n]:
            for lab in itertools.product(kinds,repeat=n):
                els=[]
                for idx,(k,par) in enumerate(zip(lab,sh)):
                    e=El(); e.type,e.classes,e.id,e.pcs=k; e.parent=els[par] if par is not None else None; e.prev=None
                    if par is not None:
                        sib=[x for x in els if x.parent is e.parent]
                        e.prev=sib[-1] if sib else None
                    els.append(e)
                yield els
# ---------- run ----------
def compile_css(src):
    out=subprocess.run([P],input=src.encode(),capture_output=True).stdout.decode()
    return out
def read_rules(css):
    rules=[]
    for m in re.finditer(r'([^{}]+)\{([^{}]*)\}',css): rules.append((m.group(1).strip().replace('\n',' '), m.group(2)))
    return rules
def check(rules_src, extends):
    # rules_src: list of (selector text, marker); extends: list of (rule index, target text)
    src=''
    for i,(sel,_) in enumerate(rules_src):
        ex=''.join('@extend %s;'%t for (ri,t) in extends if ri==i)
        src+='%s{m:r%d;%s}\n'%(sel,i,ex)
    out=compile_css(src)
    if not out.startswith('OK'): return ('err',out[:80])
    got={}
    for sel,body in read_rules(out[3:]):
        m=re.search(r'm:\s*r(\d+)',body)
        if m: got[int(m.group(1))]=sel
    orig=[parse_list(s) for s,_ in rules_src]
    new={i:parse_list(s) for i,s in got.items()}
    exts=[(orig[ri], parse_compound(t)[0]) for ri,t in extends]
    single=all(all(len(cx)==1 for cx in E) for E,_ in exts)
    f=features(orig+[ [[ (t,) ]] for _,t in exts])
    problems=[]
    maxn=max(sum(1 for c in cx if not isinstance(c,str)) for l in orig+[E for E,_ in exts] for cx in l)
    maxn=min(3,max(maxn, 1+max((sum(1 for c in cx if not isinstance(c,str)) for E,_ in exts for cx in E),default=1)-1 if False else maxn))
    for els in doms(f,min(3,maxn+ (1 if any(len(cx)>1 for E,_ in exts for cx in E) else 0))):
        # crediting fixpoint
        credit=set(); changed=True
        while changed:
            changed=False
            for E,t in exts:
                for e in els:
                    if (id(e),t) not in credit and not has(e,t,set()) and m_list(e,E,credit):
                        credit.add((id(e),t)); changed=True
        for i,S in enumerate(orig):
            has_ph=any(s[0]=='ph' for cx in S for c in cx if not isinstance(c,str) for s in c)
            Sn=new.get(i)
            for e in els:
                a=m_list(e,S,credit); b=m_list(e,Sn,set()) if Sn else False
                if b and not a: problems.append(('unsound',i)); 
                if a and not b and single: problems.append(('incomplete',i))
                if not has_ph and m_list(e,S,set()) and not b and not any(s[0]=='not' for cx in S for c in cx if not isinstance(c,str) for s in c): problems.append(('firstlaw',i))
        if problems: break
    # second law
    minspec=min((spec_complex(cx) for E,_ in exts for cx in E), default=0)
    for i,Sn in new.items():
        for cx in Sn:
            if cx not in orig[i] and spec_complex(cx)<minspec: problems.append(('secondlaw',i))
    return ('ok' if not problems else 'BAD', sorted(set(problems)), src.replace('\n',' '), out[3:].replace('\n',' '))
compounds=['.x','.y','a','a.x','.x.y','#i','.x:hover',':not(.x)',':is(.x, .y)','b.y','%p']
complexes=compounds+['.x .y','.y > .x','a + .x','.z ~ .x','.x .x']
targets=['.x','.y','a','#i','%p',':hover']
random.seed(1)
cases=[]
for s1 in complexes:
    for e1 in ['.z','b','.z.y','.z .w','b > .z','#j']:
        for t in targets:
            cases.append(([(s1,0),(e1,1)],[(1,t)]))
# two extends / chains
for s1 in ['.x','.x.y','.x .y','a.x']:
    for e1,e2 in [('.z','.w'),('.z','.z .w'),('b','.z')]:
        cases.append(([(s1,0),(e1,1),(e2,2)],[(1,'.x'),(2,'.z' if e1=='.z' else '.x')]))
stats={}
for c in cases:
    r=check(*c)
    stats[r[0]]=stats.get(r[0],0)+1
    if r[0]=='BAD': print(r)
print(stats,len(cases))
