import subprocess, itertools, os, re
P='/root/scratch/target/release/probe'
class E(Exception): pass
# ---- value model: ('list', items, sep, bracketed) sep in 'space','comma','slash','undecided'; ('str',text,quoted); ('num',n)
def L(items,sep,br=False): return ('list',list(items),sep,br)
def src(v):
    if v[0]=='num': return fmtnum(v[1])
    if v[0]=='str': return '"%s"'%v[1] if v[2] else v[1]
    if v[0]=='null': return 'null'
    items,sep,br=v[1],v[2],v[3]
    if sep=='slash':
        inner='list.slash(%s)'%', '.join(src(i) for i in items)
        return inner
    j={'space':' ','comma':', ','undecided':' '}[sep].join(src(i) for i in items)
    if sep=='comma' and len(items)==1: j+=','
    if br: return '['+j+']'
    return '('+j+')'
def fmtnum(n):
    if n==int(n): return str(int(n))
    return repr(n)
def insp(v):
    if v[0]=='num': return fmtnum(v[1])
    if v[0]=='str': return '"%s"'%v[1] if v[2] else v[1]
    if v[0]=='null': return 'null'
    items,sep,br=v[1],v[2],v[3]
    if not items: return '[]' if br else '()'
    def el(i):
        s=insp(i)
        if i[0]=='list' and len(i[1])>=2 and not i[3]:
            need = (sep=='comma' and i[2]=='comma') or (sep=='slash' and i[2] in('comma','slash')) or (sep in('space','undecided') and i[2]!='undecided')
            if need: s='('+s+')'
        return s
    j={'space':' ','comma':', ','undecided':' ','slash':' / '}[sep].join(el(i) for i in items)
    single = len(items)==1 and sep in ('comma','slash')
    if single: j+= ',' if sep=='comma' else '/'
    if br: return '['+j+']'
    if single: return '('+j+')'
    return j
def aslist(v):
    if v[0]=='list': return v[1],v[2],v[3]
    return [v],'undecided',False
def idx(n,length,name='n'):
    if n[0]!='num': raise E()
    x=n[1]
    if abs(x-round(x))>1e-11: raise E()
    x=int(round(x))
    if x==0: raise E()
    if abs(x)>length: raise E()
    return x-1 if x>0 else length+x
def f_nth(l,n): items,_,_=aslist(l); return items[idx(n,len(items))]
def f_setnth(l,n,v): items,sep,br=aslist(l); i=idx(n,len(items)); it=list(items); it[i]=v; return L(it,sep,br)
def f_length(l): return ('num',len(aslist(l)[0]))
def f_index(l,v):
    items=aslist(l)[0]
    for i,x in enumerate(items):
        if insp(x)==insp(v): return ('num',i+1)
    return ('null',)
def f_append(l,v): items,sep,br=aslist(l); return L(items+[v],'space' if sep=='undecided' else sep,br)
def f_join(a,b):
    i1,s1,b1=aslist(a); i2,s2,_=aslist(b)
    sep=s1 if s1!='undecided' else (s2 if s2!='undecided' else 'space')
    return L(i1+i2,sep,b1)
def f_sep(l): s=aslist(l)[1]; return ('str','space' if s=='undecided' else s,False)
def f_isbr(l): return ('str','true' if (l[0]=='list' and l[3]) else 'false',False)
# strings
def cps(s): return list(s)
def f_strlen(s): return ('num',len(cps(s[1])))
def cpidx(i,n,allow_neg=False):
    if i==0: return 0
    if i>0: return min(i-1,n)
    r=n+i
    if r<0 and not allow_neg: return 0
    return r
def f_slice(s,a,b=None):
    t=cps(s[1]); n=len(t)
    if a[0]!='num' or (b is not None and b[0]!='num'): raise E()
    ai=a[1]; bi=-1 if b is None else b[1]
    if ai!=int(ai) or bi!=int(bi): raise E()
    ai=int(ai); bi=int(bi)
    if bi==0: return ('str','',s[2])
    st=cpidx(ai,n); en=cpidx(bi,n,True)
    if en==n: en-=1
    if en<st: return ('str','',s[2])
    return ('str',''.join(t[st:en+1]),s[2])
def f_strindex(s,sub):
    i=s[1].find(sub[1])
    if i<0: return ('null',)
    return ('num',len(cps(s[1][:i]))+1)
def f_insert(s,ins,i):
    if i[0]!='num' or i[1]!=int(i[1]): raise E()
    k=int(i[1]); t=cps(s[1]); n=len(t)
    if k<0: off=max(n+k+1,0)
    elif k==0: off=0
    else: off=min(k-1,n)
    return ('str',''.join(t[:off])+ins[1]+''.join(t[off:]),s[2])
def f_upper(s): return ('str',''.join(c.upper() if 'a'<=c<='z' else c for c in s[1]),s[2])
# ---- universes ----
A,B,C=('str','a',False),('str','b',False),('str','c',False)
lists=[A]
for n in range(0,4):
    for sep in ['space','comma','slash']:
        for br in [False,True]:
            if n==0 and sep!='space': continue
            if n==0 and not br: lists.append(L([],'undecided',False)); continue
            if n==0: lists.append(L([],'undecided',True)); continue
            if n==1 and sep=='space' and not br: continue   # (a) is just a
            lists.append(L([A,B,C][:n], 'undecided' if (n==1 and sep=='space') else sep, br))
lists.append(L([L([A,B],'space'),C],'comma'))
idxs=[('num',x) for x in range(-5,6)]+[('num',0.5),('num',1.0000000000001)]
strs=[('str',t,q) for t in ['','a','ab','aé','é😀b','a😀','abcd'] for q in [True,False] if not (t=='' and not q)]
calls=[]
for l in lists:
    calls.append(('length(%s)'%src(l), lambda l=l: f_length(l)))
    calls.append(('list-separator(%s)'%src(l), lambda l=l: f_sep(l)))
    calls.append(('is-bracketed(%s)'%src(l), lambda l=l: f_isbr(l)))
    calls.append(('inspect(append(%s, z))'%src(l), lambda l=l: f_append(l,('str','z',False))))
    for v in [A,C,('str','z',False)]: calls.append(('inspect(index(%s, %s))'%(src(l),src(v)), lambda l=l,v=v: f_index(l,v)))
    for n in idxs:
        calls.append(('inspect(nth(%s, %s))'%(src(l),src(n)), lambda l=l,n=n: f_nth(l,n)))
        calls.append(('inspect(set-nth(%s, %s, z))'%(src(l),src(n)), lambda l=l,n=n: f_setnth(l,n,('str','z',False))))
    for l2 in lists: calls.append(('inspect(join(%s, %s))'%(src(l),src(l2)), lambda l=l,l2=l2: f_join(l,l2)))
for s in strs:
    calls.append(('str-length(%s)'%src(s), lambda s=s: f_strlen(s)))
    calls.append(('inspect(to-upper-case(%s))'%src(s), lambda s=s: f_upper(s)))
    for a in range(-6,7):
        calls.append(('inspect(str-slice(%s, %d))'%(src(s),a), lambda s=s,a=a: f_slice(s,('num',a))))
        calls.append(('inspect(str-insert(%s, "Z", %d))'%(src(s),a), lambda s=s,a=a: f_insert(s,('str','Z',True),('num',a))))
        for b in range(-6,7): calls.append(('inspect(str-slice(%s, %d, %d))'%(src(s),a,b), lambda s=s,a=a,b=b: f_slice(s,('num',a),('num',b))))
    for sub in ['a','b','é','😀','','ab']: calls.append(('inspect(str-index(%s, "%s"))'%(src(s),sub), lambda s=s,sub=sub: f_strindex(s,('str',sub,True))))
SH=int(os.environ.get('SHARD','0')); NS=int(os.environ.get('NSHARD','1'))
bad={}; n=0
for i,(text,ref) in enumerate(calls):
    if i%NS!=SH: continue
    n+=1
    try: exp=insp(ref())
    except E: exp=None
    out=subprocess.run([P],input=('@use "sass:list"; a{b:%s}'%text).encode(),capture_output=True).stdout.decode()
    got=None
    if out.startswith('OK'):
        m=re.search(r'b: (.*);',out); got=m.group(1) if m else '<<none>>'
    if got!=exp:
        fn=re.match(r'(inspect\()?([\w-]+)',text).group(2)
        bad.setdefault(fn,[]).append((text,exp,got))
print('calls',n,'bad',sum(len(v) for v in bad.values()))
for k,v in bad.items():
    print('==',k,len(v))
    for x in v[:6]: print('   ',x)
