use grass_compiler as grass;
use std::io::Read;
fn main() {
    let args: Vec<String> = std::env::args().collect();
    let mut input = String::new();
    std::io::stdin().read_to_string(&mut input).unwrap();
    let mut o = grass::Options::default();
    for a in &args[1..] {
        match a.as_str() {
            "sass" => o = o.input_syntax(grass::InputSyntax::Sass),
            "css" => o = o.input_syntax(grass::InputSyntax::Css),
            "scss" => o = o.input_syntax(grass::InputSyntax::Scss),
            "compressed" => o = o.style(grass::OutputStyle::Compressed),
            "ascii" => o = o.unicode_error_messages(false),
            "quiet" => o = o.quiet(true),
            _ => {}
        }
    }
    match grass::from_string(input, &o) {
        Ok(s) => { print!("OK\n{}", s); }
        Err(e) => { print!("ERR\n{}", e); }
    }
}
