import subprocess, re, itertools
P='/root/scratch/target/release/probe'
V=['1','1.000000000004','1.000000000008','1.000000000012','1px','1in','96px','2.54cm','25.4mm','72pt','6pc','0.999999999996in','96.0000000004px','1deg','1s','1000ms','0','-0','0px',
   'a','"a"','"A"','""','unquote("")','red','#f00','#ff0000','rgb(255,0,0)','hsl(0,100%,50%)','rgba(255,0,0,0.5)','rgba(255,0,0,.5000000000001)','transparent','rgba(0,0,0,0)',
   '(1 2)','(1, 2)','[1 2]','[1, 2]','(1,)','[1]','(1)','()','[]','map-remove((a:1),a)','(a:1)','(a:1,b:2)','(b:2,a:1)','(a:(b:1))','("a":1)',
   'null','true','false','calc(1px + 1%)','calc(1% + 1px)','get-function("abs")','get-function("red")','(1 (2 3))','(1 2 3)','1/2','0.5','(1/2)']
n=len(V)
src='@use "sass:math";\n'+''.join('$v%d: %s;\n'%(i,v) for i,v in enumerate(V))+'a{\n'
for i in range(n):
    for j in range(n):
        src+='e%d-%d: $v%d == $v%d; n%d-%d: $v%d != $v%d;\n'%(i,j,i,j,i,j,i,j)
src+='}\n'
out=subprocess.run([P],input=src.encode(),capture_output=True).stdout.decode()
assert out.startswith('OK'), out[:500]
eq={}; ne={}
for m in re.finditer(r'([en])(\d+)-(\d+): (true|false);',out):
    (eq if m.group(1)=='e' else ne)[(int(m.group(2)),int(m.group(3)))]=(m.group(4)=='true')
refl=[V[i] for i in range(n) if not eq[(i,i)]]
sym=[(V[i],V[j]) for i in range(n) for j in range(i) if eq[(i,j)]!=eq[(j,i)]]
neg=[(V[i],V[j]) for i in range(n) for j in range(n) if eq[(i,j)]==ne[(i,j)]]
trans=[(V[i],V[j],V[k]) for i in range(n) for j in range(n) for k in range(n) if eq[(i,j)] and eq[(j,k)] and not eq[(i,k)]]
print('universe',n,'pairs',n*n,'triples',n**3)
print('non-reflexive',refl)
print('asymmetric',sym)
print('!= not negation',neg[:10])
print('non-transitive',len(trans),trans[:12])
# keyed ops agree with ==
src='@use "sass:map";\n'+''.join('$v%d: %s;\n'%(i,v) for i,v in enumerate(V))+'a{\n'
keyable=[i for i in range(n)]
for i in keyable:
    for j in keyable:
        src+='h%d-%d: map-has-key(($v%d: x), $v%d); g%d-%d: map-get(($v%d: x), $v%d) == x; r%d-%d: length(map-remove(($v%d: x), $v%d)) == 0; i%d-%d: index(($v%d,), $v%d) == 1; m%d-%d: length(map-merge(($v%d: x), ($v%d: y))) == 1;\n'%(i,j,i,j,i,j,i,j,i,j,i,j,i,j,i,j,i,j,i,j)
src+='}\n'
out=subprocess.run([P],input=src.encode(),capture_output=True).stdout.decode()
assert out.startswith('OK'), out[:500]
dis={}
for m in re.finditer(r'([hgrim])(\d+)-(\d+): (true|false);',out):
    i,j=int(m.group(2)),int(m.group(3)); val=(m.group(4)=='true')
    if val!=eq[(i,j)]: dis.setdefault(m.group(1),[]).append((V[i],V[j],val))
print('keyed-op disagreements', {k:len(v) for k,v in dis.items()})
for k,v in dis.items(): print(k, v[:8])
