import itertools, subprocess, re, sys, os
P='/root/scratch/target/release/probe'
# ---- program AST ----
# stmt: ('set',var,expr,flag)  expr: ('k',n) | ('v',var) | ('inc',var)    flag in '', 'g', 'd'
#       ('probe',id,var)
#       ('rule',body) ('if',body) ('each',body) ('mixin',body) ('mixin_far',body) ('func',body,retvar,id) ('content',body)
STM=[('set','x',('k',1),''),('set','x',('inc','x'),''),('set','x',('k',2),'g'),('set','x',('k',3),'d'),('set','y',('v','x'),''),('probe','x')]
FR=['rule','if','each','mixin','mixin_far','func','content']
def seqs(items,maxlen):
    for n in range(1,maxlen+1):
        for s in itertools.product(items,repeat=n): yield list(s)
def programs():
    inner1=[[s] for s in STM]
    nested=[(f,b) for f in FR for b in inner1]
    def valid(outer,body):
        for s in body:
            if s[0] in FR:
                if outer in ('if','each','mixin','mixin_far','content') and s[0] in ('mixin','mixin_far','func'): return False
                if outer=='func' and s[0] not in ('if','each'): return False
        return True
    bodies=list(seqs(STM,2))+[[s,n] for s in STM for n in nested]+[[n,s] for s in STM for n in nested]
    frames=[(f,b) for f in FR for b in bodies if valid(f,b)]
    for fr in frames:
        yield [fr]
        for s in STM:
            yield [s,fr]; yield [fr,s]
        yield [('set','x',('k',1),''),fr,('probe','x')]
# ---- printing (SCSS) with unique probe ids ----
class Ctx: pass
def emit(prog):
    c=Ctx(); c.n=0; c.defs=[]; c.k=0
    def ex(e):
        return {'k':lambda: str(e[1]),'v':lambda: '$'+e[1],'inc':lambda: '$%s + 1'%e[1]}[e[0]]()
    def st(s,in_rule,in_func):
        if s[0]=='set': return '$%s: %s%s;'%(s[1],ex(s[2]),{'':'','g':' !global','d':' !default'}[s[3]])
        if s[0]=='probe':
            c.n+=1; s_id=c.n
            if in_func: return '@debug "p%d=#{$%s}";'%(s_id,s[1])
            return ('p%d: $%s;'%(s_id,s[1])) if in_rule else ('q { p%d: $%s; }'%(s_id,s[1]))
        f,b=s[0],s[1]
        if f=='rule': return 'r { %s }'%body(b,True,in_func)
        if f=='if': return '@if true { %s }'%body(b,in_rule,in_func)
        if f=='each': return '@each $i in 1 2 { %s }'%body(b,in_rule,in_func)
        if f=='mixin':
            c.k+=1; return '@mixin m%d { %s } @include m%d;'%(c.k,body(b,in_rule,in_func),c.k)
        if f=='mixin_far':
            c.k+=1; c.defs.append('@mixin m%d { %s }'%(c.k,body(b,in_rule,in_func))); return '@include m%d;'%c.k
        if f=='content':
            return '@include c { %s }'%body(b,in_rule,in_func)
        if f=='func':
            c.k+=1; c.n+=1
            call='p%d: f%d();'%(c.n,c.k)
            return '@function f%d() { %s @return $x; } %s'%(c.k,body(b,in_rule,True), call if in_rule else 'q { %s }'%call)
    def body(b,in_rule,in_func): return ' '.join(st(s,in_rule,in_func) for s in b)
    main=body(prog,False,False)
    return '@mixin c { @content; } '+' '.join(c.defs)+' '+main
# ---- reference interpreter (A.1) ----
class SassErr(Exception): pass
class Frame:
    def __init__(s,semi): s.vars={}; s.semi=semi
def run(prog):
    out=[]   # (probe id, value)
    counter=[0,0]
    g=Frame(True)
    def lookup(fr,v):
        for f in reversed(fr):
            if v in f.vars: return f.vars[v]
        raise SassErr('undef')
    def ev(fr,e):
        if e[0]=='k': return e[1]
        if e[0]=='v': return lookup(fr,e[1])
        if e[0]=='inc': return lookup(fr,e[1])+1
    def assign(fr,v,val,flag):
        if flag=='g' or len(fr)==1: fr[0].vars[v]=val; return
        for i in range(len(fr)-1,-1,-1):
            if v in fr[i].vars:
                if i>0: fr[i].vars[v]=val
                elif fr[-1].semi: fr[0].vars[v]=val
                else: fr[-1].vars[v]=val
                return
        fr[-1].vars[v]=val
    # pre-pass: numbering must follow emit() order exactly -> replicate traversal order with same counters
    def exec_body(b,fr,in_func,defs_far):
        for s in b:
            if s[0]=='set':
                if s[3]=='d':
                    try:
                        cur=lookup(fr,s[1])
                        if cur is not None: continue
                    except SassErr: pass
                val=ev(fr,s[2]); assign(fr,s[1],val,s[3])
            elif s[0]=='probe':
                out.append((s[2], lookup(fr,s[1])) )
            else:
                f,b2=s[0],s[1]
                if f=='rule': exec_body(b2,fr+[Frame(False)],in_func,defs_far)
                elif f in('if',): exec_body(b2,fr+[Frame(fr[-1].semi)],in_func,defs_far)
                elif f=='each':
                    nf=fr+[Frame(fr[-1].semi)]
                    for i in (1,2): nf[-1].vars['i']=i; exec_body(b2,nf,in_func,defs_far)
                elif f=='mixin': exec_body(b2,list(fr)+[Frame(False)],in_func,defs_far)
                elif f=='mixin_far': exec_body(b2,[fr[0],Frame(False)],in_func,defs_far)  # closure = root frames
                elif f=='content': exec_body(b2,list(fr)+[Frame(False)],in_func,defs_far)
                elif f=='func':
                    nf=list(fr)+[Frame(False)]
                    exec_body(b2,nf,True,defs_far)
                    out.append((s[3], lookup(nf,'x')))
    # assign ids in the same order as emit(): emit numbers probes during printing, where mixin_far bodies are printed at their include position too (c.n increments in order of traversal) -> same as static order
    ids=[0]
    def number(b):
        res=[]
        for s in b:
            if s[0]=='probe': ids[0]+=1; res.append(('probe',s[1],ids[0]))
            elif s[0]=='set': res.append(s)
            elif s[0]=='func':
                inner=number(s[1]); ids[0]+=1; res.append(('func',inner,None,ids[0]))
            else: res.append((s[0],number(s[1])))
        return res
    p=number(prog)
    exec_body(p,[g],False,None)
    return out
def norm_func(prog):
    # func stmt shape in generator: ('func', body) -> keep
    return prog
def observe(src):
    r=subprocess.run([P],input=src.encode(),capture_output=True)
    out=r.stdout.decode(); err=r.stderr.decode()
    if not out.startswith('OK'): return None
    obs=[]
    # css probes and debug probes in *textual* order can't be merged; compare as multiset per id sequences
    for m in re.finditer(r'p(\d+): ([^;]+);',out): obs.append((int(m.group(1)),m.group(2)))
    for m in re.finditer(r'DEBUG: "?p(\d+)=([^"\s]+)',err): obs.append((int(m.group(1)),m.group(2)))
    return obs
n=0; bad=[]; agree_err=0
SH=int(os.environ.get('SHARD','0')); NS=int(os.environ.get('NSHARD','1'))
for _idx,prog in enumerate(programs()):
    if _idx%NS!=SH: continue
    n+=1
    src=emit(prog)
    try: exp=run(prog); exp=[(i,str(v)) for i,v in exp]
    except SassErr: exp=None
    got=observe(src)
    if exp is None or got is None:
        if (exp is None)!=(got is None): bad.append((src,exp,got))
        else: agree_err+=1
        continue
    # compare per-id sequences
    def by_id(l):
        d={}
        for i,v in l: d.setdefault(i,[]).append(v)
        return d
    if by_id(exp)!=by_id(got): bad.append((src,exp,got))
print('programs',n,'both-error',agree_err,'bad',len(bad))
for b in bad: print(b)
