import itertools, subprocess, re, sys
feats=['(a)','(b)','(c)']
def subsets(xs):
    for r in range(len(xs)+1):
        for c in itertools.combinations(xs,r): yield list(c)
queries=[]
for cs in subsets(feats):
    if cs: queries.append((None,None,cs))
for cs in subsets(feats): queries.append((None,'all',cs))
for t in ['screen','print']:
    for m in [None,'not','only']:
        for cs in subsets(feats): queries.append((m,t,cs))
def text(q):
    m,t,cs=q; parts=[]
    head=' '.join(x for x in [m,t] if x)
    if head: parts.append(head)
    parts+=cs
    return ' and '.join(parts)
assert len(queries)==63
def ev(q,env):
    m,t,cs=q; ty,tr=env
    base=(t is None or t=='all' or t==ty) and all(tr[c] for c in cs)
    return (not base) if m=='not' else base
envs=[(ty,dict(zip(feats,bits))) for ty in ['screen','print','tv'] for bits in itertools.product([False,True],repeat=3)]
# parse a query text back
def parse_q(s):
    s=s.strip(); toks=s.split(' and ')
    m=None;t=None;cs=[]
    first=toks[0].split()
    if first[0].startswith('('): cs=toks
    else:
        if len(first)==2: m,t=first[0].lower(),first[1]
        else: t=first[0]
        cs=toks[1:]
    return (m,t,[c.strip() for c in cs])
pairs=[(i,j) for i in range(63) for j in range(63)]
src=[]
for n,(i,j) in enumerate(pairs):
    src.append('@media %s { .p%d { @media %s { x: y } } }' % (text(queries[i]), n, text(queries[j])))
out=subprocess.run(['/root/scratch/target/release/probe'],input='\n'.join(src).encode(),capture_output=True).stdout.decode()
assert out.startswith('OK'), out[:300]
# parse blocks: walk text tracking stack of media preludes
found={}
stack=[]
i=0; css=out[3:]
for line in css.split('\n'):
    l=line.strip()
    if l.startswith('@media'): stack.append(l[len('@media'):].rstrip('{').strip())
    elif l.startswith('.p'): found[int(l[2:].rstrip(' {'))]=list(stack); stack.append(None)
    elif l=='}': stack.pop()
bad=0; excluded=0; kinds={}
for n,(i,j) in enumerate(pairs):
    q1,q2=queries[i],queries[j]
    if q1[0]=='not' and q2[0]=='not' and q1[1]==q2[1]: excluded+=1; continue
    chain=found.get(n)
    for env in envs:
        want=ev(q1,env) and ev(q2,env)
        if chain is None: got=False
        else: got=all(any(ev(parse_q(q),env) for q in lst.split(',')) for lst in chain)
        if want!=got:
            bad+=1
            k=(q1[0],q2[0], 'sametype' if q1[1]==q2[1] else ('alltype' if 'all' in (q1[1],q2[1]) or None in (q1[1],q2[1]) else 'difftype'))
            kinds.setdefault(k,[]).append((text(q1),text(q2),chain))
            break
print('pairs',len(pairs),'excluded',excluded,'violating',bad)
for k,v in sorted(kinds.items(), key=lambda kv: str(kv[0])): print(k,len(v),'e.g.',v[0])
