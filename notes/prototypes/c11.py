import subprocess, re, sys, itertools, os
src=open('/root/scratch/c10.py').read().split("# ---------- run ----------")[0]
exec(src)
P='/root/scratch/target/release/probe'
SEL=['a','.x','.y','a.x','.x.y','#i','a#i','.x:hover',':not(.x)',':not(a)',':is(.x, .y)',':is(a, .y)','*','*.x',
     '.x .y','.x > .y','.x + .y','.x ~ .y','a .x','a > .x .y','.x .y .x','.y > .x > .y','.x + .y ~ .x','.x ~ .y + .x','a .x > .y','.x.y .y',':not(.x) .y','.x :not(.y)']
pairs=[(A,B) for A in SEL for B in SEL]
src='a{\n'+''.join('p%d: is-superselector("%s", "%s");\n'%(i,A,B) for i,(A,B) in enumerate(pairs))+'}'
out=subprocess.run([P],input=src.encode(),capture_output=True).stdout.decode()
assert out.startswith('OK'), out[:400]
ans={}
for m in re.finditer(r'p(\d+): (true|false);',out): ans[int(m.group(1))]=(m.group(2)=='true')
refl=[A for i,(A,B) in enumerate(pairs) if A==B and not ans[i]]
print('selectors',len(SEL),'pairs',len(pairs),'true',sum(ans.values()),'non-reflexive',refl)
unsound=[]; checked=0
SH=int(os.environ.get('SHARD','0')); NS=int(os.environ.get('NSHARD','1'))
for i,(A,B) in enumerate(pairs):
    if not ans[i] or i%NS!=SH: continue
    la,lb=parse_list(A),parse_list(B)
    f=features([la,lb])
    n=max(sum(1 for c in cx if not isinstance(c,str)) for l in (la,lb) for cx in l)
    bad=None
    for els in doms(f,min(3,n)):
        for e in els:
            if m_list(e,lb,set()) and not m_list(e,la,set()):
                bad=[(x.type,sorted(x.classes),x.id,sorted(x.pcs), els.index(x.parent) if x.parent else None) for x in els]; break
        if bad: break
    checked+=1
    if bad: unsound.append((A,B,bad))
print('shard',SH,'checked true answers',checked,'unsound',len(unsound))
for u in unsound: print(u)
