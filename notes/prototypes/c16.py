import subprocess, itertools, re, os
P='/root/scratch/target/release/probe'
ENVS=[{'px':1.0,'em':13.7,'%':2.3},{'px':1.0,'em':7.1,'%':11.9}]
LEAVES=['1px','2em','3%','4','-2px','0.5']
OPS=['+','-','*','/']
class TypeErr(Exception): pass
# value: (kind, magnitude) kind in 'len','num'
def leaf_val(tok, env):
    m=re.match(r'^(-?[\d.]+)(px|em|%)?$',tok)
    n=float(m.group(1)); u=m.group(2)
    return ('num',n) if u is None else ('len',n*env[u])
def apply(op,a,b):
    if op in '+-':
        if a[0]!=b[0]: raise TypeErr()
        return (a[0], a[1]+b[1] if op=='+' else a[1]-b[1])
    if op=='*':
        if a[0]=='len' and b[0]=='len': raise TypeErr()
        return ('len' if 'len' in (a[0],b[0]) else 'num', a[1]*b[1])
    if op=='/':
        if b[0]!='num': raise TypeErr()
        if b[1]==0: raise ZeroDivisionError()
        return (a[0], a[1]/b[1])
def ev(t,env):
    if isinstance(t,str): return leaf_val(t,env)
    op,l,r=t
    return apply(op,ev(l,env),ev(r,env))
def show(t,top=True):
    if isinstance(t,str): return t
    op,l,r=t
    return '('+show(l,False)+' '+op+' '+show(r,False)+')'
def trees(d):
    if d==0:
        for l in LEAVES: yield l
        return
    for l in LEAVES: yield l
    for op in OPS:
        for a in trees(d-1):
            for b in trees(d-1): yield (op,a,b)
# parser for output
def tokenize(s): return re.findall(r'-?[\d.]+(?:px|em|%)?|[-+*/()]|calc',s)
def parse_expr(toks,env):
    # precedence climbing: + - lowest, * / higher
    def atom():
        t=toks.pop(0)
        if t=='calc': return atom()
        if t=='(':
            v=expr(); assert toks.pop(0)==')'; return v
        return leaf_val(t,env)
    def term():
        v=atom()
        while toks and toks[0] in '*/':
            op=toks.pop(0); v=apply(op,v,atom())
        return v
    def expr():
        v=term()
        while toks and toks[0] in '+-':
            op=toks.pop(0); v=apply(op,v,term())
        return v
    v=expr(); assert not toks, toks
    return v
SH=int(os.environ.get('SHARD','0')); NS=int(os.environ.get('NSHARD','1'))
stats={}; ex={}
for i,t in enumerate(trees(2)):
    if isinstance(t,str) or i%NS!=SH: continue
    srcexpr=show(t)
    try:
        exp=[ev(t,e) for e in ENVS]; experr=None
    except TypeErr: exp=None; experr='type'
    except ZeroDivisionError: continue
    out=subprocess.run([P],input=('a{b:calc(%s)}'%srcexpr).encode(),capture_output=True).stdout.decode()
    if not out.startswith('OK'):
        k='both-err' if exp is None else 'grass-err-only'
    else:
        txt=re.search(r'b: (.*);',out).group(1)
        if exp is None: k='model-err-only'
        else:
            try:
                got=[parse_expr(tokenize(txt),e) for e in ENVS]
                ok=all(g[0]==x[0] and abs(g[1]-x[1])<=1e-6*max(1,abs(x[1])) for g,x in zip(got,exp))
                k='ok' if ok else 'VALUE-MISMATCH'
            except TypeErr: k='output-illtyped'
            except Exception as e: k='parse-fail'
    stats[k]=stats.get(k,0)+1
    if k not in ('ok','both-err'): ex.setdefault(k,[]).append((srcexpr,out[:90].replace('\n',' ')))
print(stats)
for k,v in ex.items():
    print('==',k,len(v))
    for x in v[:10]: print('   ',x)
