use grass_compiler as grass;
use grass::verif::Site;
use std::cell::Cell;
use std::sync::{Arc, Condvar, Mutex};

// ---- cooperative scheduler over real threads ----
struct St {
    running: usize,            // thread id holding the baton (usize::MAX = controller)
    finished: Vec<bool>,
    choices: Vec<usize>,       // prefix to replay
    pos: usize,                // next decision index
    trace: Vec<(usize, Vec<usize>, usize)>, // (decision idx) -> (current, enabled, chosen)
    nthreads: usize,
}
struct Sched { m: Mutex<St>, cv: Condvar }
static mut SCHED: Option<Arc<Sched>> = None;
thread_local!(static TID: Cell<usize> = Cell::new(usize::MAX));

fn sched() -> &'static Arc<Sched> { unsafe { SCHED.as_ref().unwrap() } }

fn decide(st: &mut St, cur: usize, cur_enabled: bool) -> usize {
    // canonical enabled order: current first if enabled, then ascending ids
    let mut en = Vec::new();
    if cur_enabled { en.push(cur); }
    for t in 0..st.nthreads { if !st.finished[t] && !(cur_enabled && t == cur) { en.push(t); } }
    let i = st.pos; st.pos += 1;
    let c = if i < st.choices.len() { st.choices[i] } else { 0 };
    assert!(c < en.len(), "replay divergence");
    let chosen = en[c];
    st.trace.push((cur, en, c));
    chosen
}

fn point(_s: Site) {
    let me = TID.with(|t| t.get());
    if me == usize::MAX { return; }
    let s = sched();
    let mut st = s.m.lock().unwrap();
    let next = decide(&mut st, me, true);
    if next != me {
        st.running = next;
        s.cv.notify_all();
        while st.running != me { st = s.cv.wait(st).unwrap(); }
    }
}

fn run(progs: &[&'static str], choices: Vec<usize>) -> (Vec<String>, Vec<(usize, Vec<usize>, usize)>) {
    let n = progs.len();
    let s = Arc::new(Sched { m: Mutex::new(St { running: usize::MAX, finished: vec![false; n], choices, pos: 0, trace: vec![], nthreads: n }), cv: Condvar::new() });
    unsafe { SCHED = Some(s.clone()); }
    let mut hs = Vec::new();
    for (i, p) in progs.iter().enumerate() {
        let s2 = s.clone(); let p = *p;
        hs.push(std::thread::spawn(move || {
            TID.with(|t| t.set(i));
            { let mut st = s2.m.lock().unwrap(); while st.running != i { st = s2.cv.wait(st).unwrap(); } }
            let out = match grass::from_string(p.to_string(), &grass::Options::default().quiet(true)) { Ok(s) => s, Err(e) => e.to_string() };
            let mut st = s2.m.lock().unwrap();
            st.finished[i] = true;
            if st.finished.iter().all(|f| *f) { st.running = usize::MAX; } else { let nx = decide(&mut st, i, false); st.running = nx; }
            s2.cv.notify_all();
            out
        }));
    }
    { // initial decision: who starts
        let mut st = s.m.lock().unwrap();
        let first = decide(&mut st, usize::MAX, false);
        st.running = first; s.cv.notify_all();
    }
    let outs: Vec<String> = hs.into_iter().map(|h| h.join().unwrap()).collect();
    let tr = std::mem::take(&mut s.m.lock().unwrap().trace);
    (outs, tr)
}


const PROGS: [&str; 2] = [
    "$apple: 1; $zebra: 2; .x .y{c:$apple} .z .w{@extend .y; b:$zebra}",
    "@function f($args...) { @return inspect(keywords($args)); } a { b: f($zebra: 1, $apple: 2); } .m{n:o} .p{@extend .m}",
];
fn enc(tr: &[(usize, Vec<usize>, usize)]) -> String { tr.iter().map(|(c,en,ch)| format!("{}:{}:{}", if *c==usize::MAX {9} else {*c}, en.iter().map(|e| e.to_string()).collect::<Vec<_>>().join(""), ch)).collect::<Vec<_>>().join(",") }
fn main() {
    let args: Vec<String> = std::env::args().collect();
    if args[1] == "child" {
        // child: args[2] = "solo<i>" or comma separated choices
        if let Some(i) = args[2].strip_prefix("solo") { let i: usize = i.parse().unwrap(); let p = PROGS[i];
            let out = std::thread::spawn(move || match grass::from_string(p.to_string(), &grass::Options::default().quiet(true)) { Ok(s)=>s, Err(e)=>e.to_string() }).join().unwrap();
            print!("{}", out.replace('\n', "\\n")); return; }
        let choices: Vec<usize> = if args[2].is_empty() { vec![] } else { args[2].split(',').map(|c| c.parse().unwrap()).collect() };
        grass::verif::set_hook(Some(point));
        let (outs, tr) = run(&PROGS, choices);
        println!("{}", enc(&tr));
        for o in outs { println!("{}", o.replace('\n', "\\n")); }
        return;
    }
    let bound: usize = args[1].parse().unwrap();
    let me = std::env::current_exe().unwrap();
    let call = |a: &str| -> String { String::from_utf8(std::process::Command::new(&me).arg("child").arg(a).output().unwrap().stdout).unwrap() };
    let base: Vec<String> = (0..PROGS.len()).map(|i| call(&format!("solo{}", i))).collect();
    let t0 = std::time::Instant::now();
    let mut stack: Vec<Vec<usize>> = vec![vec![]];
    let (mut nsched, mut viol) = (0u64, 0u64);
    while let Some(prefix) = stack.pop() {
        let out = call(&prefix.iter().map(|c| c.to_string()).collect::<Vec<_>>().join(","));
        let mut lines = out.lines();
        let tr: Vec<(usize, usize, usize)> = lines.next().unwrap().split(',').map(|t| { let mut p = t.split(':'); let c: usize = p.next().unwrap().parse().unwrap(); let en = p.next().unwrap().to_string(); let ch: usize = p.next().unwrap().parse().unwrap(); let cur_en = c != 9 && en.starts_with(&c.to_string()); (if cur_en {1} else {0}, en.len(), ch) }).collect();
        let outs: Vec<String> = lines.map(|l| l.to_string()).collect();
        nsched += 1;
        if outs != base { viol += 1; if viol <= 2 { println!("VIOLATION schedule={:?}\n  got   {:?}\n  solo  {:?}", tr.iter().map(|t| t.2).collect::<Vec<_>>(), outs, base); } }
        let mut cost = 0; let mut costs = vec![];
        for (cur_en, _n, ch) in &tr { costs.push(cost); if *cur_en == 1 && *ch != 0 { cost += 1; } }
        for i in prefix.len()..tr.len() {
            for alt in 1..tr[i].1 {
                if costs[i] + tr[i].0 > bound { continue; }
                let mut np: Vec<usize> = tr[..i].iter().map(|t| t.2).collect(); np.push(alt); stack.push(np);
            }
        }
    }
    println!("bound={} schedules={} violations={} elapsed={:?}", bound, nsched, viol, t0.elapsed());
}
