import itertools, subprocess, sys
J='/root/scratch/target/release/proj'
exts=['sass','scss','css']
def cands(base, kind, url_has_ext):
    # returns list of priority classes (each a list of paths) per A.3 for one location
    d,_,name=base.rpartition('/')
    pre=(d+'/') if d else ''
    if url_has_ext:
        return [[base],[pre+'_'+name]]
    cl=[]
    def cls(b):
        d2,_,n2=b.rpartition('/'); p2=(d2+'/') if d2 else ''
        out=[]
        if kind=='import': out.append([p2+x+n2+'.import.'+e for e in ['sass','scss'] for x in ['','_']])
        out.append([p2+x+n2+'.'+e for e in ['sass','scss'] for x in ['','_']])
        if kind=='import': out.append([p2+x+n2+'.import.css' for x in ['','_']])
        out.append([p2+x+n2+'.css' for x in ['','_']])
        return out
    return cls(base)+cls(base+'/index')
def model(files, url, kind, locs):
    has_ext=any(url.endswith('.'+e) for e in exts)
    for loc in locs:
        base=(loc+'/' if loc else '')+url
        for c in cands(base, kind, has_ext):
            hit=[f for f in c if f in files]
            if len(hit)>1: return 'AMBIG'
            if hit: return hit[0]
    return None
def allfiles(url, locs):
    s=[]
    for loc in locs:
        base=(loc+'/' if loc else '')+url.replace('.scss','')
        for k in ['import']:
            for c in cands(base,k,False): s+=c
    return sorted(set(s))
def run(files, url, kind, lps):
    entry = {'import':'@import "%s";','use':'@use "%s";','forward':'@forward "%s";'}[kind] % url
    args=[J]
    for lp in lps: args+=['-I',lp]
    args+=['e.scss','e.scss='+entry]
    for f in files:
        marker = ('m\n  from: %s\n' if f.endswith('.sass') else 'm{from:%s}') % f.replace('/','-').replace('.','_')
        args.append(f+'='+marker)
    out=subprocess.run(args,capture_output=True).stdout.decode().strip()
    return out
bad={}; n=0
for url in ['foo','foo.scss']:
  for kind in ['import','use']:
    for lps in [[],['lp']]:
        locs=['']+lps
        universe=allfiles(url,locs)
        layouts=[[f] for f in universe]+[list(p) for p in itertools.combinations(universe,2)]
        for files in layouts:
            exp=model(set(files),url,kind,locs)
            if exp=='AMBIG': continue
            n+=1
            out=run(files,url,kind,lps)
            if exp is None: ok=out.startswith('ERR')
            else: ok=out.startswith('OK') and ('from: '+exp.replace('/','-').replace('.','_')+';') in out
            if not ok:
                key=(url,kind,tuple(lps),exp if len(files)==1 else 'pair')
                bad.setdefault((url,kind,tuple(lps)),[]).append((files,exp,out[:60]))
print('cases',n,'bad',sum(len(v) for v in bad.values()))
for k,v in bad.items():
    print(k,len(v))
    for x in v[:6]: print('    ',x)
