import re, sys, glob, json, ast
# crude extractor: test!(name, "input", "output") with normal or raw string literals
def strings_after(src, start):
    # parse up to two consecutive string literals (normal or raw) separated by commas, starting after identifier
    i = start; out = []
    n = len(src)
    while len(out) < 2 and i < n:
        # skip whitespace/commas
        while i < n and src[i] in " \t\r\n,": i += 1
        if src.startswith('r#"', i) or src.startswith('r"', i) or src.startswith('r##"', i):
            m = re.match(r'r(#*)"', src[i:]); h = m.group(1); i2 = i + len(m.group(0)); end = src.index('"' + h, i2); out.append(src[i2:end]); i = end + 1 + len(h)
        elif src[i] == '"':
            j = i + 1; buf = []
            while src[j] != '"':
                if src[j] == '\\':
                    c = src[j+1]
                    if c == 'n': buf.append('\n'); j += 2
                    elif c == 't': buf.append('\t'); j += 2
                    elif c == 'r': buf.append('\r'); j += 2
                    elif c == '0': buf.append('\0'); j += 2
                    elif c == '\\': buf.append('\\'); j += 2
                    elif c == '"': buf.append('"'); j += 2
                    elif c == "'": buf.append("'"); j += 2
                    elif c == 'x': buf.append(chr(int(src[j+2:j+4], 16))); j += 4
                    elif c == 'u': e = src.index('}', j); buf.append(chr(int(src[j+3:e], 16))); j = e + 1
                    elif c == '\n':
                        j += 2
                        while src[j] in ' \t\n\r': j += 1
                    else: raise Exception("esc " + c)
                else: buf.append(src[j]); j += 1
            out.append(''.join(buf)); i = j + 1
        else:
            break
    return out
cases = []
for f in sorted(glob.glob('/repo/crates/lib/tests/*.rs')):
    src = open(f, encoding='utf-8').read()
    for m in re.finditer(r'\b(test|error)!\(\s*(?:#\[[^\]]*\]\s*)*([A-Za-z0-9_]+)\s*,', src):
        try:
            ss = strings_after(src, m.end())
        except Exception as e:
            continue
        if len(ss) >= 1: cases.append({"file": f.split('/')[-1], "kind": m.group(1), "name": m.group(2), "input": ss[0], "expect": ss[1] if len(ss) > 1 else None})
json.dump(cases, open('/root/scratch/corpus.json', 'w'))
print(len(cases), sum(1 for c in cases if c['kind']=='test'), sum(1 for c in cases if c['kind']=='error'))
