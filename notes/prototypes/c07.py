import subprocess, itertools
from decimal import Decimal, ROUND_HALF_UP, getcontext
getcontext().prec=400
P='/root/scratch/target/release/probe'
def ref(x, compressed=False):
    d=Decimal(x)  # exact
    q=d.quantize(Decimal('1e-10'), rounding=ROUND_HALF_UP)
    s=format(abs(q),'f')
    if '.' in s: s=s.rstrip('0').rstrip('.')
    if s=='' : s='0'
    neg = q<0 and s!='0'
    if compressed and s.startswith('0.'): s=s[1:]
    return ('-' if neg else '')+s
lits=[]
for mant in range(1,1000):
    for e in range(-13,6):
        for sign in ['','-']:
            # literal mant * 10^e written plainly
            if e>=0: lit=str(mant)+'0'*e
            else:
                digs=str(mant).rjust(-e+1,'0'); lit=digs[:e]+'.'+digs[e:]
            lits.append(sign+lit)
extra=['0.99999999995','0.999999999949','0.99999999999','1.00000000005','2.5','0.5','0.00000000005','0.000000000049','0.00000000001','123456789.123456789','1e3','1E-3','1e+3','1.5e-5','12345678901234567890','.5','5.','1e21']
lits+=[x for x in extra if not x.endswith('.')]
for mode in ['','compressed']:
    src='a{\n'+''.join('p%d: %s;\n'%(i,l) for i,l in enumerate(lits))+'}'
    out=subprocess.run([P]+([mode] if mode else []),input=src.encode(),capture_output=True).stdout.decode()
    assert out.startswith('OK'), out[:300]
    body=out[3:]
    got={}
    if mode:
        inner=body[body.index('{')+1:body.rindex('}')]
        for d in inner.split(';'):
            if d: k,v=d.split(':'); got[int(k[1:])]=v
    else:
        for line in body.split('\n'):
            line=line.strip()
            if line.startswith('p'): k,v=line.rstrip(';').split(': '); got[int(k[1:])]=v
    bad=[]
    for i,l in enumerate(lits):
        x=float(l); want=ref(x, bool(mode))
        if got[i]!=want:
            # tie tolerance
            bad.append((l,got[i],want))
    print(mode or 'expanded','n',len(lits),'bad',len(bad),bad[:12])
