import itertools, subprocess, re, sys
P='/root/scratch/target/release/probe'
import os
SELS=['b','&','& c','&-s','&.k','d &','b, c','& + &',':not(&)','&:hover, e'] if os.environ.get('FULL','1')=='1' else ['b','&-s','b, c']
def resolve(child, parent, implicit=True):
    cs=[c.strip() for c in child.split(',')]
    if parent is None:
        return cs
    out=[]
    for c in cs:
        if '&' not in c:
            if implicit: out.append([p+' '+c for p in parent])
            else: out.append([c])
            continue
        if ':not(&)' in c:
            out.append([c.replace(':not(&)',':not('+', '.join(parent)+')')]); continue
        n=c.count('&'); res=[]
        for combo in itertools.product(parent,repeat=n):
            s=c
            for p in combo: s=s.replace('&',p,1)
            res.append(s)
        out.append(res)
    # flatten vertically
    flat=[]; i=0
    while any(i<len(o) for o in out):
        for o in out:
            if i<len(o): flat.append(o[i])
        i+=1
    return flat
# node constructors
def gen(depth, in_rule, n_at):
    # yields list-of-children alternatives (each a list of nodes) -- width<=2
    kinds=[]
    if in_rule: kinds.append(('decl',)); kinds.append(('nprop',))
    for s in (SELS if in_rule else ['b','b, c']): kinds.append(('rule',s))
    kinds+= [('media','(m)'),('supports','(s: t)'),('unknown','x y')]
    if in_rule: kinds+= [('atroot',None),('atroot','(without: media)'),('atroot','(with: rule)'),('atroot','(without: all)')]
    return kinds
cnt=[0]
def trees(depth, in_rule, in_at, budget):
    """all child lists (length 1..2) """
    singles=[]
    for k in gen(depth,in_rule,in_at):
        if k[0]=='decl': singles.append(('decl','p%d'%depth,'v'))
        elif k[0]=='nprop': singles.append(('nprop','np',None,[('decl','q','w')]))
        elif depth==0: continue
        elif k[0]=='rule':
            for ch in trees(depth-1, True, in_at, budget): singles.append(('rule',k[1],ch))
        elif k[0]=='atroot':
            inner_rule = k[1] in ('(without: media)','(with: rule)')
            for ch in trees(depth-1, inner_rule, in_at, budget):
                singles.append(('atroot',k[1],ch))
        else:
            if in_at>=2: continue
            for ch in trees(depth-1, in_rule, in_at+1, budget): singles.append((k[0],k[1],ch))
    out=[[s] for s in singles]
    if budget>1:
        # pairs: restrict to keep count manageable: pair each single with a decl-or-simple-rule sibling before/after
        sib=[('decl','z','y')] if in_rule else []
        sib.append(('rule','g',[('decl','h','i')]))
        for s in singles:
            for t in sib:
                out.append([s,t]); out.append([t,s])
    return out
def to_scss(nodes):
    s=''
    for n in nodes:
        if n[0]=='decl': s+='%s: %s;'%(n[1],n[2])
        elif n[0]=='nprop': s+='%s: {%s}'%(n[1],to_scss(n[3]))
        elif n[0]=='rule': s+='%s {%s}'%(n[1],to_scss(n[2]))
        elif n[0]=='media': s+='@media %s {%s}'%(n[1],to_scss(n[2]))
        elif n[0]=='supports': s+='@supports %s {%s}'%(n[1],to_scss(n[2]))
        elif n[0]=='unknown': s+='@%s {%s}'%(n[1],to_scss(n[2]))
        elif n[0]=='atroot': s+='@at-root %s {%s}'%(n[1] or '',to_scss(n[2]))
    return s
class Err(Exception): pass
def flat(nodes, path, sel, blk, out, implicit=True, prefix=''):
    for n in nodes:
        if n[0]=='decl':
            if blk is None: raise Err('decl outside rule')
            blk[2].append((prefix+n[1],n[2]))
        elif n[0]=='nprop':
            if blk is None: raise Err('decl outside rule')
            flat(n[3],path,sel,blk,out,implicit,prefix+n[1]+'-')
        elif n[0]=='rule':
            if prefix: raise Err('rule in nprop')
            ns=resolve(n[1],sel,implicit)
            if sel is None and '&' in n[1]: raise Err('top-level &')
            b=[tuple(path),ns,[]]; out.append(b)
            flat(n[2],path,ns,b,out,True)
        elif n[0] in ('media','supports','unknown'):
            hdr={'media':'@media ','supports':'@supports ','unknown':'@'}[n[0]]+n[1]
            if n[0]=='media' and any(h.startswith('@media') for h in path):
                # merge with the innermost enclosing media (only if it is the last at-rule on the path)
                if path[-1].startswith('@media'):
                    np=path[:-1]+[path[-1]+' and '+n[1]] if n[1] not in path[-1] else path
                    # duplicate feature: (m) and (m)
                    np=path[:-1]+[path[-1]+' and '+n[1]]
                else:
                    np=path+[[h for h in path if h.startswith('@media')][-1]+' and '+n[1]]
                    np=path+['@media '+' and '.join([h[len('@media '):] for h in path if h.startswith('@media')]+[n[1]])]
            else: np=path+[hdr]
            if sel is not None and implicit_rule(sel):
                b=[tuple(np),sel,[]]; out.append(b)
                flat(n[2],np,sel,b,out,True)
            else:
                flat(n[2],np,sel,None,out,implicit)
        elif n[0]=='atroot':
            q=n[1]
            if q is None: flat(n[2],path,sel,None,out,False)   # excludes rule; & still refers to sel
            elif q=='(without: media)':
                np=[h for h in path if not h.startswith('@media')]
                if np==path:
                    flat(n[2],path,sel,blk,out,implicit,prefix)   # nothing excluded: transparent
                elif sel is not None:
                    b=[tuple(np),sel,[]]; out.append(b); flat(n[2],np,sel,b,out,True)
                else: flat(n[2],np,sel,None,out,True)
            elif q=='(with: rule)':
                if not path: flat(n[2],path,sel,blk,out,implicit,prefix)
                else:
                    b=[(),sel,[]]; out.append(b); flat(n[2],[],sel,b,out,True)
            elif q=='(without: all)': flat(n[2],[],sel,None,out,False)
def implicit_rule(sel): return True
def model(nodes):
    out=[]
    flat(nodes,[],None,None,out)
    return [(b[0],frozenset(x.strip() for x in b[1]),tuple(b[2])) for b in out if b[2]]
def read(css):
    # returns list of (path, selset, decls)
    toks=re.findall(r'[^{};]+|[{};]',css)
    out=[]; stack=[]; cur=None; i=0
    pending=None
    for t in toks:
        ts=t.strip()
        if t=='{':
            hdr=pending.strip(); pending=None
            if hdr.startswith('@'): stack.append(('at',hdr))
            else:
                blk=[tuple(h for k,h in stack if k=='at'), frozenset(x.strip() for x in re.split(r',(?![^()]*\))', hdr.replace('\n',' '))), []]
                out.append(blk); stack.append(('rule',blk))
        elif t=='}':
            stack.pop()
        elif t==';':
            if pending and pending.strip():
                k,v=pending.split(':',1); [b for kk,b in reversed(stack) if kk=='rule'][0][2].append((k.strip(),v.strip()))
            pending=None
        else:
            if ts: pending=t
    return [(b[0],b[1],tuple(b[2])) for b in out if b[2]]
tops=trees(int(os.environ.get('DEPTH','2')), False, 0, 2)
print('n trees',len(tops))
import sys
if len(tops)>40000: tops=tops[::max(1,len(tops)//40000)]
stats={'ok':0,'bad':0,'moderr_ok':0,'mismatch_err':0}
classes={}
for nodes in tops:
    src=to_scss(nodes)
    out=subprocess.run([P],input=src.encode(),capture_output=True).stdout.decode()
    try: exp=model(nodes); experr=None
    except Err as e: exp=None; experr=str(e)
    if out.startswith('ERR'):
        if exp is None: stats['moderr_ok']+=1
        else: stats['mismatch_err']+=1; classes.setdefault('grass-err',[]).append((src,out[:70]))
        continue
    if exp is None:
        stats['mismatch_err']+=1; classes.setdefault('model-err',[]).append((src,experr,out[3:].replace('\n',' ')[:100])); continue
    got=read(out[3:])
    if got==exp: stats['ok']+=1
    else:
        stats['bad']+=1
        key='order' if sorted(map(str,got))==sorted(map(str,exp)) else 'content'
        classes.setdefault(key,[]).append((src,exp,got))
print(len(tops),stats)
for k,v in classes.items():
    print('==',k,len(v))
    for x in v[:8]: print('   ',x)
