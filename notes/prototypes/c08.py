import subprocess, math
from fractions import Fraction as F
P='/root/scratch/target/release/probe'
# reference: factor to base unit per dimension
length={'px':F(1),'in':F(96),'cm':F(96)/F(254,100),'mm':F(96)/F(254,10),'q':F(96)/F(1016,10),'pt':F(96,72),'pc':F(16)}
angle={'deg':F(1),'grad':F(360,400),'turn':F(360),'rad':None}
time={'s':F(1000),'ms':F(1)}
freq={'hz':F(1),'khz':F(1000)}
res={'dpi':F(1),'dpcm':F(254,100),'dppx':F(96)}
other=['em','rem','lh','ex','ch','cap','ic','rlh','vw','vh','vmin','vmax','vi','vb','fr','%','foo']
dims=[length,angle,time,freq,res]
units=[u for d in dims for u in d]+other
def dim(u):
    for i,d in enumerate(dims):
        if u in d: return i
    return None
def ratio(frm,to):  # value in `to` of 1 `frm`
    d=dims[dim(frm)]
    def f(u): return float(d[u]) if d[u] is not None else 180/math.pi
    return f(frm)/f(to)
spell={'hz':'Hz','khz':'kHz','q':'q'}
sp=lambda u: spell.get(u,u)
# 1. compatibility via math.compatible
src='@use "sass:math";\na{\n'
pairs=[(a,b) for a in units for b in units]
for n,(a,b) in enumerate(pairs): src+='  p%d: math.compatible(1%s, 1%s);\n'%(n,sp(a),sp(b))
src+='}\n'
out=subprocess.run([P],input=src.encode(),capture_output=True).stdout.decode()
assert out.startswith('OK'),out[:200]
comp={}
for line in out.split('\n'):
    line=line.strip()
    if line.startswith('p'):
        k,v=line.rstrip(';').split(': '); comp[int(k[1:])]=(v=='true')
bad=[]
for n,(a,b) in enumerate(pairs):
    want = (a==b) or (dim(a) is not None and dim(a)==dim(b))
    if comp[n]!=want: bad.append(('compat',a,b,comp[n]))
# 2. sums for compatible pairs
src='a{\n'; idx=[]
for n,(a,b) in enumerate(pairs):
    if (a==b) or (dim(a) is not None and dim(a)==dim(b)):
        src+='  p%d: 1%s + 1%s;\n'%(n,sp(a),sp(b)); idx.append(n)
src+='}\n'
out=subprocess.run([P],input=src.encode(),capture_output=True).stdout.decode()
assert out.startswith('OK'),out[:300]
vals={}
for line in out.split('\n'):
    line=line.strip()
    if line.startswith('p'):
        k,v=line.rstrip(';').split(': '); vals[int(k[1:])]=v
for n in idx:
    a,b=pairs[n]
    exp=1+(1 if a==b else ratio(b,a))
    v=vals[n]
    num=''.join(c for c in v if c in '0123456789.-'); unit=v[len(num):]
    if abs(float(num)-exp)>6e-11 or unit.lower()!=sp(a).lower(): bad.append(('sum',a,b,v,exp))
# 3. incompatible pairs must error on +
errs=0; nonerr=[]
for n,(a,b) in enumerate(pairs):
    if not ((a==b) or (dim(a) is not None and dim(a)==dim(b))):
        out=subprocess.run([P],input=('a{b:1%s + 1%s}'%(sp(a),sp(b))).encode(),capture_output=True).stdout.decode()
        if out.startswith('ERR'): errs+=1
        else: nonerr.append((a,b,out[:40]))
print('pairs',len(pairs),'compatible',len(idx),'bad',len(bad),bad[:10],'incompatible erroring',errs,'not erroring',len(nonerr),nonerr[:5])
