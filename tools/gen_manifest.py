#!/usr/bin/env python3
"""Regenerates /verif/MANIFEST.json from the table below. Checks listed in CLAIMED are
registered; every other property of properties.jsonl is listed under not_applicable."""
import json, os, subprocess
ROOT = os.path.dirname(os.path.dirname(os.path.abspath(__file__)))

CLAIMED = {
 "C17": dict(
   technique="explicit enumeration of all query pairs/triples over a 63-query alphabet; truth-table oracle over all 24 media environments, every case executed on the implementation",
   text="Bounded exhaustive model checking of the media-merge function through the public API: every ordered pair (thorough: every ordered triple and every 2-list x single in both nesting orders) of the 63-query alphabet is compiled, the emitted @media structure is read back by an independent reader and evaluated in all 24 media environments against the conjunction of the source queries. The alphabet covers every branch of MediaQuery::merge (type-less, all, equal/different types, not/only/no modifier, subset/non-subset feature sets).",
   note="Assumes features are independent opaque booleans and three media types suffice (screen, print, and one type mentioned by no query). Pairs of two negated queries of the same type are excluded as the property states. Queries longer than 3 features, case variants and interpolated query text are outside the alphabet.",
   design="§3 C17"),
}

NOT_YET = "not claimed in this revision: the check described in DESIGN.md is not built yet (work in progress; no alternative technique is substituted)"

def main():
    props = [json.loads(l) for l in open(os.path.join(ROOT, "properties.jsonl"))]
    hooks_commits = []
    try:
        out = subprocess.run(["git", "-C", "/repo", "log", "--format=%H %s"], capture_output=True, text=True).stdout
        hooks_commits = [l.split()[0] for l in out.splitlines() if l.split(" ", 1)[1].startswith("verif:")]
    except Exception:
        pass
    checks = []
    na = []
    for p in props:
        pid = p["id"]
        if pid in CLAIMED:
            c = CLAIMED[pid]
            checks.append({
                "property_id": pid,
                "quick_cmd": f"./check {pid} quick",
                "thorough_cmd": f"./check {pid} thorough",
                "evidence_file": f"/verif/evidence/{pid}.json",
                "replay_cmd_template": f"./check {pid} --replay {{path}}",
                "engine": "mc",
                "level_claimed": {"category": "model_checking", "text": c["text"], "design_ref": c["design"]},
                "level_note": c["note"],
                "technique": c["technique"],
            })
        else:
            na.append({"property_id": pid, "reason": NOT_YET})
    m = {
        "version": 1,
        "setup_cmd": "./setup.sh",
        "hooks": {
            "guard": "--cfg grass_verif",
            "enable": "RUSTFLAGS=\"--cfg grass_verif\" cargo build --release --offline (in /verif/mc, which path-depends on /repo/crates/compiler; CARGO_TARGET_DIR=/verif/target)",
            "baseline_off_cmd": "cd /repo && cargo nextest run --workspace --no-fail-fast --tool-config-file pb:/w/lib/nextest.toml --profile pb --test-threads 8 --offline || cargo test --workspace --no-fail-fast --offline",
            "source_commits": hooks_commits,
            "add_only": True,
        },
        "engines": [{
            "name": "mc", "path": "/verif/mc",
            "serves_properties": sorted(CLAIMED.keys()),
            "kind_free_text": "stateless bounded-exhaustive explorer in Rust driving the real grass_compiler crate (path dependency on /repo): product / derivation / BFS / schedule / environment engines, reference models and independent readers, evidence + replay + known-findings bookkeeping",
        }],
        "checks": checks,
        "not_applicable": na,
        "notes": "Every check rebuilds grass from /repo's working tree via cargo's fingerprinting before it runs. Exit 0 = held on everything explored (KNOWN-FINDING lines for entries of KNOWN_FINDINGS.txt); exit 1 + VIOLATION line otherwise; exit 2 = machinery error (never a verdict).",
    }
    json.dump(m, open(os.path.join(ROOT, "MANIFEST.json"), "w"), indent=1)
    print("claimed:", sorted(CLAIMED.keys()), "not claimed:", len(na))

main()
