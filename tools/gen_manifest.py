#!/usr/bin/env python3
"""Regenerates /verif/MANIFEST.json from the table below. Checks listed in CLAIMED are
registered; every other property of properties.jsonl is listed under not_applicable."""
import json, os, subprocess
ROOT = os.path.dirname(os.path.dirname(os.path.abspath(__file__)))

CLAIMED = {
 "C01": dict(
   technique="bounded exhaustive enumeration of inputs (token strings, typed argument tuples, one-edit corpus neighbours, byte strings, nesting depths/widths) executed on the real compiler; crash/hang/panic oracle with subprocess isolation",
   text="Stateless exhaustive exploration of the real compiler over finite input spaces: every token string of length <=2 (thorough <=3; <=3/<=4 at top level) over a 46-token alphabet in 22 syntactic contexts x 3 syntaxes; every built-in x every argument tuple (arity <=2 over 40 values, arity 3 over 8/16 values, named and splat forms); operators, calc family, hex-escape boundaries and 52 syntactic positions x the value universe; every single-token deletion and every token-boundary prefix of the 3.4k golden-corpus inputs (thorough: every single insertion/substitution); entry and imported files made of boundary byte strings; 18 nesting constructs and 15 width pumps in isolated processes. Each case must end in Ok or a structured error that converts to the public kind and renders in both modes; panic, abort, or no progress for 20 s is a violation.",
   note="Small-scope hypothesis: inputs outside the alphabets/bounds are not covered. Non-termination is decided by a wall-clock limit (20 s in-process, 10 s for isolated re-runs of listed findings). Corpus inputs with @while or possible recursion are only run unmodified (an edit can make their loops unbounded, which the property excludes). Known open findings: stack overflow at nesting depth >= 1024..16384, one @extend blow-up.",
   design="§3 C01"),
 "C08": dict(
   technique="complete product enumeration of unit pairs x operations x magnitudes, compared with a reference table of exact CSS ratios; algebraic coherence laws checked on observed values",
   text="All 36^2 ordered unit pairs (34 known units, an unknown unit, unitless) x 11 operations x 4x4 magnitudes are compiled and compared with a reference built from the ratios in the property text (result value, result unit, or error); all unit triples inside each dimension class are checked for round-trip identity and transitivity on observed outputs; all ordered pairs of compound units (<=2 numerator, <=1 (thorough 2) denominator factors over 6 units) are checked for compatibility, quotient and sum, and every compound shape for non-emittability.",
   note="Numeric agreement is judged within 2e-10 absolute + 1e-11 relative (10-digit output). `%` where the quotient is within 1e-9 of an integer, and min/max between unitless and unit-bearing numbers, are skipped as unspecified. Open findings: compound units are compared structurally, never converted.",
   design="§3 C08"),
 "C15": dict(
   technique="complete enumeration of named and short-hex colours and an RGB lattice (thorough: all 2^24 colours, looped inside the compiled program), algebraic laws plus reference colour math",
   text="All 148 named colours against an independent CSS table and all their spellings in compressed output; all 4096 #rgb and 65536 #rgba literals against long and functional spellings; a 33^3 lattice, two full cube faces and one full slice (thorough: the whole 2^24 cube) under 23 laws per colour (channel integrity, HSL and HWB accessor round trips, involutions, by-zero identities, mix 0/100, opacity, spellings); accessors and hsl()/hwb() constructors against the CSS conversion formulas; 27 call shapes with arguments at, inside and just outside their legal ranges (range invariant); adjust/scale/change-color on RGB channels against the documented formulas.",
   note="`==` on colours is the implementation's own (cross-checked by channel accessors). Reference formulas are f64 with tolerance 1e-6, and +-1 channel step is accepted only at exact rounding ties. Alpha is sampled on 16 steps.",
   design="§3 C15"),

 "C17": dict(
   technique="explicit enumeration of all query pairs/triples over a 63-query alphabet; truth-table oracle over all 24 media environments, every case executed on the implementation",
   text="Bounded exhaustive model checking of the media-merge function through the public API: every ordered pair (thorough: every ordered triple and every 2-list x single in both nesting orders) of the 63-query alphabet is compiled, the emitted @media structure is read back by an independent reader and evaluated in all 24 media environments against the conjunction of the source queries. The alphabet covers every branch of MediaQuery::merge (type-less, all, equal/different types, not/only/no modifier, subset/non-subset feature sets).",
   note="Assumes features are independent opaque booleans and three media types suffice (screen, print, and one type mentioned by no query). Pairs of two negated queries of the same type are excluded as the property states. Queries longer than 3 features, case variants and interpolated query text are outside the alphabet.",
   design="§3 C17"),
}

NOT_YET = "not claimed in this revision: the check described in DESIGN.md is not built yet (work in progress; no alternative technique is substituted)"

def main():
    props = [json.loads(l) for l in open(os.path.join(ROOT, "properties.jsonl"))]
    hooks_commits = []
    try:
        out = subprocess.run(["git", "-C", "/repo", "log", "--format=%H %s"], capture_output=True, text=True).stdout
        hooks_commits = [l.split()[0] for l in out.splitlines() if l.split(" ", 1)[1].startswith("verif:")]
    except Exception:
        pass
    checks = []
    na = []
    for p in props:
        pid = p["id"]
        if pid in CLAIMED:
            c = CLAIMED[pid]
            checks.append({
                "property_id": pid,
                "quick_cmd": f"./check {pid} quick",
                "thorough_cmd": f"./check {pid} thorough",
                "evidence_file": f"/verif/evidence/{pid}.json",
                "replay_cmd_template": f"./check {pid} --replay {{path}}",
                "engine": "mc",
                "level_claimed": {"category": "model_checking", "text": c["text"], "design_ref": c["design"]},
                "level_note": c["note"],
                "technique": c["technique"],
            })
        else:
            na.append({"property_id": pid, "reason": NOT_YET})
    m = {
        "version": 1,
        "setup_cmd": "./setup.sh",
        "hooks": {
            "guard": "--cfg grass_verif",
            "enable": "RUSTFLAGS=\"--cfg grass_verif\" cargo build --release --offline (in /verif/mc, which path-depends on /repo/crates/compiler; CARGO_TARGET_DIR=/verif/target)",
            "baseline_off_cmd": "cd /repo && cargo nextest run --workspace --no-fail-fast --tool-config-file pb:/w/lib/nextest.toml --profile pb --test-threads 8 --offline || cargo test --workspace --no-fail-fast --offline",
            "source_commits": hooks_commits,
            "add_only": True,
        },
        "engines": [{
            "name": "mc", "path": "/verif/mc",
            "serves_properties": sorted(CLAIMED.keys()),
            "kind_free_text": "stateless bounded-exhaustive explorer in Rust driving the real grass_compiler crate (path dependency on /repo): product / derivation / BFS / schedule / environment engines, reference models and independent readers, evidence + replay + known-findings bookkeeping",
        }],
        "checks": checks,
        "not_applicable": na,
        "notes": "Every check rebuilds grass from /repo's working tree via cargo's fingerprinting before it runs. Exit 0 = held on everything explored (KNOWN-FINDING lines for entries of KNOWN_FINDINGS.txt); exit 1 + VIOLATION line otherwise; exit 2 = machinery error (never a verdict).",
    }
    json.dump(m, open(os.path.join(ROOT, "MANIFEST.json"), "w"), indent=1)
    print("claimed:", sorted(CLAIMED.keys()), "not claimed:", len(na))

main()
