#!/usr/bin/env python3
"""Regenerates /verif/MANIFEST.json from the table below. Checks listed in CLAIMED are
registered; every other property of properties.jsonl is listed under not_applicable."""
import json, os, subprocess
ROOT = os.path.dirname(os.path.dirname(os.path.abspath(__file__)))

CLAIMED = {
 "C02": dict(
   technique="stateless exploration of real code from identical cold process states: BFS over compilation histories, preemption-bounded enumeration of thread schedules at hooked shared-state accesses, enumeration of hash seeds through getrandom interposition; oracle = fresh-process result",
   text="Every execution runs in a child forked from a cold single-threaded zygote. History: all pairs over a 19-program alphabet (two of them the same source and files under different load paths) and all triples over a 7-program core (thorough: all triples over the alphabet and all 4-sequences over the core), every position compared with the fresh-process result; every corpus program after 3 (thorough 8) alphabet programs on the same thread and repeated. Schedule: 2 (thorough 3) threads compiling programs that collide on the interner and the two global counters, all schedules with <= 1 preemption for every unordered pair of a 6-program alphabet, <= 2 (thorough 3) for the identifier pair (thorough: <= 2 for the extend pair, two 3-thread groups with <= 1), scheduling points = the three hook sites; replay divergence is a hard error. Hash seeds: every alphabet and corpus program under 6 (thorough 24) seeds. unique-id(): 1..64 calls distinct and valid.",
   note="Sequential consistency between scheduling points (the hooks cover every access to process- or thread-global mutable state; once_cell initialisation is warmed up before the hook is installed). Seeds are a finite alphabet, not the 2^128 key space; allocation-address dependent behaviour (pointer hashing) is only reachable through the seed/history repetitions, not enumerated. unique-id distinctness rests on the RNG.",
   design="§3 C02, §2"),
 "C05": dict(
   technique="exhaustive enumeration over the golden corpus and a bounded string-escaping grammar x styles x charset flag; structural invariants by an independent CSS reader and a fixed-point relation on canonical trees",
   text="For every compiling corpus input and every string of <= 2 (thorough 3) pieces over a 20-piece escaping alphabet in 15 string-bearing positions, x {expanded, compressed} x {charset on, off}: the output is valid UTF-8, carries @charset/BOM exactly when non-ASCII and allowed, is balanced (independent reader), contains no Sass-only syntax, and re-compiling it as CSS and as SCSS succeeds and reproduces the same canonical tree. Further sub-spaces: sequences of <= 3 (thorough 4) top-level statements / rule children over invisible and body-less statements; every @supports condition tree of depth <= 2; 19 selector frames x 7 fillers with placeholders; case variants of Sass function names as plain CSS functions and numbers that round to zero; identifiers with escaped punctuation.",
   note="Domain per the property: outputs whose declaration values are CSS component values (positive grammar in the harness); outputs of inspect()-style printing, and inputs that splice text with interpolation/unquote (which can spell calls Sass evaluates on re-reading), are counted as excluded from the fixed-point relation, not from the structural invariants.",
   design="§3 C05"),
 "C06": dict(
   technique="exhaustive enumeration of corpus inputs and of a value x site sensitivity grammar, each compiled in both styles and compared on canonical trees, log messages and ok/error class",
   text="Every corpus input, 39 value spellings x 48 value-to-text sites (interpolation into strings, selectors, property names, media queries, string concatenation, unary operators, @warn/@debug/@error, plain CSS functions, string functions applied to the resulting text, control flow on it), and a 3-digit number lattice at 8 scales: expanded and compressed results must have equal canonical trees (independent canonicaliser), equal @warn/@debug message sequences and the same ok/error classification.",
   note="The canonicaliser erases only whitespace, optional semicolons, non-preserved comments (and rules left empty by that), number spellings (leading/trailing zeros) and colour spellings (names, short/long hex, rgb()/hsl() functional forms).",
   design="§3 C06"),
 "C07": dict(
   technique="product enumeration of a literal lattice and operand pairs; exact big-integer decimal reference for printing; IEEE reference for arithmetic; tolerance cases placed clearly inside/outside 1e-11",
   text="Every 1-3 (thorough 1-4) digit mantissa at 29 decimal scales plus boundary literals (around .5, 1e-10, exact dyadic ties, exponent forms) x 2 styles x {literal, literal+0} against the correctly rounded 10-digit rendering computed with exact big-integer arithmetic (both neighbours accepted only at an exact tie) and re-reading of the printed text; 33^2 operand pairs x 6 operations against the harness's IEEE result; 11 bases x 12 offsets inside (<= 4e-12) / outside (>= 1.6e-11) the tolerance for == != < > <= >= round ceil floor abs integer checks and list indexing; 11 sass:math functions x 17 arguments.",
   note="Doubles outside the lattice are not covered. math.round at a tie reached only within the tolerance may go either way (the property does not fix it). pow and % are accepted within one ulp.",
   design="§3 C07"),
 "C09": dict(
   technique="complete enumeration of pairs and triples over a 62-value universe; explicit-state breadth-first search over map-operation sequences with a reference ordered association list, every transition replayed on the implementation",
   text="All 62^2 ordered pairs (== vs !=, reflexivity, symmetry) and all 62^3 triples (transitivity) of a universe with equal-after-conversion numbers, fuzzy neighbours, quoted/unquoted strings, colour spellings, list shapes, maps, calc and function values; 8 keyed operations on every (key, probe) pair must agree with the observed ==; map literals are rejected exactly for == keys; BFS to depth 4 (thorough 6) over 102 map operations (merge, 2-pair merge, set, remove, 2-key remove, deep-merge, deep-remove on 6 key spellings in 3 equality classes), canonical state = order of classes, all observations (values, @each order, length, get/has-key for every spelling) after every step.",
   note="The universe is representative, not all values. Which spelling of an updated key is retained is not observed.",
   design="§3 C09"),
 "C13": dict(
   technique="exhaustive enumeration of virtual directory layouts (environment answers) x URL forms x rule kinds x load-path lists, through a tracing in-memory Fs, against a reference resolver",
   text="8 URL forms x {@import, @use, @forward} x 2 (thorough 4) load-path lists x 1 (thorough 2) importer locations x (no file, every single candidate, every pair of candidates; thorough: every triple for the plain URL): the loaded file (marker in the output) or the error must be the reference resolver's answer, the error must be located at the import statement, every Fs call must be on a candidate path of that search, and decoy files on the real disk (the process runs inside a directory holding them) must never be read; 11 plain-CSS import forms must be emitted verbatim without any Fs call. Further: the same URL from two importers in both orders over all 2^7 candidate subsets and both load-path orders; a relative load after a load that resolved into another directory (6 first loads x 2 rules x 2 importer locations x 4 decoy sets).",
   note="Layouts where two same-priority candidates coexist are excluded as the property states. The in-memory Fs normalises paths lexically.",
   design="§3 C13, A.3"),
 "C14": dict(
   technique="exhaustive enumeration of calls over small universes of lists, indices, maps and strings against reference implementations written from the documentation, plus exhaustive depth-2 compositions of the built-ins against the composed references, algebraic laws and module-vs-global agreement",
   text="About 16k (thorough 24k) calls: every list of length 0-4 (6) in every separator/bracket shape x indices -8..8, non-integers, fuzzy integers and wrongly typed arguments for length/nth/set-nth/index/append/join/zip/list-separator/is-bracketed; 11 maps incl. three nested levels and repeated key names across levels x 7 keys for get/has-key/keys/values/merge/remove/set/deep-merge/deep-remove and their nested-key variants (paths of up to 3 keys); 20 strings over ASCII, combining and astral code points with positions -6..6 (8) for length/slice/index/insert/quote/unquote/case/split; every result compared on inspect() text (error iff reference error); each module function compared with its global alias; 21 algebraic laws; about 6k (thorough 8k) depth-2 compositions (14 list producers x 14 consumers, 7 map producers x 9 consumers, 8 string producers x 9 consumers over the same universes) judged against the composed references, so consumers start from values only a built-in can produce.",
   note="Sub-spaces the documentation leaves open are excluded: map.deep-remove through a missing or non-map intermediate key, string.split with an empty separator / empty string / unquoted input.",
   design="§3 C14"),
 "C18": dict(
   technique="exhaustive enumeration of statement trees printed by two independent printers, and of token-preserving rewrites of every corpus input, compared as metamorphic relations",
   text="All statement trees of depth <= 2 over a 21-template alphabet printed as SCSS and as indented syntax must compile identically; every corpus input under CRLF/CR/FF line terminators, BOM and @charset prefixes, leading/trailing blank lines; every corpus input the CSS parser accepts compiled as CSS and as SCSS; 30 Sass-only constructs rejected in CSS mode; whitespace and silent comments inserted after every `{` `;` `}` (one at a time and all at once) of every compiling SCSS corpus input; 12 definition/use templates x 5 name pairs with `_` and `-` exchanged at definition, use, or both. Further: whitespace-only lines after every line of the indented text; whitespace / comments next to `(` `)` `,` in argument lists; every single space of corpus inputs replaced by newline / tab / CRLF; 2-3 adjacent lines over 7 line kinds and @if/@else trees of depth <= 2 (3) in both syntaxes; entries in one syntax loading libraries in another.",
   note="Noise is only inserted where it is lexically insignificant (outside strings, comments, parentheses, interpolation and custom properties). Prefix/suffix rewrites are applied to compiling inputs only.",
   design="§3 C18"),
 "C20": dict(
   technique="complete product enumeration of CLI flags x input kinds x source/sink modes, each real process run compared with the library called in-process",
   text="2^5 flag combinations x {file argument, --stdin} x {stdout, output file, unwritable output file} x 15 input kinds (1 900 process runs of the real binary built from /repo with the guard off): stdout/output file equals the library's CSS and exit 0; on a compile error exit != 0, stderr equals the warnings logged so far plus the library's rendered error, stdout empty; on I/O errors exit != 0 with a message and no CSS; warnings/debug on stderr only and absent with --quiet. Thorough adds every SCSS corpus input through --stdin under 8 style/charset/unicode combinations. Further: every sequence of 1..3 --load-path options over 3 directories x {@import, @use} x {file, --stdin}; 6 states of the output file before the run x 2 styles x {compiling, failing}; 4 output sizes written to /dev/full.",
   note="StdLogger's text format is reproduced by the harness from the events a collecting Logger receives. Flag combinations the CLI cannot express (--stdin with an output file) are skipped.",
   design="§3 C20"),

 "C01": dict(
   technique="bounded exhaustive enumeration of inputs (token strings, typed argument tuples, one-edit corpus neighbours, byte strings, nesting depths/widths) executed on the real compiler; crash/hang/panic oracle with subprocess isolation",
   text="Stateless exhaustive exploration of the real compiler over finite input spaces: every token string of length <=2 (thorough <=3; <=3/<=4 at top level) over a 46-token alphabet in 22 syntactic contexts x 3 syntaxes; every built-in x every argument tuple (arity <=2 over 40 values, arity 3 over 8/16 values, named and splat forms); operators, calc family, hex-escape boundaries and 52 syntactic positions x the value universe; every single-token deletion and every token-boundary prefix of the 3.4k golden-corpus inputs (thorough: every single insertion/substitution); entry and imported files made of boundary byte strings; 18 nesting constructs and 15 width pumps in isolated processes. Each case must end in Ok or a structured error that converts to the public kind and renders in both modes; panic, abort, or no progress for 20 s is a violation.",
   note="Small-scope hypothesis: inputs outside the alphabets/bounds are not covered. Non-termination is decided by a wall-clock limit (20 s in-process, 10 s for isolated re-runs of listed findings). Corpus inputs with @while or possible recursion are only run unmodified (an edit can make their loops unbounded, which the property excludes). Known open findings: stack overflow at nesting depth >= 1024..16384, one @extend blow-up.",
   design="§3 C01"),
 "C08": dict(
   technique="complete product enumeration of unit pairs x operations x magnitudes, compared with a reference table of exact CSS ratios; algebraic coherence laws checked on observed values",
   text="All 36^2 ordered unit pairs (34 known units, an unknown unit, unitless) x 11 operations x 4x4 magnitudes are compiled and compared with a reference built from the ratios in the property text (result value, result unit, or error); all unit triples inside each dimension class are checked for round-trip identity and transitivity on observed outputs; all ordered pairs of compound units (<=2 numerator, <=1 (thorough 2) denominator factors over 6 units) are checked for compatibility, quotient and sum, and every compound shape for non-emittability.",
   note="Numeric agreement is judged within 2e-10 absolute + 1e-11 relative (10-digit output). `%` where the quotient is within 1e-9 of an integer, and min/max between unitless and unit-bearing numbers, are skipped as unspecified. Open findings: compound units are compared structurally, never converted.",
   design="§3 C08"),
 "C15": dict(
   technique="complete enumeration of named and short-hex colours and an RGB lattice (thorough: all 2^24 colours, looped inside the compiled program), algebraic laws plus reference colour math",
   text="All 148 named colours against an independent CSS table and all their spellings in compressed output; all 4096 #rgb and 65536 #rgba literals against long and functional spellings; a 33^3 lattice, two full cube faces and one full slice (thorough: the whole 2^24 cube) under 23 laws per colour (channel integrity, HSL and HWB accessor round trips, involutions, by-zero identities, mix 0/100, opacity, spellings); accessors and hsl()/hwb() constructors against the CSS conversion formulas; 27 call shapes with arguments at, inside and just outside their legal ranges (range invariant); adjust/scale/change-color on RGB channels against the documented formulas. Further: 11 constructor shapes x 12 alpha spellings (numbers / percentages in and out of range); mix() with transparent operands at weights 0/25/50/100%; scale-color on every channel value x every integer (thorough 0.1%) percentage against exact integer arithmetic; the opacity functions on all 148 names.",
   note="`==` on colours is the implementation's own (cross-checked by channel accessors). Reference formulas are f64 with tolerance 1e-6, and +-1 channel step is accepted only at exact rounding ties. Alpha is sampled on 16 steps.",
   design="§3 C15"),

 "C17": dict(
   technique="explicit enumeration of all query pairs/triples over a 63-query alphabet; truth-table oracle over all 24 media environments, every case executed on the implementation",
   text="Bounded exhaustive model checking of the media-merge function through the public API: every ordered pair (thorough: every ordered triple and every 2-list x single in both nesting orders) of the 63-query alphabet is compiled, the emitted @media structure is read back by an independent reader and evaluated in all 24 media environments against the conjunction of the source queries. The alphabet covers every branch of MediaQuery::merge (type-less, all, equal/different types, not/only/no modifier, subset/non-subset feature sets). Further (both tiers): 2-lists over a 16-query sub-alphabet x every single query in both nesting orders; (list of 2) > (list of 2) > single over a 7-query sub-alphabet; 3 `or` queries and 4 queries with negated conditions against the whole alphabet in both orders.",
   note="Assumes features are independent opaque booleans and three media types suffice (screen, print, and one type mentioned by no query). Pairs of two negated queries of the same type are excluded as the property states. Queries longer than 3 features, case variants and interpolated query text are outside the alphabet.",
   design="§3 C17"),
 "C03": dict(
   technique="exhaustive enumeration of four bounded program grammars (scoping frames, control flow, callables x call shapes, operator trees) executed on the real compiler and on a reference interpreter written from the language reference; equality of all observable values and of the @debug/@warn log",
   text="Scoping: 10 frame kinds (style rule, @if/@else at root, @each, @for, @while, mixin defined in place / at root, function, content block) x bodies of <= 2 (thorough 3) statements from an 8-statement alphabet ($x assignment, increment, !global, !default, copy, probes) with one nested frame holding <= 2 statements before/after x 4 placements; closures: every sequence of <= 5 (thorough 6) steps over {define function / mixin reading $x, assign $x, assign !global, call, include, probe} in 5 enclosing contexts; control flow: @for from,to in -2..3 x {to, through} with and without @return from the loop, @each over 7 list/map shapes x 1-3 variables, @while, nested loops with @return, @if chains over 10x10 truthiness classes; callables: every parameter list of <= 3 parameters (required / default / default referring to the previous parameter / rest) x 42 call shapes as function and as mixin, @content(args) using (params); operators: all binary expressions over 12 operators x 9x9 leaves, all 2-operator trees in both associations and all five shapes of 3-operator trees, each also compared with its fully parenthesised spelling, and/or short-circuit observed through a logging function. Every program: grass and the reference interpreter agree on every probe value, on the log, or both fail.",
   note="The reference interpreter (mc/src/models/interp.rs: frames are plain maps with a semi-global flag, closures capture the frame list, argument binding per the reference) is part of the trusted base. Values are integers, short strings, booleans, null, flat lists and maps. `null + null` / `-(null)` are skipped as not settled by the reference material.",
   design="§3 C03, A.1"),
 "C10": dict(
   technique="exhaustive enumeration of @extend programs; semantic oracle: every emitted selector list judged on every DOM tree of <= 3 elements over the program's features by an independent selector matcher",
   text="23 target selectors x 9 extenders x 8 targets x 2 rule orders, 8 two-extend shapes (chains, cycles, shared targets) under every rule permutation, shared pseudo arguments and trimming shapes (3.4k programs); for each, on every DOM of <= 3 (thorough 4) elements: every element matched by the output would be matched by the source rule once extenders are credited with their targets (soundness), every credited element is matched when the extender is a single compound (completeness), original selectors survive (first law), specificity does not drop (second law), no placeholder is emitted; 11 error/scope shapes (missing target with/without !optional, complex targets, across and inside @media). Further: 6 rules x 4 three-compound extenders judged on DOMs of 4 elements; 5 target rules holding a nested @media / @supports / unknown at-rule x 4 extenders x both orders (both parts of the rule carry the same selector).",
   note="Complex extenders are judged for soundness only (Sass deliberately omits interleavings); extenders and targets under :not() with complex extenders are excluded. Open findings: missing-target and cross-@media errors are not raised; extension chains declared before their target or through a type selector lose members.",
   design="§3 C10"),
 "C11": dict(
   technique="complete enumeration of ordered selector pairs over a 45-selector alphabet for every sass:selector function; semantic oracle on all DOM trees of <= 3 elements; cross-validation against the @extend / nesting machinery",
   text="All 45^2 ordered pairs of a 45-selector alphabet: every is-superselector `true` answer verified on every DOM of <= 3 (thorough 4) elements; every non-null selector-unify result matches only what both inputs match on every DOM, and null is refused for conflict-free compounds; selector-nest on all ordered pairs and selector-append with 5 suffixes equal the selector of the equivalent nested style rule compiled in the same stylesheet; selector-extend (45 selectors x 6 targets x 6 extenders) equals the rewritten selector of the corresponding @extend program as a set of complex selectors and selector-replace is contained in it; selector-parse then print keeps the match set on every DOM. A panic anywhere is a violation. simple-selectors() on 27 compounds (parts spell the selector) and 11 non-compound inputs (no crash).",
   note="DOMs are trees and forests of <= 3 (thorough 4) elements (a forest stands for a tree with one more, unlabelled, root) with labels over the features the judged selectors mention plus one unmentioned type; attribute and pseudo selectors with different text are independent opaque features. ::slotted and :not() with complex arguments are outside the alphabet for extend.",
   design="§3 C11"),
 "C12": dict(
   technique="exhaustive enumeration of module graphs (every edge kind between every ordered module pair) and of member-visibility / configuration shapes over an in-memory file system, against a reference module model",
   text="All 4^3 (thorough 4^6) graphs over 3 (4) modules with edges i<j in {none, @use, @use as *, @forward}: each module is evaluated once (observed through @debug), CSS is emitted once in dependency order, every variable/function/mixin/private probe through every namespace and bare resolves or fails as the reference visibility model says, and assignments through two namespaces of one module are shared; every 1-, 2- and 3-cycle of @use/@forward is an error; 12 forwarding shapes (show/hide of each member kind, prefix, prefix+show/hide) x 3 @use forms x 13 member probes; 19 `with` shapes (!default / non-default / unknown / private / duplicate variables, already-loaded modules, configuration through plain, prefixed, show/hide and pre-configured @forward); 6 x 6 spellings of one partial from two importers load one module; 64 module functions against their global aliases. Further: assignment of every (and of an undefined) variable through every namespace; 1..4 intermediate modules loading one leaf by @use or @forward with the entry loading it first / last / not (evaluated once, no false cycle).",
   note="The in-memory Fs canonicalises paths lexically; member names carry the module index so that no accidental conflicts arise in the graph space.",
   design="§3 C12"),
 "C16": dict(
   technique="exhaustive enumeration of calc()/min/max/clamp expression trees to depth 2 over typed leaves x 4 spellings; symbolic unit-vector typing oracle and numeric evaluation in three unit environments",
   text="All trees of depth <= 1 over 11 leaves and of depth <= 2 over 6 (thorough all 11) leaves x {minimal parentheses, full parentheses, operands through variables, relative operands interpolated} (1.1M cases): the expression is rejected exactly when its typing is ill-formed (sum of incompatible known units, product with two dimensions, ...); otherwise the emitted value - a number or a simplified calc - evaluates to the same quantity as the source expression in three environments assigning lengths to relative units; fully numeric expressions fold to a plain number; min/max/clamp pick the right operand including across convertible units; outputs are stable under re-compilation.",
   note="A percentage is treated as a length in the environments; cases whose typing depends on what a percentage stands for, and division by zero, are skipped. Interpolated operands are opaque text (kept, not typed).",
   design="§3 C16"),
 "C19": dict(
   technique="exhaustive enumeration of failing inputs (C01's generators) with a location oracle against the supplied file texts, and of logging programs x configurations against the reference interpreter's delivery sequence; process streams captured around a child process",
   text="Error locations: every token string of length <= 2 (thorough <= 3 in 8 contexts) over the 46-token alphabet in 22 contexts x {scss, indented}; every built-in x argument tuple of arity <= 2 over the 40-value universe; 49 value positions x the universe; every error!() corpus input (thorough: every single-token deletion of compiling corpus inputs); 12 interpolated strings x 18 re-lexed positions x 3 prefixes; 16 failing snippets x 6 load rules x {direct, through an intermediate file, inside a mixin / function defined in the imported file}: each error names a file of the compilation, carries that file's text, begin <= end lie inside it, both renderings succeed and start with `Error: <message>` and show the location, ASCII mode has no box characters. @error: 40 values x 5 placements, message = inspect() text, line = the directive's. Delivery: 12 program shapes x 7x7 @debug/@warn statement pairs x {one file, @import, @use as *} x 5 executions on one thread (plain, quiet, quiet+ASCII, ASCII, plain again): kind, message, file, line and order equal the reference interpreter's log with repeated (directive, message) warnings collapsed; nothing under quiet. Silence: a child process compiling the logging, failing and warning-raising programs with a collecting Logger leaves both process streams empty. Delivery programs also with CRLF and CR line terminators; the compiler's own warning (meta.load-css with $with) x quiet.",
   note="Whether a quoted string reaches the Logger with its quotes in @warn is not compared (grass delivers `\"x\"`, dart-sass `x`; the property does not fix it). Loop heads with huge bounds are excluded from the value positions (unbounded loops).",
   design="§3 C19"),
 "C04": dict(
   technique="exhaustive enumeration of rule trees to bounded depth and width, each compiled and read back by the independent CSS reader into (at-rule path, selector list, declarations) blocks, compared in order with a reference that builds the output tree by the language's placement rules",
   text="All trees of depth <= 2 over style rules with 12 selector forms (`&` alone, with suffix, in a compound, repeated, inside :not(), in lists, after a combinator), nested properties with and without a value, @media, @supports, an unknown at-rule, @at-root with 7 queries (none, without: rule / media / supports / all, with: rule / media) and declarations, each child list alone and with a declaration or rule sibling before, after and around it; all single-child chains of depth 3 (5, thorough 12 selector forms), depth 4 and (thorough) depth 5; all trees of depth 3 (thorough 4) with sibling pairs at every level over reduced alphabets (180 k trees quick, 4.5 M thorough). The ordered list of non-empty blocks must equal the reference's, and a tree the reference rejects (declaration outside a rule, top-level `&`, suffix on a parent that cannot take one) must be rejected.",
   note="The reference (mc/src/checks/c04.rs, `Tree`) follows the placement rules of the reference implementation: a node is appended to the nearest ancestor that is not transparent for it, a parent that already has a visible following sibling is copied, @at-root appends copies of the included ancestors to the root it selects and reuses the run of included ancestors that reaches the root. Media queries are single features (merging is C17's subject); keyframes are outside the alphabet.",
   design="§3 C04, A.2"),
}

NOT_YET = "not claimed in this revision: the check described in DESIGN.md is not built yet (work in progress; no alternative technique is substituted)"

def main():
    props = [json.loads(l) for l in open(os.path.join(ROOT, "properties.jsonl"))]
    hooks_commits = []
    try:
        out = subprocess.run(["git", "-C", "/repo", "log", "--format=%H %s"], capture_output=True, text=True).stdout
        hooks_commits = [l.split()[0] for l in out.splitlines() if l.split(" ", 1)[1].startswith("verif:")]
    except Exception:
        pass
    checks = []
    na = []
    for p in props:
        pid = p["id"]
        if pid in CLAIMED:
            c = CLAIMED[pid]
            checks.append({
                "property_id": pid,
                "quick_cmd": f"./check {pid} quick",
                "thorough_cmd": f"./check {pid} thorough",
                "evidence_file": f"/verif/evidence/{pid}.json",
                "replay_cmd_template": f"./check {pid} --replay {{path}}",
                "engine": "mc",
                "level_claimed": {"category": "model_checking", "text": c["text"], "design_ref": c["design"]},
                "level_note": c["note"],
                "technique": c["technique"],
            })
        else:
            na.append({"property_id": pid, "reason": NOT_YET})
    m = {
        "version": 1,
        "setup_cmd": "./setup.sh",
        "hooks": {
            "guard": "--cfg grass_verif",
            "enable": "RUSTFLAGS=\"--cfg grass_verif\" cargo build --release --offline (in /verif/mc, which path-depends on /repo/crates/compiler; CARGO_TARGET_DIR=/verif/target)",
            "baseline_off_cmd": "cd /repo && cargo nextest run --workspace --no-fail-fast --tool-config-file pb:/w/lib/nextest.toml --profile pb --test-threads 8 --offline || cargo test --workspace --no-fail-fast --offline",
            "source_commits": hooks_commits,
            "add_only": True,
        },
        "engines": [{
            "name": "mc", "path": "/verif/mc",
            "serves_properties": sorted(CLAIMED.keys()),
            "kind_free_text": "stateless bounded-exhaustive explorer in Rust driving the real grass_compiler crate (path dependency on /repo): product / derivation / BFS / schedule / environment engines, reference models and independent readers, evidence + replay + known-findings bookkeeping",
        }],
        "checks": checks,
        "not_applicable": na,
        "notes": "Every check rebuilds grass from /repo's working tree via cargo's fingerprinting before it runs. Exit 0 = held on everything explored (KNOWN-FINDING lines for entries of KNOWN_FINDINGS.txt); exit 1 + VIOLATION line otherwise; exit 2 = machinery error (never a verdict).",
    }
    json.dump(m, open(os.path.join(ROOT, "MANIFEST.json"), "w"), indent=1)
    print("claimed:", sorted(CLAIMED.keys()), "not claimed:", len(na))

main()
