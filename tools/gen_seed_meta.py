#!/usr/bin/env python3
"""Writes seeded/<id>/meta.json for every seeded change from its notes.md (what the change is, which
clause it breaks, what it needs to manifest), confirm.txt (what was re-run in a scratch worktree) and
seeded/RESULTS.txt (what the registered checks reported with the patch applied to /repo), and prints
the detection table used in DESIGN.md."""
import json, os, re, glob
ROOT = os.path.dirname(os.path.dirname(os.path.abspath(__file__)))
SEEDED = os.path.join(ROOT, "seeded")

def section(text, *names):
    for n in names:
        m = re.search(r"^##+\s*%s.*?\n(.*?)(?=^##+\s|\Z)" % n, text, re.S | re.M | re.I)
        if m:
            return re.sub(r"\s+", " ", m.group(1)).strip()
    return ""

HISTORY = {}

def results():
    """last recorded run of each seed: {seed: [(check, tier, rc, nviol, first violation line)]}"""
    out = {}
    p = os.path.join(SEEDED, "RESULTS.txt")
    if not os.path.exists(p):
        return out
    cur = None
    lines = open(p, errors="replace").read().splitlines()
    for i, l in enumerate(lines):
        m = re.match(r"### (\S+) vs (\S+) \((\w+)\)", l)
        if m:
            cur = m.group(1)
            if cur in out and out[cur]:
                HISTORY.setdefault(cur, []).extend(out[cur])
            out[cur] = []  # a later run of the same seed replaces the earlier one
            continue
        m = re.match(r"== (\S+) (\w+) rc=(\d+): (\d+) violation lines", l)
        if m and cur:
            first = ""
            for k in range(i + 1, min(i + 4, len(lines))):
                if lines[k].startswith("  ["):
                    first = lines[k].strip()[:240]
                    break
            out[cur].append({"check": m.group(1), "tier": m.group(2), "exit": int(m.group(3)), "violation_lines": int(m.group(4)), "first": first})
        elif cur and ("patch does not apply" in l or "not clean" in l or "error: could not compile" in l):
            out[cur].append({"problem": l.strip()[:200]})
    return out

def main():
    res = results()
    table = []
    for d in sorted(glob.glob(os.path.join(SEEDED, "C*-*"))):
        sid = os.path.basename(d)
        prop = sid.split("-")[0]
        notes = open(os.path.join(d, "notes.md"), errors="replace").read() if os.path.exists(os.path.join(d, "notes.md")) else ""
        title = (re.search(r"^#\s*(.*)$", notes, re.M).group(1).strip() if re.search(r"^#\s*(.*)$", notes, re.M) else sid)
        confirm = open(os.path.join(d, "confirm.txt"), errors="replace").read().strip().splitlines() if os.path.exists(os.path.join(d, "confirm.txt")) else []
        runs = res.get(sid, [])
        detected = any(r.get("exit") == 1 and r.get("violation_lines", 0) > 0 for r in runs)
        meta = {
            "seed": sid,
            "property": prop,
            "title": title,
            "change": section(notes, "Change", "What it does", "Description")[:1500],
            "clause_broken": section(notes, "Property clause broken", "Clause broken", "Clause")[:1200],
            "needs_to_manifest": section(notes, "What is needed for it to manifest", "What it needs to manifest", "Trigger", "What is needed")[:1500],
            "files": {"patch": "patch.diff", "demonstration": sorted(os.path.basename(x) for x in glob.glob(os.path.join(d, "demo*"))), "notes": "notes.md"},
            "confirmed_in_scratch_worktree": {
                "how": "tools/confirm_seed.sh: demonstration without the patch (must pass), with the patch (must fail), then the repository's full test suite with the patch (must pass), in a git worktree under /tmp/mut that was removed afterwards",
                "result": confirm,
            },
            "checks_run_with_patch_applied_to_repo": {
                "how": "tools/try_seed.sh: git -C /repo apply patch.diff; ./check <property> <tier>; git -C /repo checkout -- .",
                "runs": runs,
                "detected": detected,
                "earlier_runs_before_the_check_was_strengthened": HISTORY.get(sid, []),
            },
        }
        if os.path.exists(os.path.join(d, "patch.original.diff")):
            meta["files"]["patch_as_written_by_the_sub_agent"] = "patch.original.diff (patch.diff is the same change rebased onto a later fix: commit of /repo)"
        json.dump(meta, open(os.path.join(d, "meta.json"), "w"), indent=1)
        table.append((sid, title, detected, runs))
    for sid, title, det, runs in table:
        by = ", ".join("%s %s (%d lines)" % (r["check"], r["tier"], r["violation_lines"]) for r in runs if r.get("exit") == 1) or ("not run" if not runs else "missed: " + "; ".join(r.get("problem", "%s %s rc=%s" % (r.get("check"), r.get("tier"), r.get("exit"))) for r in runs))
        missed = any(r.get("exit") == 0 for r in HISTORY.get(sid, []))
        print("| %s | %s | %s | %s |" % (sid, title[:90].replace("|", "/"), ("yes (missed before strengthening)" if missed else "yes") if det else "NO", by))

main()
