#!/bin/bash
# run_seeds.sh <tier> <seed-name>...: run each seed against the check of its own property; append to seeded/RESULTS.txt
T=$1; shift
for n in "$@"; do
  P=${n%%-*}
  echo "### $n vs $P ($T) $(date +%H:%M)" >> /verif/seeded/RESULTS.txt
  /verif/tools/try_seed.sh /verif/seeded/$n $T $P >> /verif/seeded/RESULTS.txt 2>&1
done
