#!/bin/bash
# confirm_seed.sh <Cnn> <k>: in scratch worktree /tmp/mut/<Cnn>, confirm mutation k from /tmp/mut/<Cnn>-out:
#  (1) patch applies and builds, (2) the repository suite passes with it, (3) the demo fails with it,
#  (4) the demo passes without it. Writes /tmp/mut/<Cnn>-out/confirm<k>.txt
ID=$1; K=$2
WT=/tmp/mut/$ID; OUT=/tmp/mut/$ID-out
export CARGO_TARGET_DIR=$WT/target CARGO_NET_OFFLINE=true
R=$OUT/confirm$K.txt; : > $R
cd $WT || exit 2
git checkout -q -- . ; git clean -fdq -e target
git apply --check $OUT/patch$K.diff || { echo "PATCH-DOES-NOT-APPLY" >> $R; exit 1; }
DEMO=$(ls $OUT/demo$K.* | head -1)
run_demo() {
  if [[ $DEMO == *.rs ]]; then
    cp $DEMO crates/lib/tests/zz_demo_$K.rs
    timeout 1200 cargo test --offline -p grass --test zz_demo_$K >$OUT/demo_run.log 2>&1; rc=$?
    rm -f crates/lib/tests/zz_demo_$K.rs
  else
    timeout 1200 bash $DEMO >$OUT/demo_run.log 2>&1; rc=$?
  fi
  return $rc
}
run_demo; echo "demo-without-patch rc=$? (want 0)" >> $R
git apply $OUT/patch$K.diff
run_demo; echo "demo-with-patch rc=$? (want != 0)" >> $R
timeout 3000 cargo nextest run --workspace --no-fail-fast --offline --test-threads 6 > $OUT/suite_confirm$K.log 2>&1
echo "suite-with-patch: $(grep -E 'Summary' $OUT/suite_confirm$K.log | tail -1)" >> $R
git checkout -q -- . ; git clean -fdq -e target
cat $R
