#!/bin/bash
# try_seed.sh <seed-dir> <tier> <Cnn> [<Cnn>...]: apply seeded/<dir>/patch.diff to /repo, run the checks, revert.
D=$1; T=$2; shift 2
cd /repo || exit 2
if [ -n "$(git status --porcelain)" ]; then echo "/repo not clean"; exit 2; fi
trap 'git -C /repo reset -q --hard HEAD; git -C /repo clean -fdq' EXIT
git apply "$D/patch.diff" 2>/dev/null || git apply --3way "$D/patch.diff" || { echo "patch does not apply"; exit 2; }
for P in "$@"; do
  out=$(cd /verif && VERIF_ROOT=/verif ./check $P $T 2>&1)
  rc=$?
  echo "== $P $T rc=$rc: $(echo "$out" | grep -c '^VIOLATION') violation lines"
  echo "$out" | grep -A1 '^VIOLATION' | head -6 | cut -c1-300
  echo "$out" | tail -1 | cut -c1-300
done
